import Yaql.Model.Token
import Yaql.Model.FloatRound
/-!
Model of `yaql/language/lexer.py` as ply 3.11 runs it (`ply.lex.Lexer.token`).

ply builds ONE master regular expression `(?P<t_A>..)|(?P<t_B>..)|...` and tries it at the current
position with `re.match(lexdata, lexpos)`; the FIRST alternative that matches wins (not the longest).
The alternatives are ordered:
  * function rules in source order: DOLLAR, NUMBER, FUNC, KEYWORD_STRING, QUOTED_STRING,
    DOUBLE_QUOTED_STRING, QUOTED_VERBATIM_STRING;
  * then the string rules (operator symbols, MAPPING, INDEXER, MAP) by DECREASING length of the
    regular-expression text (`re.escape(symbol)`), ties in the order of `dir(object)`, i.e. by rule name.
Before that, characters of `t_ignore` are skipped; if nothing matches, a character of `literals`
is a token of its own; otherwise `t_error` raises `YaqlLexicalException(char, position)`.

Every rule below is the deterministic reading of its regular expression under the hypotheses of
`CharCfg` (a digit is a word character, `_` is one, quotes / `$` / `.` / `(` / blanks are not): under
these the backtracking of Python's `re` has exactly one way to succeed, which is what is computed.
The character classes `\w`, `\d` (re.UNICODE) are parameters; `\N{name}` lookup is an oracle.

Strings are `List Char`; offsets count code points (as Python's `lexpos` does).
-/
namespace Yaql.Lexer
open Yaql.Syntax

/-! ## configuration -/

/-- characters that the model needs to be NON-word characters -/
def nonWordChars : List Char :=
  [' ', '\t', '\r', '\n', '\'', '"', '`', '\\', '$', '.', '(', ')', '[', ']', '{', '}', ',']

/-- Python's `re` character classes under `re.UNICODE`, as parameters -/
structure CharCfg where
  /-- `\w` -/
  isWord : Char → Bool
  /-- `\d` -/
  isDigit : Char → Bool
  /-- the decimal value `int()` / `float()` give to a `\d` character -/
  digitVal : Char → Nat
  digit_word : ∀ c, isDigit c = true → isWord c = true
  digit_lt : ∀ c, isDigit c = true → digitVal c < 10
  underscore_word : isWord '_' = true
  underscore_nondigit : isDigit '_' = false
  nonword : ∀ c, c ∈ nonWordChars → isWord c = false

/-- one string rule of the ply lexer (`t_NAME = 'regex'`): a literal text -/
structure StrRule where
  name : List Char          -- ply rule name without `t_`
  pat : List Char           -- the literal text the regex matches
  relen : Nat               -- length of the regex text (ply's sort key)
  kind : TokKind
deriving Repr, DecidableEq

structure LexCfg where
  chars : CharCfg
  /-- the string rules in the order ply tries them -/
  rules : List StrRule
  /-- keys of the operator table (`t.value in self._operators_table` in `t_KEYWORD_STRING`) -/
  opWords : List (List Char)
  /-- `\N{name}` -> character, `none` = the codec rejects the name -/
  names : List Char → Option Char
  /-- `sys.get_int_max_str_digits()`; 0 = no limit -/
  maxDigits : Nat

/-- what makes the lexer stop before the end of the text -/
inductive LexErr where
  /-- `YaqlLexicalException(value, position)` -/
  | lexical (value : List Char) (pos : Nat)
  /-- NOT an exception of the real code: the escape `\uD800`..`\uDFFF` at `pos` denotes a lone
      surrogate, which a Python `str` can hold but Lean's `Char` cannot - outside the model -/
  | surrogate (pos : Nat)
deriving DecidableEq, Repr, Inhabited

instance {ε α} [DecidableEq ε] [DecidableEq α] : DecidableEq (Except ε α) := fun a b =>
  match a, b with
  | .ok x, .ok y => if h : x = y then isTrue (by rw [h]) else isFalse (by intro e; cases e; exact h rfl)
  | .error x, .error y => if h : x = y then isTrue (by rw [h]) else isFalse (by intro e; cases e; exact h rfl)
  | .ok _, .error _ => isFalse (by intro e; cases e)
  | .error _, .ok _ => isFalse (by intro e; cases e)

/-! ## building the string rules from an operator table (`Lexer.__init__` + ply's ordering) -/

/-- `re._special_chars_map`: characters `re.escape` prefixes with a backslash -/
def reSpecial (c : Char) : Bool :=
  c ∈ ['(', ')', '[', ']', '{', '}', '?', '*', '+', '-', '|', '^', '$', '\\', '.', '&', '~', '#',
       ' ', '\t', '\n', '\r', Char.ofNat 11, Char.ofNat 12]

/-- `len(re.escape(s))` -/
def escLen : List Char → Nat
  | [] => 0
  | c :: r => (if reSpecial c then 2 else 1) + escLen r

/-- `YaqlFactory._name_generator`: digits of `value` in base 26, least significant first -/
def opNameDigits : Nat → Nat → List Char
  | 0, _ => []
  | f + 1, t => if t = 0 then [] else Char.ofNat (65 + t % 26) :: opNameDigits f (t / 26)

/-- lexeme name of the `i`-th (1-based) distinct operator symbol -/
def opName (i : Nat) : List Char := ['O', 'P', '_'] ++ opNameDigits (i + 1) i

/-- Python's `str <` (lexicographic by code point, a proper prefix is smaller); here as `≤` -/
def nameLe : List Char → List Char → Bool
  | [], _ => true
  | _ :: _, [] => false
  | a :: as, b :: bs => if a.toNat < b.toNat then true else if b.toNat < a.toNat then false else nameLe as bs

def insertBy {α} (le : α → α → Bool) (x : α) : List α → List α
  | [] => [x]
  | y :: ys => if le x y then x :: y :: ys else y :: insertBy le x ys

/-- stable insertion sort (`list.sort` is stable) -/
def sortBy {α} (le : α → α → Bool) (l : List α) : List α := l.foldr (insertBy le) []

def opRulesFrom : Nat → List (List Char) → List StrRule
  | _, [] => []
  | i, s :: r => ⟨opName i, s, escLen s, .op s⟩ :: opRulesFrom (i + 1) r

/-- string rules of `Lexer(yaql_operators)`: `ops` = the keys of the operator table other than
`[]`, `{}` in insertion order.  Rules whose regex is `NEVER_MATCHING_RE` are left out.  ply
collects the rules in `dir()` order (sorted by name) and sorts stably by decreasing regex length. -/
def mkRules (ops : List (List Char)) (hasIndexer hasMap : Bool) (nameValueOp : Option (List Char)) :
    List StrRule :=
  let base :=
    (if hasIndexer then [⟨['I', 'N', 'D', 'E', 'X', 'E', 'R'], ['['], 2, TokKind.indexer⟩] else []) ++
    (if hasMap then [⟨['M', 'A', 'P'], ['{'], 1, TokKind.map⟩] else []) ++
    (match nameValueOp with
     | some s => [⟨['M', 'A', 'P', 'P', 'I', 'N', 'G'], s, escLen s, TokKind.mapping⟩]
     | none => []) ++
    opRulesFrom 1 ops
  sortBy (fun a b => b.relen ≤ a.relen) (sortBy (fun a b => nameLe a.name b.name) base)

/-- the configuration of `YaqlFactory.create()` for an operator table -/
def LexCfg.ofTable (chars : CharCfg) (ops : List (List Char)) (hasIndexer hasMap : Bool)
    (nameValueOp : Option (List Char)) (names : List Char → Option Char) (maxDigits : Nat) : LexCfg :=
  { chars, rules := mkRules ops hasIndexer hasMap nameValueOp,
    opWords := ops ++ (if hasIndexer then [['[', ']']] else []) ++ (if hasMap then [['{', '}']] else []),
    names, maxDigits }

/-! ## results -/

/-- outcome of the master regex + token action at one position -/
inductive Matched where
  | tok (t : Token) (len : Nat)     -- `len` = number of characters matched
  | err (e : LexErr)
deriving DecidableEq, Repr, Inhabited

/-- outcome of one `lexer.token()` call -/
inductive TokStep where
  | eof
  | tok (t : Token) (next : Nat)    -- `next` = `lexpos` after the call
  | err (e : LexErr)
deriving DecidableEq, Repr, Inhabited

/-! ## character-level helpers -/

/-- `t_ignore = ' \t\r\n'` -/
def isIgnored (c : Char) : Bool := c == ' ' || c == '\t' || c == '\r' || c == '\n'

/-- `literals = '()],}'` -/
def isLiteral (c : Char) : Bool := c == '(' || c == ')' || c == ']' || c == ',' || c == '}'

/-- `\b` after a word character: the next character is not a word character (or the text ends) -/
def boundaryAfter (cc : CharCfg) : List Char → Bool
  | [] => true
  | x :: _ => !cc.isWord x

/-- `[^\W\d]` -/
def identStart (cc : CharCfg) (c : Char) : Bool := cc.isWord c && !cc.isDigit c

/-! ## NUMBER: `\b\d+(\.?\d+)?\b`, then `int()` / `float()` -/

structure NumMatch where
  int : List Char
  frac : Option (List Char)
deriving DecidableEq, Repr

/-- the optional group `(\.?\d+)?` tried right after the greedy `\d+` (`after` = the text behind the
digits): it succeeds only as `.` digits followed by a boundary - with an empty `\.?` the inner `\d+` finds no
digit left, with fewer digits taken the final `\b` would fall between two word characters -/
def fracPart (cc : CharCfg) (after : List Char) : Option (List Char) :=
  match after with
  | c :: a2 =>
      if c = '.' then
        let d2 := a2.takeWhile cc.isDigit
        if !d2.isEmpty && boundaryAfter cc (a2.dropWhile cc.isDigit) then some d2 else none
      else none
  | [] => none

/-- the text NUMBER matches at `rest` (`pw`: the previous character is a word character, then the leading
`\b` fails). Greedy `\d+`, then `fracPart`; without the group the final `\b` needs a non-word character
(or the end) behind the digits - taking fewer digits never helps, a digit is a word character. -/
def matchNumber (cc : CharCfg) (pw : Bool) (rest : List Char) : Option NumMatch :=
  if pw then none else
  let d1 := rest.takeWhile cc.isDigit
  if d1.isEmpty then none else
  let after := rest.dropWhile cc.isDigit
  match fracPart cc after with
  | some d2 => some ⟨d1, some d2⟩
  | none => if boundaryAfter cc after then some ⟨d1, none⟩ else none

/-- `int(text)` for a text of `\d` characters -/
def digitsVal (cc : CharCfg) (ds : List Char) : Nat := ds.foldl (fun a d => 10 * a + cc.digitVal d) 0

/-- the same digits spelled with ASCII `0`..`9` -/
def asciiDigits (cc : CharCfg) (ds : List Char) : List Char := ds.map fun d => Char.ofNat (48 + cc.digitVal d)

def NumMatch.len (m : NumMatch) : Nat :=
  match m.frac with
  | some d2 => m.int.length + 1 + d2.length
  | none => m.int.length

/-- `float(text)` for a text `a.b` of `\d` characters: the decimal rational `digits(a b) / 10^|b|`, correctly
rounded to binary64 (`FloatRound.roundRat`: nearest, ties to even - proved in `Props/FloatRound.lean`); a literal beyond
the double range is `inf` (`float('1' * 400 + '.5')`), never an error. -/
def literalFloat (cc : CharCfg) (a b : List Char) : UInt64 :=
  match FloatRound.roundRat (digitsVal cc (a ++ b) : Nat) (10 ^ b.length) with
  | .ok w => w
  | .overflow _ => FloatRound.pinfBits
  | .zeroDen => FloatRound.qnan        -- unreachable, `10^k ≠ 0` (`Props/C16.literalFloat_spec`)

/-- `t_NUMBER`: float iff the text has a dot; `int()` of more than `maxDigits` digits raises
`ValueError`, which the rule turns into `YaqlLexicalException(text, lexpos)`.  `float()` of such a
text never raises. A float token carries its decimal text (ASCII digits) and the double it denotes. -/
def convNumber (cfg : LexCfg) (m : NumMatch) (pos : Nat) : Matched :=
  match m.frac with
  | some d2 =>
      .tok ⟨.number, .flt (asciiDigits cfg.chars m.int ++ '.' :: asciiDigits cfg.chars d2)
        (literalFloat cfg.chars m.int d2), pos⟩ m.len
  | none =>
      if cfg.maxDigits != 0 && cfg.maxDigits < m.int.length then .err (.lexical m.int pos)
      else .tok ⟨.number, .int (digitsVal cfg.chars m.int), pos⟩ m.len

/-! ## FUNC `\b[^\W\d]\w*\(` and KEYWORD_STRING `(?!__)\b[^\W\d]\w*\b` -/

def matchFunc (cc : CharCfg) (pw : Bool) (rest : List Char) : Option (List Char) :=
  match rest with
  | [] => none
  | c :: _ =>
      if !pw && identStart cc c then
        match rest.dropWhile cc.isWord with
        | p :: _ => if p = '(' then some (rest.takeWhile cc.isWord) else none
        | [] => none
      else none

def startsDunder : List Char → Bool
  | a :: b :: _ => a == '_' && b == '_'
  | _ => false

def matchKeyword (cc : CharCfg) (pw : Bool) (rest : List Char) : Option (List Char) :=
  if startsDunder rest then none else
  match rest with
  | [] => none
  | c :: _ => if !pw && identStart cc c then some (rest.takeWhile cc.isWord) else none

def kwTrue : List Char := ['t', 'r', 'u', 'e']
def kwFalse : List Char := ['f', 'a', 'l', 's', 'e']
def kwNull : List Char := ['n', 'u', 'l', 'l']

/-- the action of `t_KEYWORD_STRING` -/
def classifyKeyword (cfg : LexCfg) (w : List Char) (pos : Nat) : Token :=
  if cfg.opWords.contains w then ⟨.op w, .text w, pos⟩
  else if w = kwTrue then ⟨.true_, .none, pos⟩
  else if w = kwFalse then ⟨.false_, .none, pos⟩
  else if w = kwNull then ⟨.null_, .none, pos⟩
  else ⟨.keyword, .text w, pos⟩

/-! ## the three string rules `q([^q\\]|\\.)*q` (no DOTALL: `.` is any character but `\n`) -/

/-- content of the string token whose opening quote has just been read, if the regex matches -/
def scanStr (q : Char) : List Char → Option (List Char)
  | [] => none
  | c :: r =>
      if c = q then some []
      else if c = '\\' then
        match r with
        | [] => none
        | e :: r' => if e = '\n' then none else (scanStr q r').map (fun s => c :: e :: s)
      else (scanStr q r).map (fun s => c :: s)

/-- ``.replace('\\`', '`')`` -/
def unescapeBackquote : List Char → List Char
  | [] => []
  | c :: r =>
      -- a backslash right before a back quote is dropped (the back quote then stands for itself)
      if c = '\\' && r.head? = some '`' then unescapeBackquote r
      else c :: unescapeBackquote r

/-! ## `decode_escapes`: `ESCAPE_SEQUENCE_RE.sub(decode_match, s)` -/

def hexVal (c : Char) : Option Nat :=
  let n := c.toNat
  if 48 ≤ n && n ≤ 57 then some (n - 48)
  else if 97 ≤ n && n ≤ 102 then some (n - 87)
  else if 65 ≤ n && n ≤ 70 then some (n - 55)
  else none

def hexNum : Nat → List Char → Option Nat
  | acc, [] => some acc
  | acc, c :: r => match hexVal c with
      | some v => hexNum (16 * acc + v) r
      | none => none

/-- what `codecs.decode(escape, 'unicode-escape')` does with one matched escape -/
inductive Esc where
  | ok (c : Char)
  | bad                -- ValueError -> YaqlLexicalException
  | surrogate          -- a lone surrogate: outside the model
deriving DecidableEq, Repr

structure EscMatch where
  len : Nat            -- length of the matched escape, backslash included
  res : Esc
deriving DecidableEq, Repr

def isSurrogate (v : Nat) : Bool := 0xD800 ≤ v && v ≤ 0xDFFF

def codePoint (v : Nat) : Esc :=
  if isSurrogate v then .surrogate else if v ≤ 0x10FFFF then .ok (Char.ofNat v) else .bad

/-- `\\U........` / `\\u....` / `\\x..` after the letter: `n` characters other than `\n` -/
def hexEscape (n : Nat) (t : List Char) : Option EscMatch :=
  let ds := t.take n
  if ds.length = n && ds.all (fun c => c != '\n') then
    some ⟨n + 2, match hexNum 0 ds with | some v => codePoint v | none => .bad⟩
  else none

def isOct (c : Char) : Bool := 48 ≤ c.toNat && c.toNat ≤ 55

def octVal (ds : List Char) : Nat := ds.foldl (fun a d => 8 * a + (d.toNat - 48)) 0

/-- `\\[0-7]{1,3}` -/
def octEscape (t : List Char) : Option EscMatch :=
  let ds := (t.take 3).takeWhile isOct
  if ds.isEmpty then none else some ⟨ds.length + 1, .ok (Char.ofNat (octVal ds))⟩

/-- `\\N\{[^}]+\}` -/
def nameEscape (cfg : LexCfg) (t : List Char) : Option EscMatch :=
  match t with
  | n :: b :: r =>
      if n = 'N' && b = '{' then
        let name := r.takeWhile (fun c => c != '}')
        match r.dropWhile (fun c => c != '}') with
        | _ :: _ =>
            if name.isEmpty then none
            else some ⟨name.length + 4, match cfg.names name with | some c => .ok c | none => .bad⟩
        | [] => none
      else none
  | _ => none

/-- `\\[\\'"abfnrtv]` -/
def singleEscape (c : Char) : Option EscMatch :=
  if c = '\\' then some ⟨2, .ok '\\'⟩
  else if c = '\'' then some ⟨2, .ok '\''⟩
  else if c = '"' then some ⟨2, .ok '"'⟩
  else if c = 'a' then some ⟨2, .ok (Char.ofNat 7)⟩
  else if c = 'b' then some ⟨2, .ok (Char.ofNat 8)⟩
  else if c = 'f' then some ⟨2, .ok (Char.ofNat 12)⟩
  else if c = 'n' then some ⟨2, .ok '\n'⟩
  else if c = 'r' then some ⟨2, .ok '\r'⟩
  else if c = 't' then some ⟨2, .ok '\t'⟩
  else if c = 'v' then some ⟨2, .ok (Char.ofNat 11)⟩
  else none

/-- `ESCAPE_SEQUENCE_RE` tried right after a backslash (`t` = the text after it): the ORDERED
alternation - the first alternative that matches decides, even when it then fails to decode -/
def escAt (cfg : LexCfg) (t : List Char) : Option EscMatch :=
  match t with
  | [] => none
  | c :: t' =>
      ((((((if c = 'U' then hexEscape 8 t' else none).or
        (if c = 'u' then hexEscape 4 t' else none)).or
        (if c = 'x' then hexEscape 2 t' else none)).or
        (octEscape t)).or
        (nameEscape cfg t)).or
        (singleEscape c))

def consOk (c : Char) : Except LexErr (List Char) → Except LexErr (List Char)
  | .ok l => .ok (c :: l)
  | .error e => .error e

/-- `re.sub` scanning left to right; `skip` = characters still covered by the last match,
`off` = offset in `s` of the head of the list; `base` = offset of `s` in the expression -/
def decodeGo (cfg : LexCfg) (base : Nat) : Nat → Nat → List Char → Except LexErr (List Char)
  | _, _, [] => .ok []
  | skip + 1, off, _ :: t => decodeGo cfg base skip (off + 1) t
  | 0, off, c :: t =>
      if c = '\\' then
        match escAt cfg t with
        | none => consOk c (decodeGo cfg base 0 (off + 1) t)
        | some m =>
            match m.res with
            | .ok v => consOk v (decodeGo cfg base (m.len - 1) (off + 1) t)
            | .bad => .error (.lexical (c :: t.take (m.len - 1)) (base + off))
            | .surrogate => .error (.surrogate (base + off))
      else consOk c (decodeGo cfg base 0 (off + 1) t)

/-- `decode_escapes(s, position)` -/
def decodeEscapes (cfg : LexCfg) (s : List Char) (position : Nat) : Except LexErr (List Char) :=
  decodeGo cfg position 0 0 s

/-! ## the master regex at one position -/

def firstStrRule (rules : List StrRule) (rest : List Char) : Option StrRule :=
  rules.find? (fun r => !r.pat.isEmpty && r.pat.isPrefixOf rest)

/-- token action of `t_QUOTED_STRING` / `t_DOUBLE_QUOTED_STRING` -/
def quotedTok (cfg : LexCfg) (content : List Char) (pos : Nat) : Matched :=
  match decodeEscapes cfg content (pos + 1) with
  | .ok v => .tok ⟨.quoted, .text v, pos⟩ (content.length + 2)
  | .error e => .err e

/-- string rules, literals, `t_error` -/
def symbolAt (cfg : LexCfg) (c : Char) (rest : List Char) (pos : Nat) : Matched :=
  match firstStrRule cfg.rules rest with
  | some sr => .tok ⟨sr.kind, .text sr.pat, pos⟩ sr.pat.length
  | none =>
      if isLiteral c then .tok ⟨.lit c, .text [c], pos⟩ 1
      else .err (.lexical [c] pos)

/-- the rules at a character that is not ignored. `pw`: the previous character of the text is a
word character (`\b` looks behind `lexpos`); `rest` = the text from `lexpos` on -/
def ruleAt (cfg : LexCfg) (pw : Bool) (rest : List Char) (pos : Nat) : Matched :=
  match rest with
  | [] => .err (.lexical [] pos)
  | c :: r =>
      if c = '$' then
        let w := r.takeWhile cfg.chars.isWord
        .tok ⟨.dollar, .text (c :: w), pos⟩ (w.length + 1)
      else
      match matchNumber cfg.chars pw rest with
      | some m => convNumber cfg m pos
      | none =>
      match matchFunc cfg.chars pw rest with
      | some w => .tok ⟨.func, .text w, pos⟩ (w.length + 1)
      | none =>
      match matchKeyword cfg.chars pw rest with
      | some w => .tok (classifyKeyword cfg w pos) w.length
      | none =>
      match (if c = '\'' || c = '"' then scanStr c r else none) with
      | some content => quotedTok cfg content pos
      | none =>
      match (if c = '`' then scanStr c r else none) with
      | some content => .tok ⟨.quoted, .text (unescapeBackquote content), pos⟩ (content.length + 2)
      | none => symbolAt cfg c rest pos

/-! ## `token()` and the whole text -/

/-- skip `t_ignore`, then the rules -/
def scanTok (cfg : LexCfg) : Bool → List Char → Nat → TokStep
  | _, [], _ => .eof
  | pw, c :: r, pos =>
      if isIgnored c then scanTok cfg (cfg.chars.isWord c) r (pos + 1)
      else match ruleAt cfg pw (c :: r) pos with
        | .tok t len => .tok t (pos + len)
        | .err e => .err e

/-- is the character before offset `pos` a word character -/
def prevWord (cfg : LexCfg) (text : List Char) (pos : Nat) : Bool :=
  match pos with
  | 0 => false
  | p + 1 => match text[p]? with
      | some c => cfg.chars.isWord c
      | none => false

/-- one `lexer.token()` call on the lexer state `{lexdata = text, lexpos = pos}` -/
def nextTok (cfg : LexCfg) (text : List Char) (pos : Nat) : TokStep :=
  scanTok cfg (prevWord cfg text pos) (text.drop pos) pos

def consTok (t : Token) : Except LexErr (List Token) → Except LexErr (List Token)
  | .ok l => .ok (t :: l)
  | .error e => .error e

/-- all tokens from a position on. Structural recursion over the text, each character is visited
once: `skip` = characters still inside the token emitted last. (That this is the iteration of
`nextTok` - `Yaql.Props.C03Lex.lexFrom_step` - needs every token to be at least one character
long: `nextTok_progress`.) -/
def lexGo (cfg : LexCfg) : Nat → Bool → List Char → Nat → Except LexErr (List Token)
  | _, _, [], _ => .ok []
  | skip + 1, _, c :: r, pos => lexGo cfg skip (cfg.chars.isWord c) r (pos + 1)
  | 0, pw, c :: r, pos =>
      if isIgnored c then lexGo cfg 0 (cfg.chars.isWord c) r (pos + 1)
      else match ruleAt cfg pw (c :: r) pos with
        | .tok t len => consTok t (lexGo cfg (len - 1) (cfg.chars.isWord c) r (pos + 1))
        | .err e => .error e

def lexFrom (cfg : LexCfg) (text : List Char) (pos : Nat) : Except LexErr (List Token) :=
  lexGo cfg 0 (prevWord cfg text pos) (text.drop pos) pos

/-- the token list of a text (what the parser pulls), or where the lexer stops -/
def lexAll (cfg : LexCfg) (text : List Char) : Except LexErr (List Token) :=
  lexGo cfg 0 false text 0

end Yaql.Lexer
