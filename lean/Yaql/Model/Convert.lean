import Yaql.Model.Value
/-!
Model of `yaql/language/utils.py: convert_input_data / convert_output_data` (C10, C08, C09).

`Py` is a Python object as the two converters see it: the converters only ask
`isinstance` questions (str / Sequence / Mapping / MutableSet / Set / tuple,list / Iterable),
iterate, build `tuple / FrozenDict / frozenset / map` (input) or `dict / set / list / tuple`
(output) and - implicitly, when a `set` or a `dict` key is built - hash.  So a Python object is
a scalar leaf, an element container of one of nine kinds, or a pair container (dict / FrozenDict).

* `tuple list`                : `Sequence`s, the `(tuple, list)` branch of the output converter
* `set fset kview iview`      : `collections.abc.Set`s (set, frozenset, dict.keys(), dict.items();
                                the elements of an `iview` are the 2-tuples `(key, value)`).
                                `kview iview` are `collections.abc.KeysView / ItemsView` - the views of a
                                builtin dict (`dict_keys`, `dict_items`, registered with these ABCs) as well as
                                those of a `FrozenDict` / any `Mapping` (instances of the ABC classes proper),
                                whether made by `dict.keys()` / `dict.items()` of the library or supplied by the
                                host: the output converter has its own branch for them, before the `Set` branch
* `iter ordering vview`       : every other iterable: generators / map / filter / zip / islice...
                                (`iter`, given by its finite content), `queries.OrderingIterable`
                                (content in sorted order), `dict.values()`
* `dict fdict`                : `Mapping`s - builtin dict and `utils.FrozenDict`

The embedding of the shared `Yaql.Value` is `ofValue` / `toValue`.
-/
namespace Yaql.Convert

inductive Scalar where
  | null
  | bool (b : Bool)
  | int (i : Int)
  | flt (bits : UInt64)
  | str (s : List Char)
  | host (id : Nat)
deriving DecidableEq, Repr, Inhabited

inductive SeqKind where
  | tuple | list | set | fset | iter | ordering | kview | iview | vview
deriving DecidableEq, Repr, Inhabited

inductive MapKind where
  | dict | fdict
deriving DecidableEq, Repr, Inhabited

inductive Py where
  | sc (s : Scalar)
  | seq (k : SeqKind) (l : List Py)
  | map (k : MapKind) (kvs : List (Py × Py))
deriving Repr, Inhabited

/-- `isinstance(obj, collections.abc.Set)` -/
def SeqKind.isSetLike : SeqKind → Bool
  | .set | .fset | .kview | .iview => true
  | _ => false

/-- `isinstance(obj, (collections.abc.KeysView, collections.abc.ItemsView))`: the set-like dict views -/
def SeqKind.isView : SeqKind → Bool
  | .kview | .iview => true
  | _ => false

/-- `isinstance(obj, (tuple, list))` (= `isinstance(obj, Sequence)` on these kinds) -/
def SeqKind.isSeq : SeqKind → Bool
  | .tuple | .list => true
  | _ => false

/-- `isinstance(obj, (Sequence, Mapping, Set))`: `limit_iterable` checks `len()` and does not iterate -/
def SeqKind.sized (k : SeqKind) : Bool := k.isSeq || k.isSetLike

/-! ## Python hashability (`hash(obj)` does not raise `TypeError`) -/

mutual
def hashable : Py → Bool
  | .sc _ => true
  | .seq k l =>
      match k with
      | .tuple => hashableL l                              -- hash of a tuple hashes its items
      | .fset | .iter | .ordering | .vview => true         -- frozenset; identity hash
      | .list | .set | .kview | .iview => false            -- `__hash__ = None`
  | .map k kvs =>
      match k with
      | .fdict => hashableP kvs                            -- FrozenDict.__hash__: xor of hash((k, v))
      | .dict => false
def hashableL : List Py → Bool
  | [] => true
  | x :: xs => hashable x && hashableL xs
def hashableP : List (Py × Py) → Bool
  | [] => true
  | (k, v) :: r => hashable k && hashable v && hashableP r
end

/-! ## `convert_input_data` -/

/-- the branch `convert_input_data` takes for an element container -/
def inKind : SeqKind → SeqKind
  | .tuple | .list => .tuple          -- Sequence -> tuple
  | .set => .fset                     -- MutableSet -> frozenset
  | _ => .iter                        -- any other Iterable (frozenset and the dict views included) -> map(...)

mutual
def convIn : Py → Py
  | .sc s => .sc s
  | .seq k l => .seq (inKind k) (convInL l)
  | .map _ kvs => .map .fdict (convInP kvs)
def convInL : List Py → List Py
  | [] => []
  | x :: xs => convIn x :: convInL xs
def convInP : List (Py × Py) → List (Py × Py)
  | [] => []
  | (k, v) :: r => (convIn k, convIn v) :: convInP r
end

/-! ## `convert_output_data` -/

structure Opts where
  /-- `yaql.convertTuplesToLists` (default true) -/
  t2l : Bool := true
  /-- `yaql.convertSetsToLists` (default false) -/
  s2l : Bool := false
deriving DecidableEq, Repr

inductive Err where
  | unhashable      -- TypeError: unhashable type
  | tooLarge        -- CollectionTooLargeException
deriving DecidableEq, Repr

/-- `yaql.limitIterators`: `none` is the default -1 (no limit) -/
abbrev Limit := Option Nat

/-- `not (0 <= max_count < len(iterable))` -/
def Limit.admits : Limit → Nat → Bool
  | none, _ => true
  | some N, n => decide (n ≤ N)

mutual
/-- `convert_output_data(obj, limit_func, engine)`; `lim` is the `#iter` limiter -/
def convOut (o : Opts) (lim : Limit) : Py → Except Err Py
  | .sc s => .ok (.sc s)
  | .map _ kvs =>
      -- `for key, value in limit_func(obj.items())`: an ItemsView is a Set, checked by len
      if lim.admits kvs.length then
        match convPairs o lim kvs with
        | .ok r => .ok (.map .dict r)
        | .error e => .error e
      else .error .tooLarge
  | .seq k l =>
      if k.isView then
        -- keys() / items() of a dictionary: `list(rec(t) for t in limit_func(obj))` - a list of the keys /
        -- of the `[key, value]` pairs in iteration order, whatever the options; sized, so checked by len
        if lim.admits l.length then
          match convElems o lim false none l with
          | .ok r => .ok (.seq .list r)
          | .error e => .error e
        else .error .tooLarge
      else if k.isSetLike then
        if lim.admits l.length then
          match convElems o lim (!o.s2l) none l with
          | .ok r => .ok (.seq (if o.s2l then .list else .set) r)
          | .error e => .error e
        else .error .tooLarge
      else if k.isSeq then
        if lim.admits l.length then
          match convElems o lim false none l with
          | .ok r => .ok (.seq (if o.t2l then .list else k) r)
          | .error e => .error e
        else .error .tooLarge
      else
        -- any other iterable: wrapped by the counting generator of `limit_iterable`
        match convElems o lim false lim l with
        | .ok r => .ok (.seq .list r)
        | .error e => .error e
/-- `target(rec(t) for t in limit_func(obj))`; `needHash`: the target is a `set`;
    `budget`: items the counting generator still lets through (`none`: not counted) -/
def convElems (o : Opts) (lim : Limit) (needHash : Bool) : Option Nat → List Py → Except Err (List Py)
  | _, [] => .ok []
  | b, x :: xs =>
      if b == some 0 then .error .tooLarge else
      match convOut o lim x with
      | .error e => .error e
      | .ok x' =>
          if needHash && !hashable x' then .error .unhashable else
          match convElems o lim needHash (b.map (· - 1)) xs with
          | .error e => .error e
          | .ok r => .ok (x' :: r)
/-- `result[rec(key)] = rec(value)`: the value is converted first, then the key, then the key is hashed -/
def convPairs (o : Opts) (lim : Limit) : List (Py × Py) → Except Err (List (Py × Py))
  | [] => .ok []
  | (k, v) :: r =>
      match convOut o lim v with
      | .error e => .error e
      | .ok v' =>
          match convOut o lim k with
          | .error e => .error e
          | .ok k' =>
              if !hashable k' then .error .unhashable else
              match convPairs o lim r with
              | .error e => .error e
              | .ok r' => .ok ((k', v') :: r')
end

/-! ## embedding of the shared `Yaql.Value` -/

mutual
def ofValue : Yaql.Value → Py
  | .null => .sc .null
  | .bool b => .sc (.bool b)
  | .int i => .sc (.int i)
  | .flt b => .sc (.flt b)
  | .str s => .sc (.str s)
  | .host n => .sc (.host n)
  | .tuple l => .seq .tuple (ofValueL l)
  | .list l => .seq .list (ofValueL l)
  | .set l => .seq .set (ofValueL l)
  | .iter l => .seq .iter (ofValueL l)
  | .dict kvs => .map .dict (ofValueP kvs)
def ofValueL : List Yaql.Value → List Py
  | [] => []
  | x :: xs => ofValue x :: ofValueL xs
def ofValueP : List (Yaql.Value × Yaql.Value) → List (Py × Py)
  | [] => []
  | (k, v) :: r => (ofValue k, ofValue v) :: ofValueP r
end

mutual
/-- plain results (dict / list / tuple / set / scalars) are `Yaql.Value`s; the lazy and frozen
    kinds have no counterpart and are mapped to the nearest one -/
def toValue : Py → Yaql.Value
  | .sc .null => .null
  | .sc (.bool b) => .bool b
  | .sc (.int i) => .int i
  | .sc (.flt b) => .flt b
  | .sc (.str s) => .str s
  | .sc (.host n) => .host n
  | .seq k l =>
      match k with
      | .tuple => .tuple (toValueL l)
      | .list => .list (toValueL l)
      | .set | .fset | .kview | .iview => .set (toValueL l)
      | .iter | .ordering | .vview => .iter (toValueL l)
  | .map _ kvs => .dict (toValueP kvs)
def toValueL : List Py → List Yaql.Value
  | [] => []
  | x :: xs => toValue x :: toValueL xs
def toValueP : List (Py × Py) → List (Yaql.Value × Yaql.Value)
  | [] => []
  | (k, v) :: r => (toValue k, toValue v) :: toValueP r
end

end Yaql.Convert
