import Yaql.Model.RegistryRow
/-!
Names of a registered definition under EACH naming convention, and the keyword filter of `call()`.

* `conventions.py`: `PythonConvention` (identity), `CamelCaseConvention`
  (`re.sub(r'(?!^)_(\w)', upper)` = `Registry.toCamel`), for both function and parameter names;
* `specs.py:convert_parameter_name / convert_function_name` (right-strip of underscores, no
  convention = stop there, names that start with a non-letter keep their `#...#` prefix) and
  `get_function_definition` (explicit `name=` of `register_function`, `@specs.name`, the payload's
  `__name__`; `if convention: alias = convert_parameter_name(..)` for parameters without an alias);
* `utils.py:is_keyword / filter_parameters_dict` (after d6863d4: keys that are not strings are dropped too) and `system.py:call_func`
  (`context(name, engine, receiver)(*args, **filter_parameters_dict(kwargs))`).

Names are ASCII (`harness/gens/registry.py` refuses anything else), so `\w` is `isWordChar`.
-/
namespace Yaql.Naming
open Yaql.Types Yaql.Resolve Yaql.Registry

/-- the convention object of a context; a context may also have none (`Option Conv`) -/
inductive Conv where
  | camel        -- conventions.CamelCaseConvention (the default of `yaql.create_context`)
  | python       -- conventions.PythonConvention
deriving Repr, DecidableEq, Inhabited

/-- `Convention.convert_parameter_name(name)` -/
def Conv.convertParameterName : Conv → Name → Name
  | .camel, n => toCamel n
  | .python, n => n

/-- `Convention.convert_function_name(name)` -/
def Conv.convertFunctionName : Conv → Name → Name
  | .camel, n => toCamel n
  | .python, n => n

/-- `specs.convert_parameter_name(parameter_name, convention)` -/
def convertParameterName (n : Name) (c : Option Conv) : Name :=
  if n.isEmpty then n
  else
    let n := rstripUnderscore n
    match c with
    | none => n
    | some c => c.convertParameterName n

/-- what Python raises inside the naming code -/
inductive NameErr where
  | indexError          -- `function_name[0]` of a name made of underscores only
deriving Repr, DecidableEq, Inhabited

/-- `s.find(ch, 1)`: index of the first occurrence of `ch` at index >= 1 -/
def findFrom1 (ch : Char) : List Char → Option Nat
  | [] => none
  | _ :: r => (r.findIdx? (· == ch)).map (· + 1)

/-- `specs.convert_function_name(function_name, convention)` -/
def convertFunctionName (n : Name) (c : Option Conv) : Except NameErr Name :=
  if n.isEmpty then .ok n
  else
    let n := rstripUnderscore n
    match c with
    | none => .ok n
    | some c =>
        match n with
        | [] => .error .indexError
        | c0 :: _ =>
            if !c0.isAlpha then
              match findFrom1 c0 n with
              | none => .ok n                            -- finish = -1
              | some finish =>
                  if finish ≤ 1 then .ok n
                  else .ok (n.take (finish + 1) ++ c.convertFunctionName (n.drop (finish + 1)))
            else .ok (c.convertFunctionName n)

/-- the name `get_function_definition(func, name=regAs, convention=c)` gives the definition:
    `regAs` = the `name=` argument of `register_function`, `declName` = `@specs.name(..)` -/
def registeredName (c : Option Conv) (regAs declName : Option Name) (pyName : Name) : Except NameErr Name :=
  match regAs with
  | some n => .ok n
  | none =>
      match declName with
      | none => convertFunctionName pyName c
      | some d =>
          match c with
          | none => .ok d
          | some _ => convertFunctionName d c

/-- an empty alias counts as no alias (`p.alias or p.name`) -/
def normAlias : Option Name → Option Name
  | some [] => none
  | a => a

/-- `p.alias` after `get_function_definition(.., convention=c)`: an alias given in the decorator stays,
    otherwise `if convention: p.alias = convert_parameter_name(p.name, convention)` -/
def aliasUnder (c : Option Conv) (declAlias : Option Name) (name : Name) : Option Name :=
  match declAlias with
  | some a => normAlias (some a)
  | none =>
      match c with
      | none => none
      | some c => normAlias (some (convertParameterName name (some c)))

/-- the name the argument is passed by in a context with convention `c` (`p.alias or p.name`) -/
def keywordName (c : Option Conv) (declAlias : Option Name) (name : Name) : Name :=
  (aliasUnder c declAlias name).getD name

/-! ### keyword names at the call site

`runner.translate_args` takes the keyword of `name => value` as the characters that were written
(`param_name.value`); the convention of the context is consulted when a definition is REGISTERED
(aliases of its parameters), never when it is called.  So a keyword either is the name a parameter
has in that context, or it is data for `**kwargs` (`let`, functions made by `def`, host functions). -/

/-- the keyword the call site hands over for `written => value` in a context with convention `c` -/
def callSiteKeyword (_c : Option Conv) (written : Name) : Name := written

/-- where the keywords of a call go, for a definition with the named parameters `decl` (python name,
    alias declared in the source) and a `**kwargs` parameter, registered in a context with convention
    `c`: the ones that carry the name a parameter has under that convention are bound to it; every
    other one is handed to `**kwargs` under the name that was written, with the value that was written -/
def splitKeywords {α : Type} (c : Option Conv) (decl : List (Name × Option Name)) (kw : List (Name × α)) :
    List (Name × α) × List (Name × α) :=
  let names := decl.map fun d => keywordName c d.2 d.1
  let kw' := kw.map fun kv => (callSiteKeyword c kv.1, kv.2)
  (kw'.filter fun kv => names.contains kv.1, kw'.filter fun kv => !names.contains kv.1)

/-! ### rows of `Yaql/Gen/RegistryConv.lean` -/

structure CParam where
  name : Name                  -- python parameter name
  declAlias : Option Name      -- alias written in the source text of the decorator
  seenAlias : Option Name      -- `p.alias` of the definition found in the context
  hidden : Bool
  star : Bool                  -- `*args` / `**kwargs`: never passed by its own name
deriving Repr, DecidableEq, Inhabited

structure CRow where
  conv : Option Conv           -- convention of the context the definition was found in
  pyName : Name                -- `payload.__name__`
  declName : Option Name       -- `@specs.name(..)`
  regAs : Option Name          -- `register_function(f, name=..)` in the source text, when it is this registration
  regName : Name               -- the name it is registered under in that context
  params : List CParam
deriving Repr, DecidableEq, Inhabited

def paramOk (c : Option Conv) (p : CParam) : Bool :=
  normAlias p.seenAlias == aliasUnder c p.declAlias p.name

def rowOk (r : CRow) : Bool :=
  (match registeredName r.conv r.regAs r.declName r.pyName with
   | .ok n => n == r.regName
   | .error _ => false) && r.params.all (paramOk r.conv)

/-! ### keywords -/

/-- `utils.is_keyword(text)` for a string: `KEYWORD_REGEX.match(text)` with the lexer's
    `(?!__)\b[^\W\d]\w*\b`.  `match` anchors at the start only: the first character must be a word
    character that is not a digit (which also gives the first `\b`), the text must not start with two
    underscores; `\w*` then runs to the end of the word, where the second `\b` always holds.
    So a string that merely STARTS with a keyword (`'a b'`) passes. -/
def isKeyword : List Char → Bool
  | [] => false
  | c :: r => isWordChar c && !c.isDigit && !(c == '_' && r.head? == some '_')

/-- key of a Python-level mapping: a string, or any other hashable object -/
inductive DKey where
  | str (s : List Char)
  | other (tag : Nat)
deriving Repr, DecidableEq, Inhabited

/-- `utils.filter_parameters_dict(parameters)`: walks the keys in order and deletes every key that is not a
    string (`not isinstance(name, str)`) or fails `is_keyword(name)`; it cannot raise -/
def filterParametersDict {α : Type} : List (DKey × α) → List (Name × α)
  | [] => []
  | (.other _, _) :: r => filterParametersDict r
  | (.str s, v) :: r => if isKeyword s then (s, v) :: filterParametersDict r else filterParametersDict r

/-- what `call_func` hands to `context(name, engine, receiver)`: `*args, **filter_parameters_dict(kwargs)` -/
def callHandOver (args : List Val) (kwargs : List (DKey × Val)) : List Arg × KwArgs :=
  (args.map .value, (filterParametersDict kwargs).map fun kv => (kv.1, .value kv.2))

/-- `call(name, args, kwargs)`; `layers` = the definitions registered under `name` -/
def callFunc (L : Lattice) (layers : List Layer) (receiver : Option Val) (args : List Val)
    (kwargs : List (DKey × Val)) : Outcome :=
  let (a, kw) := callHandOver args kwargs
  resolve L layers { receiver := receiver, args := a, kwargs := kw }

end Yaql.Naming
