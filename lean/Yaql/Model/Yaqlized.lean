/-
Model of yaql/standard_library/yaqlized.py and yaql/yaqlization.py: how an expression reaches
members of a host (Python) object.

* `EntryLike` / `Entry`: whitelist/blacklist entries (`_match_name_to_entry`): exact strings,
  compiled regexes (`entry.search(name)`), predicates (`entry(name)`).
* `Settings`, `buildSettings` (`build_yaqlization_settings`, `yaqlize`).
* `validateName`, `remapName` (`_validate_name`, `_remap_name`).
* `check` (`Yaqlized.check_value`), the three access paths `attribution` (`obj.attr`),
  `opDot` (`obj.method(..)`), `indexation` (`obj[key]`) and `autoYaqlize` (`_auto_yaqlize`).
* a registry abstraction (`FactRow`, `FnDef`, `bind`, `resolve`) over which the gate is stated:
  the rows are generated from the live registry (`Yaql/Gen/HostFacts.lean`).

Names are code-point lists.  Nothing here is imported.
-/
namespace Yaql.Yaqlized

abbrev Name := List Char

/-! ## whitelist / blacklist entries -/

/-- What `_match_name_to_entry` needs of an entry: a decidable match, and the fact that a plain
    string entry matches exactly itself (`name == entry`; a `str` is neither a compiled regex nor
    callable).  `ofName` is how `build_yaqlization_settings` puts a remapping target into the
    blacklist. -/
class EntryLike (E : Type) where
  matchesName : E → Name → Bool
  ofName : Name → E
  matches_ofName : ∀ n x, matchesName (ofName n) x = (x == n)

/-- a small regex family with `search` semantics: optional `^`, a run of literal characters and
    `.`, optional `$` (names never contain a newline, so `$` is end of text and `.` any character) -/
inductive RxAtom where
  | ch (c : Char)
  | any
deriving DecidableEq, Repr, Inhabited

structure Rx where
  anchorStart : Bool := false
  atoms : List RxAtom := []
  anchorEnd : Bool := false
deriving DecidableEq, Repr, Inhabited

/-- the atoms match a prefix of the text: what is left of it -/
def matchPrefix : List RxAtom → Name → Option Name
  | [], s => some s
  | _ :: _, [] => none
  | .ch c :: as, x :: s => if c == x then matchPrefix as s else none
  | .any :: as, _ :: s => matchPrefix as s

def Rx.matchAt (r : Rx) (s : Name) : Bool :=
  match matchPrefix r.atoms s with
  | some rest => !r.anchorEnd || rest.isEmpty
  | none => false

/-- `re.search`: some suffix of the text matches at its start (only the whole text if `^`) -/
def Rx.searchFrom (r : Rx) : Name → Bool
  | [] => r.matchAt []
  | x :: s => r.matchAt (x :: s) || r.searchFrom s

def Rx.search (r : Rx) (s : Name) : Bool :=
  if r.anchorStart then r.matchAt s else r.searchFrom s

/-- executable entries.  `table`: a predicate, or a regex outside the small family, given by the
    list of names it accepts (precomputed by the harness over the finite probe alphabet) -/
inductive Entry where
  | str (s : Name)
  | regex (r : Rx)
  | table (accepted : List Name)
deriving DecidableEq, Repr, Inhabited

def Entry.matchesName : Entry → Name → Bool
  | .str s, n => n == s
  | .regex r, n => r.search n
  | .table t, n => t.contains n

instance : EntryLike Entry where
  matchesName := Entry.matchesName
  ofName := .str
  matches_ofName := fun _ _ => rfl

/-! ## settings -/

/-- a value of `attributeRemapping`: a string, or a tuple `(name, {kwarg: kwarg'})`; the tuple may
    be too short to have the second component -/
inductive RemapTarget where
  | name (n : Name)
  | tuple (n : Name) (argmap : Option (List (Name × Name)))
deriving DecidableEq, Repr, Inhabited

def RemapTarget.target : RemapTarget → Name
  | .name n => n
  | .tuple n _ => n

structure Settings (E : Type) where
  yaqlizeAttributes : Bool := true
  yaqlizeMethods : Bool := true
  yaqlizeIndexer : Bool := true
  autoYaqlizeResult : Bool := false
  whitelist : List E := []            -- a Python set: only membership-style questions are asked
  blacklist : List E := []
  remapping : List (Name × RemapTarget) := []    -- a dict: first binding of a key wins, keys distinct
deriving Repr, Inhabited

/-- `build_yaqlization_settings` -/
def buildSettings {E : Type} [EntryLike E] (attrs methods indexer auto : Bool)
    (whitelist blacklist : List E) (remapping : List (Name × RemapTarget))
    (blacklistRemapped : Bool := true) : Settings E :=
  { yaqlizeAttributes := attrs, yaqlizeMethods := methods, yaqlizeIndexer := indexer,
    autoYaqlizeResult := auto, whitelist := whitelist,
    blacklist := blacklist ++
      (if blacklistRemapped then remapping.map (fun kv => EntryLike.ofName kv.2.target) else []),
    remapping := remapping }

/-- what `yaqlize(obj)` with no further arguments installs (used by `_auto_yaqlize` with
    `auto_yaqlize_result=True`) -/
def autoSettings {E : Type} [EntryLike E] : Settings E :=
  buildSettings true true true true [] [] []

/-! ## name validation -/

inductive Err where
  | attributeError      -- AttributeError('Cannot access ' + name)
  | keyError            -- KeyError('Cannot access ' + name)
  | typeError           -- getattr(obj, <tuple>): attribute name must be string
  | indexError          -- mappings[1] of a 1-tuple remapping
  | notYaqlized         -- the Yaqlized(...) type check refused the object: this overload is not chosen
deriving DecidableEq, Repr, Inhabited

def startsUnderscore : Name → Bool
  | '_' :: _ => true
  | _ => false

def anyMatch {E : Type} [EntryLike E] (es : List E) (n : Name) : Bool :=
  es.any (fun e => EntryLike.matchesName e n)

/-- `_validate_name(name, settings, exception_cls)` -/
def validateName {E : Type} [EntryLike E] (exc : Err) (s : Settings E) (n : Name) : Except Err Unit :=
  if startsUnderscore n then .error exc
  else if !s.whitelist.isEmpty then
    (if anyMatch s.whitelist n then .ok () else .error exc)
  else if anyMatch s.blacklist n then .error exc
  else .ok ()

/-- the allow/deny decision alone -/
def allowed {E : Type} [EntryLike E] (s : Settings E) (n : Name) : Bool :=
  !startsUnderscore n &&
    (if s.whitelist.isEmpty then !anyMatch s.blacklist n else anyMatch s.whitelist n)

def lookup (n : Name) : List (Name × RemapTarget) → Option RemapTarget
  | [] => none
  | (k, v) :: rest => if k == n then some v else lookup n rest

/-- `_remap_name`: `settings['attributeRemapping'].get(name, name)` -/
def remapName {E : Type} (s : Settings E) (n : Name) : RemapTarget :=
  (lookup n s.remapping).getD (.name n)

/-! ## the type check and the three access paths -/

/-- `Yaqlized(can_access_attributes, can_call_methods, can_index)` -/
structure Flags where
  attrs : Bool := false
  methods : Bool := false
  index : Bool := false
deriving DecidableEq, Repr, Inhabited

/-- a host object as yaql sees it: its `__yaqlization__` settings, if any -/
abbrev Host (E : Type) := Option (Settings E)

/-- `Yaqlized.check_value` -/
def check {E : Type} (f : Flags) : Host E → Bool
  | none => false
  | some s => (!f.attrs || s.yaqlizeAttributes) && (!f.methods || s.yaqlizeMethods) &&
              (!f.index || s.yaqlizeIndexer)

/-- what an access path does to the host object -/
inductive Access where
  | getattr (n : Name)                               -- getattr(obj, n)
  | callattr (n : Name) (argmap : List (Name × Name))  -- getattr(obj, n)(*args, **remapped kwargs)
  | getitem (n : Name)                               -- obj[n]
  | attrThenRaise (n : Name)                         -- getattr(obj, n) done, then yaql raised RuntimeError
deriving DecidableEq, Repr, Inhabited

def Access.member : Access → Name
  | .getattr n => n
  | .callattr n _ => n
  | .getitem n => n
  | .attrThenRaise n => n

/-- the name of a keyword argument as the remapped method receives it -/
def remapKw (am : List (Name × Name)) (k : Name) : Name :=
  match am with
  | [] => k
  | (a, b) :: rest => if a == k then b else remapKw rest k

/-- `for key, value in kwargs.items(): kwargs[arg_mappings.get(key, key)] = value(..)` inserts a new
    key into the dict it iterates as soon as a passed keyword argument is renamed to a name that
    is not itself a passed keyword: Python raises RuntimeError (dictionary changed size during
    iteration) before the method is called.  (A rename onto another passed keyword is outside the
    model; the harness never generates it.) -/
def renamesKw (am : List (Name × Name)) (kws : List Name) : Bool :=
  kws.any fun k => !kws.contains (remapKw am k)

/-- `attribution(obj, attr)` after the type check -/
def attribution {E : Type} [EntryLike E] (s : Settings E) (n : Name) : Except Err Access :=
  match validateName .attributeError s n with
  | .error e => .error e
  | .ok () =>
    match remapName s n with
    | .name m => .ok (.getattr m)
    | .tuple _ _ => .error .typeError

/-- `op_dot(receiver, expr)` after the type check (`expr.name` is `n`, `kws` the names of the keyword
    arguments written in the call) -/
def opDot {E : Type} [EntryLike E] (s : Settings E) (n : Name) (kws : List Name := []) : Except Err Access :=
  match validateName .attributeError s n with
  | .error e => .error e
  | .ok () =>
    match remapName s n with
    | .name m => .ok (.callattr m [])
    | .tuple m (some am) => if renamesKw am kws then .ok (.attrThenRaise m) else .ok (.callattr m am)
    | .tuple _ none => .error .indexError

/-- `indexation(obj, key)` after the type check: no remapping on this path -/
def indexation {E : Type} [EntryLike E] (s : Settings E) (n : Name) : Except Err Access :=
  match validateName .keyError s n with
  | .error e => .error e
  | .ok () => .ok (.getitem n)

inductive Kind where
  | attr | method | index
deriving DecidableEq, Repr, Inhabited

def Kind.flags : Kind → Flags
  | .attr => { attrs := true }
  | .method => { methods := true }
  | .index => { index := true }

/-- one member access form applied to a host object, type check included -/
def access {E : Type} [EntryLike E] (k : Kind) (h : Host E) (n : Name) (kws : List Name := []) :
    Except Err Access :=
  match h with
  | none => .error .notYaqlized
  | some s =>
    if check k.flags (some s) then
      match k with
      | .attr => attribution s n
      | .method => opDot s n kws
      | .index => indexation s n
    else .error .notYaqlized

/-! ## auto-yaqlization of results -/

/-- a value returned by a host member -/
structure ResObj (E : Type) where
  builtin : Bool            -- type(value).__module__ == 'builtins'
  settable : Bool           -- setattr(value, '__yaqlization__', ..) succeeds
  settings : Host E         -- already yaqlized (itself or its class)?

/-- `_auto_yaqlize(value, settings)` -/
def autoYaqlize {E : Type} [EntryLike E] (s : Settings E) (r : ResObj E) : ResObj E :=
  if !s.autoYaqlizeResult then r
  else if r.builtin then r
  else match r.settings with
    | some _ => r
    | none => if r.settable then { r with settings := some autoSettings } else r

/-! ## registry abstraction (rows generated from the live registry) -/

/-- how the declared type of a parameter treats an arbitrary opaque host object -/
inductive TyClass where
  | yaqlized (attrs methods index : Bool)   -- Yaqlized(..): admits it iff `check`
  | open          -- the check admits it and the payload receives it as it is (untyped / object)
  | converted     -- the check admits it, the payload receives a yaql-made closure (Lambda)
  | closed        -- the check refuses it (String, Number, Iterable, ...)
  | hidden        -- never bound to an argument (Context, Engine, Delegate, ...)
deriving DecidableEq, Repr, Inhabited

inductive Use where
  | getattr | subscript | call | fmtarg | template | escape | strconv | reenter | probe
deriving DecidableEq, Repr, Inhabited

def Use.hostTouch : Use → Bool
  | .getattr | .subscript | .call | .fmtarg | .template | .escape => true
  | .strconv | .reenter | .probe => false

structure FactRow where
  fn : List Char := []          -- yaql name of the function
  payload : List Char := []     -- module.qualname of the Python code scanned
  param : List Char := []
  ty : TyClass := .closed
  admitsStr : Bool := false     -- does the declared type admit a str?
  uses : List Use := []
deriving DecidableEq, Repr, Inhabited

def FactRow.touches (r : FactRow) : Bool := r.uses.any Use.hostTouch

structure FnDef where
  name : List Char
  payload : List Char
  params : List FactRow        -- explicit and hidden parameters in positional order
deriving Repr, Inhabited

/-- an argument: a yaql-native value (of an abstract kind `V`), or an opaque host object -/
inductive Arg (E V : Type) where
  | native (v : V)
  | host (h : Host E)

def TyClass.isHidden : TyClass → Bool
  | .hidden => true
  | _ => false

/-- the parameter's type check applied to an argument; `fits` abstracts yaql's checks of native
    values (any function: the gate does not depend on it) -/
def admits {E V : Type} (fits : FactRow → V → Bool) (r : FactRow) : Arg E V → Bool
  | .native v =>
    match r.ty with
    | .hidden | .yaqlized .. => false
    | _ => fits r v
  | .host h =>
    match r.ty with
    | .yaqlized a m i => check { attrs := a, methods := m, index := i } h
    | .open | .converted => true
    | .closed | .hidden => false

def FnDef.explicit (f : FnDef) : List FactRow := f.params.filter (fun r => !r.ty.isHidden)

def bindAll {E V : Type} (fits : FactRow → V → Bool) : List FactRow → List (Arg E V) → Bool
  | [], [] => true
  | r :: rs, a :: as => admits fits r a && bindAll fits rs as
  | _, _ => false

/-- the overloads of `name` whose every explicit parameter admits its argument
    (`FunctionDefinition.map_args` succeeds) -/
def candidates {E V : Type} (fits : FactRow → V → Bool) (reg : List FnDef) (name : List Char)
    (args : List (Arg E V)) : List FnDef :=
  reg.filter (fun f => f.name == name && bindAll fits f.explicit args)

inductive ResolveErr where
  | noMatching | ambiguous
deriving DecidableEq, Repr

/-- `runner.choose_overload`, abstracted: whatever yaql chooses, it chooses among the candidates;
    the model picks the unique one -/
def resolve {E V : Type} (fits : FactRow → V → Bool) (reg : List FnDef) (name : List Char)
    (args : List (Arg E V)) : Except ResolveErr FnDef :=
  match candidates fits reg name args with
  | [] => .error .noMatching
  | [f] => .ok f
  | _ => .error .ambiguous

end Yaql.Yaqlized
