import Yaql.Model.Context
/-!
What an evaluation does to contexts (C09): `Statement.evaluate` / `Statement.__call__`
(`yaql/language/expressions.py:134-159`) over the context model of C17, with the evaluator's own work
abstracted to the sequence of context-API calls it makes.

Contexts an evaluation holds are numbered ("frames"): frame 0 is the context handed to the evaluator,
every `child` step (`create_child_context()`: `specs.py:308` makes one per function call, `let / with /
unpack / def / as` write into it) adds a frame.  A `Step` is one call of the context API on a frame.
The store is C17's: immutable shapes + mutable cells; creating a plain context allocates the next cell.

An exception raised by a step (`KeyError` of `del`, `TypeError` of `create_child_context` on a linked
context over a non-plain one) aborts the real evaluation; here such a step leaves the state as it is and
the run goes on - a superset of the real behaviours, and the frame theorems quantify over all step
sequences anyway.
-/
namespace Yaql.Effects
open Yaql.Context

inductive Step where
  | child (parent : Nat)                                          -- frames[parent].create_child_context()
  | set (frame : Nat) (name : Name) (v : Val)                     -- frames[frame][name] = v
  | del (frame : Nat) (name : Name)                               -- del frames[frame][name]
  | reg (frame : Nat) (fname : Name) (fid : Fid) (excl : Bool)    -- frames[frame].register_function(..)
  | delf (frame : Nat) (fname : Name) (fid : Fid)                 -- frames[frame].delete_function(..)
deriving Repr, Inhabited

structure St where
  cells : Cells
  frames : List Shape
deriving Repr, Inhabited

/-- the frame a step writes through (`none`: the step only allocates) -/
def Step.target : Step → Option Nat
  | .child _ => none
  | .set f _ _ => some f
  | .del f _ => some f
  | .reg f _ _ _ => some f
  | .delf f _ _ => some f

/-- the cells a step writes to in state `st` -/
def Step.writes (st : St) : Step → List Nat
  | .child _ => []
  | .set f _ _ => match st.frames[f]? with
      | some s => (writeCell s).toList
      | none => []
  | .reg f _ _ _ => match st.frames[f]? with
      | some s => (writeCell s).toList
      | none => []
  | .del f _ => match st.frames[f]? with
      | some s => delCells s
      | none => []
  | .delf f _ _ => match st.frames[f]? with
      | some s => delCells s
      | none => []

def run1 (st : St) : Step → St
  | .child p =>
      match st.frames[p]? with
      | none => st
      | some s =>
          match createChild st.cells.length s with
          | .ok c _ => { cells := st.cells ++ [{}], frames := st.frames ++ [c] }
          | .typeError => st
  | .set f n v =>
      match st.frames[f]? with
      | none => st
      | some s => { st with cells := setData st.cells s n v }
  | .del f n =>
      match st.frames[f]? with
      | none => st
      | some s =>
          match delData st.cells s n with
          | some cs => { st with cells := cs }
          | none => st
  | .reg f fn fid x =>
      match st.frames[f]? with
      | none => st
      | some s => { st with cells := register st.cells s fn fid x }
  | .delf f fn fid =>
      match st.frames[f]? with
      | none => st
      | some s => { st with cells := deleteFunction st.cells s fn fid }

def run (st : St) : List Step → St
  | [] => st
  | s :: r => run (run1 st s) r

/-- **the abstract predicate**: every write of the run goes to a cell allocated at or after `start` -
    "writes only to contexts created after evaluation started" -/
def FreshOnly (start : Nat) : St → List Step → Prop
  | _, [] => True
  | st, s :: r => (∀ c ∈ s.writes st, start ≤ c) ∧ FreshOnly start (run1 st s) r

/-- the evaluator's discipline, syntactically: no step writes through frame 0, the context it was handed
    (it may create children of it) -/
def NoHostWrite (steps : List Step) : Prop := ∀ s ∈ steps, s.target ≠ some 0

/-! ## `Statement` -/

def dollar : Name := ['$']
def finalizeName : Name := "#finalize".toList

/-- `Statement.__call__`: a context without `#finalize` is wrapped into a child that gets an identity
    finaliser; then the expression is evaluated (`body`) with that context as frame 0 -/
def statementCall (cs : Cells) (s : Shape) (finFid : Fid) (body : List Step) : Cells :=
  if (collectFunctions cs s finalizeName).isEmpty then
    match createChild cs.length s with
    | .ok c _ => (run ⟨register (cs ++ [{}]) c finalizeName finFid false, [c]⟩ body).cells
    | .typeError => cs
  else (run ⟨cs, [s]⟩ body).cells

/-- the value `Statement.evaluate` binds to `$`: `none` = `data` is `NO_VALUE` (nothing is bound);
    `convIn` = `utils.convert_input_data` on stored values, applied iff `yaql.convertInputData` -/
def dollarValue (convertInput : Bool) (convIn : Val → Val) (data : Option Val) : Option Val :=
  data.map fun d => if convertInput then convIn d else d

/-- `Statement.evaluate(data, context)` for a context supplied by the host: the store afterwards -/
def evaluate (cs : Cells) (s : Shape) (bound : Option Val) (finFid : Fid) (body : List Step) : Cells :=
  let cs1 := match bound with
    | none => cs
    | some v => setData cs s dollar v
  statementCall cs1 s finFid body

/-! ## cells reachable from a context -/

mutual
def cellsOf : Shape → List Nat
  | .plain c p => c :: cellsOfO p
  | .multi ms p => cellsOfL ms ++ cellsOfO p
  | .linked t p => cellsOf t ++ cellsOfO p
def cellsOfO : Option Shape → List Nat
  | none => []
  | some s => cellsOf s
def cellsOfL : List Shape → List Nat
  | [] => []
  | m :: ms => cellsOf m ++ cellsOfL ms
end

/-! ## statements as deterministic programs; pools -/

/-- a parsed statement, as far as contexts are concerned: what the evaluator does (its context-API
    calls) and returns when started on store `cs` with context `s` as frame 0 -/
structure Stmt (Res : Type) where
  prog : Cells → Shape → List Step × Res

/-- the evaluator's outcome depends only on the cells reachable from the context it is started on
    (a parsed statement holds no state of its own) -/
def Stmt.Local {Res : Type} (st : Stmt Res) : Prop :=
  ∀ (cs cs' : Cells) (s : Shape), (∀ c ∈ cellsOf s, cs.get c = cs'.get c) → st.prog cs s = st.prog cs' s

/-- the evaluator never writes through the context it is started on -/
def Stmt.Disciplined {Res : Type} (st : Stmt Res) : Prop :=
  ∀ (cs : Cells) (s : Shape), NoHostWrite (st.prog cs s).1

/-- one `statement.evaluate(data=d, context=s)` (the context has `#finalize`): new store and result -/
def evalStmt {Res : Type} (cs : Cells) (s : Shape) (st : Stmt Res) (v : Val) : Cells × Res :=
  let cs1 := setData cs s dollar v
  let p := st.prog cs1 s
  ((run ⟨cs1, [s]⟩ p.1).cells, p.2)

/-- a sequence of evaluations against one shared context -/
def runPool {Res : Type} (s : Shape) : Cells → List (Stmt Res × Val) → Cells × List Res
  | cs, [] => (cs, [])
  | cs, (st, v) :: r =>
      let a := evalStmt cs s st v
      let b := runPool s a.1 r
      (b.1, a.2 :: b.2)

/-! ## `YaqlInterface.__call__` as a host step (`yaql/yaql_interface.py:50-63`)

`yi = YaqlInterface(host_context, engine)` is built by the host around a context of its own; every
`yi(expression, *args, **kwargs)` (1) makes a private child of the wrapped context, (2) publishes the call's
parameters there - `$1`, `$2`, .. for the positional ones, `$name` for the keyword ones, in that order -,
(3) evaluates the parsed expression with that child as the supplied context and NO data (`evaluate(context=child)`),
(4) drops the child (it stays behind as a garbage cell of the store; nothing of the host refers to it). -/

/-- one interface call, as far as contexts are concerned -/
structure ICall where
  /-- `$1`, `$2`, .. and `$name` with the (converted) values, in publication order -/
  params : List (Name × Val)
  fin : Fid
  /-- the evaluator's context-API calls, frame 0 = the private child -/
  body : List Step
deriving Repr, Inhabited

/-- `for ..: context['$' + ..] = value` -/
def publish (cs : Cells) (ch : Shape) : List (Name × Val) → Cells
  | [] => cs
  | (n, v) :: r => publish (setData cs ch n v) ch r

/-- the private child of one call with its parameters published: new store and the child
    (`none`: `create_child_context` raises, nothing happened) -/
def interfaceFrame (cs : Cells) (s : Shape) (params : List (Name × Val)) : Option (Cells × Shape) :=
  match createChild cs.length s with
  | .typeError => none
  | .ok ch _ => some (publish (cs ++ [{}]) ch params, ch)

/-- `yi(expression, *args, **kwargs)` on the interface wrapping context `s`: the store afterwards -/
def interfaceCall (cs : Cells) (s : Shape) (c : ICall) : Cells :=
  match interfaceFrame cs s c.params with
  | none => cs
  | some (cs1, ch) => evaluate cs1 ch none c.fin c.body

/-- any number of calls through one interface -/
def interfaceCalls (cs : Cells) (s : Shape) : List ICall → Cells
  | [] => cs
  | c :: r => interfaceCalls (interfaceCall cs s c) s r

/-- what the call must NOT be: the parameters published into the wrapped context itself -/
def interfaceCallLeaky (cs : Cells) (s : Shape) (c : ICall) : Cells :=
  evaluate (publish cs s c.params) s none c.fin c.body

/-- the result side of a call: the statement runs on the private child -/
def interfaceEval {Res : Type} (cs : Cells) (s : Shape) (params : List (Name × Val)) (st : Stmt Res) :
    Option (Cells × Res) :=
  match interfaceFrame cs s params with
  | none => none
  | some (cs1, ch) =>
      let p := st.prog cs1 ch
      some ((run ⟨cs1, [ch]⟩ p.1).cells, p.2)

end Yaql.Effects
