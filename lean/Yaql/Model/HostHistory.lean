import Yaql.Model.Convert
/-!
A host that keeps ONE document object, changes it in place, and evaluates `$` on it again and again (C10, the
round-trip clause under reuse).  What the code does per host operation:

* `mutate d`        the host changes its document in place (`doc['a'].append(..)`, `doc[k] = ..`): the same Python
                    object, whose content is now `d`
* `replace d`       the host rebinds its variable to another object (an equal copy, or a different document)
* `evaluate ci o`   `statement.evaluate(data=doc, context=..)` with an engine whose `yaql.convertInputData` is `ci`
                    and whose output options are `o`, for the expression `$`: `Statement.evaluate` binds
                    `convert_input_data(doc)` (or `doc` itself when `ci` is off) and `#finalize` converts what `$`
                    returns (`expressions.py:151-159`, `__init__.py:68-73`).  Whether the `Statement` object is the one
                    used before, a freshly parsed one, one made by `engine.copy(..)` / per-call options makes no
                    difference here because neither `Statement` nor `YaqlEngine` has a field that an evaluation writes
                    - that absence is exactly what `Memo` below does NOT have
* `bind`            `ctx = yaql.create_context(data=doc)`: `_setup_context` stores `convert_input_data(doc)` (always -
                    no engine is involved) as `$` of the new context: the conversion happens AT BIND TIME
* `evalBound i o`   `engine_o('$').evaluate(context=ctx_i)` without data: `$` is what was stored at bind time

`Memo` is the contrasting (wrong) design in which the statement remembers `(document object, converted document)` of
its last evaluation and reuses the converted form when the same object comes again.
-/
namespace Yaql.HostHistory
open Yaql.Convert

inductive Op where
  | mutate (d : Py)
  | replace (d : Py)
  | evaluate (ci : Bool) (o : Opts)
  | bind
  | evalBound (i : Nat) (o : Opts)
deriving Repr, Inhabited

structure St where
  /-- current content of the host's document object -/
  doc : Py
  /-- identity of that object, and the next free identity -/
  docId : Nat := 0
  next : Nat := 1
  /-- `$` of the contexts bound so far (the frozen copies), oldest first -/
  bound : List Py := []
deriving Repr, Inhabited

/-- what an operation hands back to the host: `none` for `mutate / replace / bind` (and for an `evalBound` of a
    context that does not exist - the harness never issues one) -/
abbrev Out := Option (Except Err Py)

/-- `#finalize` with the default limiter -/
def finalize (o : Opts) (v : Py) : Except Err Py := convOut o none v

/-- the value `Statement.evaluate` binds to `$` -/
def bindValue (ci : Bool) (d : Py) : Py := if ci then convIn d else d

def step (st : St) : Op → St × Out
  | .mutate d => ({ st with doc := d }, none)
  | .replace d => ({ st with doc := d, docId := st.next, next := st.next + 1 }, none)
  | .evaluate ci o => (st, some (finalize o (bindValue ci st.doc)))
  | .bind => ({ st with bound := st.bound ++ [convIn st.doc] }, none)
  | .evalBound i o => (st, (st.bound[i]?).map (finalize o))

def run : St → List Op → List Out
  | _, [] => []
  | st, op :: r => (step st op).2 :: run (step st op).1 r

def stateAfter (st : St) : List Op → St
  | [] => st
  | op :: r => stateAfter (step st op).1 r

/-! ### the specification side: documents over time, no conversion state -/

/-- the document after the operations -/
def docAfter (d : Py) : List Op → Py
  | [] => d
  | .mutate d' :: r => docAfter d' r
  | .replace d' :: r => docAfter d' r
  | _ :: r => docAfter d r

/-- the document as it is at time `t` (before operation number `t`) -/
def docAt (d0 : Py) (ops : List Op) (t : Nat) : Py := docAfter d0 (ops.take t)

/-- the times at which contexts were bound, oldest first -/
def bindTimes : List Op → List Nat
  | [] => []
  | .bind :: r => 0 :: (bindTimes r).map (· + 1)
  | _ :: r => (bindTimes r).map (· + 1)

/-- the document at every bind, oldest first -/
def bindDocs (d : Py) : List Op → List Py
  | [] => []
  | .bind :: r => d :: bindDocs d r
  | .mutate d' :: r => bindDocs d' r
  | .replace d' :: r => bindDocs d' r
  | _ :: r => bindDocs d r

/-! ### the contrasting design: a statement that remembers its last input -/

structure Memo where
  st : St
  /-- `(id(document), converted document)` of the last evaluation of this statement -/
  last : Option (Nat × Py) := none
deriving Repr, Inhabited

def stepMemo (m : Memo) : Op → Memo × Out
  | .evaluate true o =>
      match m.last with
      | some (i, conv) =>
          if i == m.st.docId then (m, some (finalize o conv))
          else ({ m with last := some (m.st.docId, convIn m.st.doc) }, some (finalize o (convIn m.st.doc)))
      | none => ({ m with last := some (m.st.docId, convIn m.st.doc) }, some (finalize o (convIn m.st.doc)))
  | op => ({ m with st := (step m.st op).1 }, (step m.st op).2)

def runMemo : Memo → List Op → List Out
  | _, [] => []
  | m, op :: r => (stepMemo m op).2 :: runMemo (stepMemo m op).1 r

end Yaql.HostHistory
