import Yaql.Model.DateTime
/-!
Statement REUSE across operand kinds (property C20): one parsed statement `$a op $b` - or one lambda body
`$[0] op $[1]` inside `select` - is ONE expression node that is evaluated again and again, with operands of
whatever kind the host (or the collection) supplies: null, integers, strings, timespans, datetimes without
zone, datetimes with a zone.  What the node does each time:

* `runner.choose_overload` (runner.py:59-127) maps the arguments onto every overload registered for the
  operator, keeps those whose parameter types accept them and takes the most specific one.  The overloads of
  the C20 operators (common.py, math.py, strings.py, date_time.py):
  - `=`, `!=`: the untyped `common.eq / neq` (python `==` on the raw values; accepts everything) and the
    `date_time` overload with both parameters declared `yaqltypes.DateTime()` (more specific);
  - `<`, `<=`, `>`, `>=`: numbers, strings, two datetimes, two timespans, and the three null overloads
    (`x < null`, `null < x`, `null < null`);
  - `+`: numbers, strings, datetime + timespan, timespan + datetime, timespan + timespan;
  - `-`: numbers, datetime - timespan, datetime - datetime, timespan - timespan.
* the chosen overload converts its arguments (`DateTime.convert`: no zone -> UTC) and runs the payload.

`select`/`accepts`/`applyOv` are that resolution; `evalOp` is one evaluation, a function of the operator and
the two operands alone.  `Site` is the expression node: the code keeps NO state there (`CacheMode.off`).
`CacheMode.lastWinner` is the contrasting design: the node remembers the overload that won the last
resolution and calls it straight away whenever its parameter types still accept the arguments.
-/
namespace Yaql.DateTimeHist
open Yaql.DateTime

/-- what a reused statement may be handed for `$a`, `$b` -/
inductive Operand where
  | null
  | int (n : Int)
  | str (s : List Char)
  | ts (t : Int)
  | dt (d : DT)
deriving DecidableEq, Repr, Inhabited

inductive Op2 where
  | cmp (op : CmpOp)
  | plus
  | minus
deriving DecidableEq, Repr, Inhabited

inductive Op1 where
  | utc | offset | timestamp
deriving DecidableEq, Repr, Inhabited

inductive Val where
  | bool (b : Bool)
  | int (n : Int)
  | str (s : List Char)
  | ts (t : Int)
  | dt (d : DT)
  | fl (w : UInt64)          -- a float result, IEEE bits
deriving DecidableEq, Repr, Inhabited

inductive Fail where
  | py (e : Err)
  | noMatch                  -- NoMatchingFunctionException / NoMatchingMethodException
deriving DecidableEq, Repr, Inhabited

abbrev Res := Except Fail Val

instance : DecidableEq Res := fun x y =>
  match x, y with
  | .ok a, .ok b => if h : a = b then isTrue (by rw [h]) else isFalse (fun e => h (by cases e; rfl))
  | .error a, .error b => if h : a = b then isTrue (by rw [h]) else isFalse (fun e => h (by cases e; rfl))
  | .ok _, .error _ => isFalse (fun e => by cases e)
  | .error _, .ok _ => isFalse (fun e => by cases e)

def lift {α : Type} (f : α → Val) (x : Except Err α) : Res :=
  match x with
  | .ok a => .ok (f a)
  | .error e => .error (.py e)

/-- the overloads registered for the C20 operators -/
inductive Ov where
  | generic      -- common.eq / common.neq: untyped parameters
  | dtdt         -- date_time: two `yaqltypes.DateTime()` parameters
  | tsts         -- date_time: two timespans
  | nums         -- math: two numbers
  | strs         -- strings: two strings
  | dtts         -- date_time: datetime, timespan
  | tsdt         -- date_time: timespan, datetime
  | leftNull     -- common: `x < null`
  | nullRight    -- common: `null < x`
  | nullNull     -- common: `null < null`
deriving DecidableEq, Repr, Inhabited

/-- how the datetime parameters of the typed overloads are declared (`none`: the overload is not registered);
    filled from the generated table `Gen/DateTimeDefs` by the driver -/
structure Cfg where
  cmpCls : CmpOp → Option (PClass × PClass)
  minusDtDt : Option (PClass × PClass)
  plusDtTs : Option PClass
  plusTsDt : Option PClass
  minusDtTs : Option PClass
  utc : Option PClass
  offset : Option PClass
  timestamp : Option PClass

/-- the code: every datetime parameter is `yaqltypes.DateTime()` (proved of the live table by `C20Gen`) -/
def declared : Cfg :=
  { cmpCls := fun _ => some (.conv, .conv), minusDtDt := some (.conv, .conv), plusDtTs := some .conv,
    plusTsDt := some .conv, minusDtTs := some .conv, utc := some .conv, offset := some .conv,
    timestamp := some .conv }

def CmpOp.isEquality : CmpOp → Bool
  | .eq | .ne => true
  | _ => false

def Operand.isNull : Operand → Bool
  | .null => true
  | _ => false

/-- the overload is registered under the operator and its parameter types accept the operands
    (`FunctionDefinition.map_args` + `get_delegate`) -/
def accepts (cfg : Cfg) : Ov → Op2 → Operand → Operand → Bool
  | .generic, .cmp op, _, _ => CmpOp.isEquality op
  | .dtdt, .cmp op, .dt _, .dt _ => (cfg.cmpCls op).isSome
  | .dtdt, .minus, .dt _, .dt _ => cfg.minusDtDt.isSome
  | .tsts, .cmp op, .ts _, .ts _ => !CmpOp.isEquality op
  | .tsts, .plus, .ts _, .ts _ => true
  | .tsts, .minus, .ts _, .ts _ => true
  | .nums, .cmp op, .int _, .int _ => !CmpOp.isEquality op
  | .nums, .plus, .int _, .int _ => true
  | .nums, .minus, .int _, .int _ => true
  | .strs, .cmp op, .str _, .str _ => !CmpOp.isEquality op
  | .strs, .plus, .str _, .str _ => true
  | .dtts, .plus, .dt _, .ts _ => cfg.plusDtTs.isSome
  | .dtts, .minus, .dt _, .ts _ => cfg.minusDtTs.isSome
  | .tsdt, .plus, .ts _, .dt _ => cfg.plusTsDt.isSome
  | .leftNull, .cmp op, a, .null => !CmpOp.isEquality op && !a.isNull
  | .nullRight, .cmp op, .null, b => !CmpOp.isEquality op && !b.isNull
  | .nullNull, .cmp op, .null, .null => !CmpOp.isEquality op
  | _, _, _, _ => false

/-- the typed overloads, in no particular order (at most one of them accepts given operands) -/
def typedOvs : List Ov := [.dtdt, .tsts, .nums, .strs, .dtts, .tsdt, .leftNull, .nullRight, .nullNull]

/-- `choose_overload`: the most specific overload that accepts the operands - a typed one if there is one,
    else the untyped one -/
def select (cfg : Cfg) (op : Op2) (a b : Operand) : Option Ov :=
  match typedOvs.find? (fun ov => accepts cfg ov op a b) with
  | some ov => some ov
  | none => if accepts cfg .generic op a b then some .generic else none

/-- code-point order of two strings (python `str.__lt__`) -/
def strLt : List Char → List Char → Bool
  | [], [] => false
  | [], _ :: _ => true
  | _ :: _, [] => false
  | x :: xs, y :: ys => if x.toNat < y.toNat then true else if y.toNat < x.toNat then false else strLt xs ys

def strCmp (op : CmpOp) (a b : List Char) : Bool :=
  match op with
  | .eq => decide (a = b)
  | .ne => decide (a ≠ b)
  | .lt => strLt a b
  | .le => !strLt b a
  | .gt => strLt b a
  | .ge => !strLt a b

/-- python `==` on the raw values (what the untyped overload computes): values of different kinds are unequal,
    two datetimes go through `datetime.__eq__` AS THEY ARE (a value without zone never equals one with a zone) -/
def pyEq : Operand → Operand → Except Err Bool
  | .null, .null => .ok true
  | .int x, .int y => .ok (decide (x = y))
  | .str x, .str y => .ok (decide (x = y))
  | .ts x, .ts y => .ok (decide (x = y))
  | .dt x, .dt y => pyCmp .eq x y
  | _, _ => .ok false

/-- the three null overloads of an ordering: null sorts before everything -/
def nullOrder (op : CmpOp) (leftNull rightNull : Bool) : Bool :=
  match op, leftNull, rightNull with
  | .lt, true, false => true
  | .le, true, _ => true
  | .gt, false, true => true
  | .ge, _, true => true
  | _, _, _ => false

/-- convert the arguments as declared and run the payload of the overload -/
def applyOv (cfg : Cfg) : Ov → Op2 → Operand → Operand → Res
  | .generic, .cmp .eq, a, b => lift .bool (pyEq a b)
  | .generic, .cmp .ne, a, b => lift (fun r => .bool (!r)) (pyEq a b)
  | .dtdt, .cmp op, .dt x, .dt y =>
      (match cfg.cmpCls op with
       | some (c1, c2) => lift .bool (dtCmp op c1 c2 x y)
       | none => .error .noMatch)
  | .dtdt, .minus, .dt x, .dt y =>
      (match cfg.minusDtDt with
       | some (c1, c2) => lift .ts (dtMinusDt c1 c2 x y)
       | none => .error .noMatch)
  | .tsts, .cmp op, .ts x, .ts y => .ok (.bool (tsCmp op x y))
  | .tsts, .plus, .ts x, .ts y => lift .ts (tsAdd x y)
  | .tsts, .minus, .ts x, .ts y => lift .ts (tsSub x y)
  | .nums, .cmp op, .int x, .int y => .ok (.bool (cmpInt op x y))
  | .nums, .plus, .int x, .int y => .ok (.int (x + y))
  | .nums, .minus, .int x, .int y => .ok (.int (x - y))
  | .strs, .cmp op, .str x, .str y => .ok (.bool (strCmp op x y))
  | .strs, .plus, .str x, .str y => .ok (.str (x ++ y))
  | .dtts, .plus, .dt x, .ts t =>
      (match cfg.plusDtTs with | some c => lift .dt (dtPlusTs c x t) | none => .error .noMatch)
  | .dtts, .minus, .dt x, .ts t =>
      (match cfg.minusDtTs with | some c => lift .dt (dtMinusTs c x t) | none => .error .noMatch)
  | .tsdt, .plus, .ts t, .dt x =>
      (match cfg.plusTsDt with | some c => lift .dt (tsPlusDt c t x) | none => .error .noMatch)
  | .leftNull, .cmp op, _, _ => .ok (.bool (nullOrder op false true))
  | .nullRight, .cmp op, _, _ => .ok (.bool (nullOrder op true false))
  | .nullNull, .cmp op, _, _ => .ok (.bool (nullOrder op true true))
  | _, _, _, _ => .error .noMatch

/-- ONE evaluation of `a op b`: a function of the operator and the operands alone -/
def evalOp (cfg : Cfg) (op : Op2) (a b : Operand) : Res :=
  match select cfg op a b with
  | some ov => applyOv cfg ov op a b
  | none => .error .noMatch

/-- ONE evaluation of `a.utc` / `a.offset` / `a.timestamp` (each has a single overload) -/
def evalOp1 (cfg : Cfg) (host : Int) (op : Op1) : Operand → Res
  | .dt d =>
      (match op with
       | .utc => (match cfg.utc with | some c => lift .dt (dtUtc c host d) | none => .error .noMatch)
       | .offset => (match cfg.offset with | some c => lift .ts (dtOffset c d) | none => .error .noMatch)
       | .timestamp =>
           (match cfg.timestamp with | some c => lift .fl (dtTimestampF c host d) | none => .error .noMatch))
  | _ => .error .noMatch

/-! ## the expression node over a history of evaluations -/

inductive CacheMode where
  | off            -- the code: an evaluation leaves nothing on the expression node
  | lastWinner     -- the node remembers the overload that won the last resolution
deriving DecidableEq, Repr, Inhabited

/-- the per-node state (`expressions.Function` has none in the code) -/
structure Site where
  last : Option Ov := none
deriving DecidableEq, Repr, Inhabited

def evalSite (cfg : Cfg) (mode : CacheMode) (site : Site) (op : Op2) (a b : Operand) : Site × Res :=
  match mode with
  | .off => (site, evalOp cfg op a b)
  | .lastWinner =>
      let full : Site × Res :=
        match select cfg op a b with
        | some ov => ({ last := some ov }, applyOv cfg ov op a b)
        | none => (site, .error .noMatch)
      match site.last with
      | some ov => if accepts cfg ov op a b then (site, applyOv cfg ov op a b) else full
      | none => full

/-- the same node evaluated on one operand pair after the other (a kept `Statement`, or a lambda body run
    over the rows of a collection) -/
def runHistory (cfg : Cfg) (mode : CacheMode) (op : Op2) : Site → List (Operand × Operand) → List Res
  | _, [] => []
  | site, (a, b) :: rest =>
      (evalSite cfg mode site op a b).2 :: runHistory cfg mode op (evalSite cfg mode site op a b).1 rest

def runHistory1 (cfg : Cfg) (host : Int) (op : Op1) (h : List Operand) : List Res := h.map (evalOp1 cfg host op)

end Yaql.DateTimeHist
