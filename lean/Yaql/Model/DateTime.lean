import Yaql.Model.FloatRound
/-!
Model of `yaql/standard_library/date_time.py` (C20) on top of a small model of the part of
CPython's `datetime` module the library uses.

* a datetime is `(wall, off)`: `wall` = microseconds of the wall clock since 0001-01-01T00:00
  (proleptic Gregorian, what the fields spell), `off` = the UTC offset of its `tzinfo` in
  **microseconds** (`none` = no tzinfo: a "naive" host value).  `instant d = wall - off`.
  (DESIGN.md has the offset in seconds; the code keeps sub-second offsets -
  `tz.tzoffset(None, seconds(offset))` - so the model does too.)
* a timespan is its total number of microseconds (`datetime.timedelta` is exactly that, normalised).
* only fixed-offset `tzinfo` objects are modelled (`dateutil.tz.tzutc`, `tz.tzoffset`,
  `datetime.timezone`): this is everything the library itself creates.
* float-valued results (`.timestamp`, the unit properties, `ts / ts`) exist twice: as the exact
  rational `num / den` of the quantity (`tsHours`, `dtTimestamp`, `tsDivTs`: what the property's laws are
  stated on), and as the double the code really returns, bit for bit (`tsHoursF`, `dtTimestampF`,
  `tsDivTsF`): every float step the code performs is modelled by `Yaql.FloatRound` - `float(int)` and
  `int / int` are one correctly rounded conversion (`roundRat`), `float / float` is one IEEE division
  (`divBits`).  Where the code performs two roundings in a row (`microseconds / 3600000000.0` is
  `float(microseconds)`, then a division) the model performs the same two.  Numbers that arrive as floats
  are the exact rational value of the float.
* the calendar (`_ymd2ord` / `_ord2ymd` of CPython's `_pydatetime`) is transcribed, so constructors,
  field properties and `replace` are modelled with their errors (`Props/C20Cal.lean` proves the two
  conversions mutually inverse).
* format / parse (`format`, `datetime(string)`), `now`, `localtz` are not modelled.
-/
namespace Yaql.DateTime

/-! ## errors, values -/

/-- the exception classes the modelled code can raise -/
inductive Err where
  | overflowError      -- result outside year 1..9999 / timedelta outside +-999999999 days / C int overflow
  | valueError         -- invalid field value, timestamp outside year 1..9999, |utcoffset| >= 24h
  | typeError          -- naive and aware datetimes mixed in `-` or an ordering
  | zeroDivisionError
  | osError            -- timestamp beyond the platform's gmtime
deriving DecidableEq, Repr, Inhabited

structure DT where
  wall : Int
  off : Option Int
deriving DecidableEq, Repr, Inhabited

/-- exact value of a yaql number: an int, or the exact rational `n / d` (`d > 0`) of a float -/
inductive Num where
  | int (n : Int)
  | flt (n : Int) (d : Int)
deriving DecidableEq, Repr, Inhabited

/-- the instant a datetime denotes (microseconds since 0001-01-01T00:00 UTC); no zone = UTC -/
def instant (d : DT) : Int := d.wall - d.off.getD 0

/-! ## constants -/

def usPerSec : Int := 1000000
def usPerMin : Int := 60000000
def usPerHour : Int := 3600000000
def usPerDay : Int := 86400000000
/-- ordinal of 9999-12-31 -/
def maxOrdinal : Int := 3652059
/-- exclusive upper bound of `local`: first microsecond of year 10000 -/
def maxLocal : Int := 315537897600000000
/-- `local` of 1970-01-01T00:00 (ordinal 719163) -/
def epochLocal : Int := 62135596800000000
def epoch : DT := ⟨epochLocal, some 0⟩

def inRange (l : Int) : Bool := decide (0 ≤ l) && decide (l < maxLocal)

/-- a datetime object that can exist: wall clock within 0001-01-01T00:00 .. 9999-12-31T23:59:59.999999 -/
def DT.wf (d : DT) : Prop := 0 ≤ d.wall ∧ d.wall < maxLocal

/-- `timedelta.min <= t <= timedelta.max` (-999999999 days .. 999999999 days 23:59:59.999999) -/
def tsInRange (t : Int) : Bool :=
  decide (-999999999 * usPerDay ≤ t) && decide (t < 1000000000 * usPerDay)

/-- normalising constructor of `timedelta`: OverflowError outside the range -/
def mkTs (t : Int) : Except Err Int :=
  if tsInRange t then .ok t else .error .overflowError

/-- a new datetime from a computed wall clock: `OverflowError: date value out of range` -/
def mkLocal (l : Int) (off : Option Int) : Except Err DT :=
  if inRange l then .ok ⟨l, off⟩ else .error .overflowError

/-! ## the proleptic Gregorian calendar (CPython `_pydatetime`) -/

def isLeap (y : Int) : Bool := decide (y % 4 = 0) && (decide (y % 100 ≠ 0) || decide (y % 400 = 0))

/-- `_days_before_year` -/
def daysBeforeYear (y : Int) : Int :=
  (y - 1) * 365 + (y - 1) / 4 - (y - 1) / 100 + (y - 1) / 400

/-- `_DAYS_IN_MONTH[m]` (February of a common year) -/
def daysInMonthCommon (m : Int) : Int :=
  if m = 2 then 28 else if m = 4 ∨ m = 6 ∨ m = 9 ∨ m = 11 then 30 else 31

/-- `_days_in_month` -/
def daysInMonth (y m : Int) : Int :=
  if m = 2 ∧ isLeap y = true then 29 else daysInMonthCommon m

/-- `_DAYS_BEFORE_MONTH[m]` -/
def daysBeforeMonthCommon (m : Int) : Int :=
  if m ≤ 1 then 0 else if m = 2 then 31 else if m = 3 then 59 else if m = 4 then 90
  else if m = 5 then 120 else if m = 6 then 151 else if m = 7 then 181 else if m = 8 then 212
  else if m = 9 then 243 else if m = 10 then 273 else if m = 11 then 304 else 334

/-- `_days_before_month` -/
def daysBeforeMonth (leap : Bool) (m : Int) : Int :=
  daysBeforeMonthCommon m + (if m > 2 ∧ leap = true then 1 else 0)

/-- `_ymd2ord`: 0001-01-01 is day 1 -/
def ymd2ord (y m d : Int) : Int := daysBeforeYear y + daysBeforeMonth (isLeap y) m + d

/-- the tail of `_ord2ymd`: month and day from the day-of-year offset `n` (0-based), estimating the
    month as `(n + 50) >> 5` and correcting it downwards when that overshoots -/
def monthDay (year : Int) (leap : Bool) (n : Int) : Int × Int × Int :=
  let month := (n + 50) / 32
  let preceding := daysBeforeMonth leap month
  if preceding > n then
    let month' := month - 1
    let preceding' := preceding - (daysInMonthCommon month' + (if month' = 2 ∧ leap = true then 1 else 0))
    (year, month', n - preceding' + 1)
  else (year, month, n - preceding + 1)

/-- `_ord2ymd` -/
def ord2ymd (ord : Int) : Int × Int × Int :=
  let n := ord - 1
  let n400 := n / 146097
  let n := n % 146097
  let n100 := n / 36524
  let n := n % 36524
  let n4 := n / 1461
  let n := n % 1461
  let n1 := n / 365
  let n := n % 365
  let year := n400 * 400 + 1 + n100 * 100 + n4 * 4 + n1
  if n1 = 4 ∨ n100 = 4 then (year - 1, 12, 31) else
  let leap : Bool := decide (n1 = 3) && (decide (n4 ≠ 24) || decide (n100 = 3))
  monthDay year leap n

structure Fields where
  year : Int
  month : Int
  day : Int
  hour : Int
  minute : Int
  second : Int
  micro : Int
deriving DecidableEq, Repr, Inhabited

/-- the fields a wall clock spells -/
def fieldsOf (l : Int) : Fields :=
  let (y, m, d) := ord2ymd (l / usPerDay + 1)
  let t := l % usPerDay
  { year := y, month := m, day := d, hour := t / usPerHour, minute := t % usPerHour / usPerMin,
    second := t % usPerMin / usPerSec, micro := t % usPerSec }

def localOf (f : Fields) : Int :=
  (ymd2ord f.year f.month f.day - 1) * usPerDay + f.hour * usPerHour + f.minute * usPerMin +
    f.second * usPerSec + f.micro

/-- every argument fits a C `int` (else `OverflowError: Python int too large to convert to C int` /
    `signed integer is greater than maximum`) -/
def cInt (x : Int) : Bool := decide (-2147483648 ≤ x) && decide (x < 2147483648)

def Fields.cInts (f : Fields) : Bool :=
  cInt f.year && cInt f.month && cInt f.day && cInt f.hour && cInt f.minute && cInt f.second && cInt f.micro

/-- `check_date_args` and `check_time_args` -/
def Fields.valid (f : Fields) : Bool :=
  decide (1 ≤ f.year) && decide (f.year ≤ 9999) && decide (1 ≤ f.month) && decide (f.month ≤ 12) &&
  decide (1 ≤ f.day) && decide (f.day ≤ daysInMonth f.year f.month) &&
  decide (0 ≤ f.hour) && decide (f.hour < 24) && decide (0 ≤ f.minute) && decide (f.minute < 60) &&
  decide (0 ≤ f.second) && decide (f.second < 60) && decide (0 ≤ f.micro) && decide (f.micro < 1000000)

/-- `datetime.datetime(year, month, day, hour, minute, second, microsecond, tzinfo)`; the tzinfo is
    stored unchecked -/
def pyDatetime (f : Fields) (off : Option Int) : Except Err DT :=
  if !f.cInts then .error .overflowError
  else if !f.valid then .error .valueError
  else .ok ⟨localOf f, off⟩

/-- `d.weekday()`: Monday = 0; 0001-01-01 is a Monday -/
def pyWeekday (d : DT) : Int := (d.wall / usPerDay) % 7

/-! ## CPython datetime arithmetic (fixed-offset tzinfo) -/

def validOff (o : Int) : Bool := decide (-usPerDay < o) && decide (o < usPerDay)

/-- `d.utcoffset()`: `None` without tzinfo; CPython refuses offsets outside (-24h, 24h) with ValueError -/
def pyUtcoffset (d : DT) : Except Err (Option Int) :=
  match d.off with
  | none => .ok none
  | some o => if validOff o then .ok (some o) else .error .valueError

/-- `d + t` / `d - t` (`add_datetime_timedelta`): the wall clock moves, the tzinfo stays -/
def pyAddTd (d : DT) (t : Int) : Except Err DT := mkLocal (d.wall + t) d.off

/-- `a - b` on datetimes.  Same tzinfo object (here: same offset; `dateutil` interns its zones) or
    both naive: difference of the wall clocks.  Both aware: difference of the instants.
    Mixed: `TypeError: can't subtract offset-naive and offset-aware datetimes`. -/
def pySubDt (a b : DT) : Except Err Int :=
  match a.off, b.off with
  | none, none => .ok (a.wall - b.wall)
  | some oa, some ob =>
      if oa = ob then .ok (a.wall - b.wall)
      else if validOff oa && validOff ob then .ok ((a.wall - oa) - (b.wall - ob))
      else .error .valueError
  | some oa, none => if validOff oa then .error .typeError else .error .valueError
  | none, some ob => if validOff ob then .error .typeError else .error .valueError

inductive CmpOp where
  | eq | ne | lt | le | gt | ge
deriving DecidableEq, Repr, Inhabited

def cmpInt : CmpOp → Int → Int → Bool
  | .eq, x, y => decide (x = y)
  | .ne, x, y => decide (x ≠ y)
  | .lt, x, y => decide (x < y)
  | .le, x, y => decide (x ≤ y)
  | .gt, x, y => decide (x > y)
  | .ge, x, y => decide (x ≥ y)

/-- `datetime_richcompare`: same tzinfo / equal offsets / both naive compare wall clocks, two aware
    values compare instants, naive against aware is unequal for `==`/`!=` and a TypeError for orderings -/
def pyCmp (op : CmpOp) (a b : DT) : Except Err Bool :=
  match a.off, b.off with
  | none, none => .ok (cmpInt op a.wall b.wall)
  | some oa, some ob =>
      if oa = ob then .ok (cmpInt op a.wall b.wall)
      else if validOff oa && validOff ob then .ok (cmpInt op (a.wall - oa) (b.wall - ob))
      else .error .valueError
  | some oa, none =>
      if !validOff oa then .error .valueError else
      match op with | .eq => .ok false | .ne => .ok true | _ => .error .typeError
  | none, some ob =>
      if !validOff ob then .error .valueError else
      match op with | .eq => .ok false | .ne => .ok true | _ => .error .typeError

/-- `d.astimezone(UTC)`: an aware value moves to the same instant at offset zero
    (`OverflowError` when that wall clock is outside year 1..9999); a naive value is read as the
    **host's local time** (`hostOff`: the offset of the host zone, a fixed-offset zone assumed) -/
def pyAstimezoneUtc (hostOff : Int) (d : DT) : Except Err DT :=
  match d.off with
  | none => mkLocal (d.wall - hostOff) (some 0)
  | some o => if validOff o then mkLocal (d.wall - o) (some 0) else .error .valueError

/-- `d.replace(**kw)`: given fields replace the current ones, `tz = some z` replaces the tzinfo -/
def pyReplace (d : DT) (year month day hour minute second micro : Option Int) (tz : Option (Option Int)) :
    Except Err DT :=
  let f := fieldsOf d.wall
  pyDatetime
    { year := year.getD f.year, month := month.getD f.month, day := day.getD f.day,
      hour := hour.getD f.hour, minute := minute.getD f.minute, second := second.getD f.second,
      micro := micro.getD f.micro }
    (match tz with | some z => z | none => d.off)

/-! ## yaql: parameter conversion -/

/-- how a datetime parameter is declared: `yaqltypes.DateTime()` converts a naive value to UTC
    (`value.replace(tzinfo=utctz)`), the bare python type passes it through -/
inductive PClass where
  | conv | bare
deriving DecidableEq, Repr, Inhabited

/-- `yaqltypes.DateTime.convert` (or no conversion) -/
def convert (c : PClass) (d : DT) : DT :=
  match c with
  | .conv => (match d.off with | none => { d with off := some 0 } | some _ => d)
  | .bare => d

/-- the value a naive datetime stands for under the property: the same wall clock at UTC -/
def asUtc (d : DT) : DT := convert .conv d

/-! ## yaql: constructors -/

/-- `_get_tz`: `None -> None`, zero -> the UTC singleton, else `tz.tzoffset(None, seconds(offset))` -/
def getTz (offset : Option Int) : Option Int :=
  match offset with
  | none => none
  | some o => if o = 0 then some 0 else some o

/-- `datetime(year, month, day, hour, minute, second, microsecond, offset)` -/
def buildDatetime (f : Fields) (offset : Int) : Except Err DT :=
  pyDatetime f (getTz (some offset))

/-- round-half-even of the rational `n / d`, `d > 0` -/
def roundHalfEven (n d : Int) : Int :=
  let q := n / d
  let r := n % d
  if 2 * r < d then q else if 2 * r > d then q + 1 else if q % 2 = 0 then q else q + 1

/-- microseconds of a number of seconds as `datetime.fromtimestamp` rounds it (ROUND_HALF_EVEN) -/
def secondsToUs : Num → Int
  | .int n => n * usPerSec
  | .flt n d => roundHalfEven (n * usPerSec) d

/-- `time_t` range of the platform (64 bit) in microseconds -/
def timeTOk (us : Int) : Bool :=
  decide (-9223372036854775808 * usPerSec ≤ us) && decide (us < 9223372036854775808 * usPerSec)

/-- glibc `gmtime_r` range (`tm_year` is a C int) in microseconds -/
def gmtimeOk (us : Int) : Bool :=
  decide (-67768040609740800 * usPerSec ≤ us) && decide (us < 67768036191676800 * usPerSec)

/-- `datetime(timestamp, offset)`: `datetime.fromtimestamp(timestamp, tz=_get_tz(offset))` -
    the UTC wall clock of the instant (`ValueError: year ... is out of range`), then
    `tz.fromutc`, which adds the offset (`OverflowError: date value out of range`) -/
def datetimeFromTimestamp (ts : Num) (offset : Int) : Except Err DT :=
  let us := secondsToUs ts
  if !timeTOk us then .error .overflowError
  else if !gmtimeOk us then .error .osError
  else
    let u := epochLocal + us
    if !inRange u then .error .valueError
    else
      match getTz (some offset) with
      | none => .error .valueError   -- unreachable: the offset parameter is not nullable
      | some o => mkLocal (u + o) (some o)

/-- `timespan(days, hours, minutes, seconds, milliseconds, microseconds)` -/
def buildTimespan (days hours minutes seconds millis micros : Int) : Except Err Int :=
  mkTs (days * usPerDay + hours * usPerHour + minutes * usPerMin + seconds * usPerSec + millis * 1000 + micros)

/-! ## yaql: timespan properties and operators -/

/-- `.microseconds`: `86400000000 * days + 1000000 * seconds + microseconds` of the normalised timedelta -/
def tsMicroseconds (t : Int) : Int :=
  86400000000 * (t / usPerDay) + 1000000 * (t % usPerDay / usPerSec) + t % usPerSec

/-- the float-valued unit properties: `microseconds(t) / unit` as the exact rational `(num, den)` -/
def tsMilliseconds (t : Int) : Int × Int := (tsMicroseconds t, 1000)
def tsSeconds (t : Int) : Int × Int := (tsMicroseconds t, 1000000)
def tsMinutes (t : Int) : Int × Int := (tsMicroseconds t, 60000000)
def tsHours (t : Int) : Int × Int := (tsMicroseconds t, 3600000000)
def tsDays (t : Int) : Int × Int := (tsMicroseconds t, 86400000000)

def tsAdd (a b : Int) : Except Err Int := mkTs (a + b)
def tsSub (a b : Int) : Except Err Int := mkTs (a - b)
def tsNeg (a : Int) : Except Err Int := mkTs (-a)
def tsPos (a : Int) : Except Err Int := .ok a
def tsCmp (op : CmpOp) (a b : Int) : Bool := cmpInt op a b

/-- `timedelta(microseconds=x)` for a number `x`: ints exactly, floats rounded half-even -/
def tsOfMicros : Num → Except Err Int
  | .int n => mkTs n
  | .flt n d => mkTs (roundHalfEven n d)

/-- `ts * n`, `n * ts`: `timedelta(microseconds=microseconds(ts) * n)`; for a float `n` the product is
    the platform's float product (taken as exact here - the harness only feeds exact products) -/
def tsMulNum (t : Int) : Num → Except Err Int
  | .int n => tsOfMicros (.int (tsMicroseconds t * n))
  | .flt n d => tsOfMicros (.flt (tsMicroseconds t * n) d)

/-- `ts / n`: `timedelta(microseconds=microseconds(ts) / n)` - a true division, so always the float path -/
def tsDivNum (t : Int) : Num → Except Err Int
  | .int n =>
      if n = 0 then .error .zeroDivisionError
      else if n > 0 then tsOfMicros (.flt (tsMicroseconds t) n) else tsOfMicros (.flt (-tsMicroseconds t) (-n))
  | .flt n d =>
      if n = 0 then .error .zeroDivisionError
      else if n > 0 then tsOfMicros (.flt (tsMicroseconds t * d) n) else tsOfMicros (.flt (-(tsMicroseconds t * d)) (-n))

/-- `ts1 / ts2`: `(0.0 + microseconds(ts1)) / microseconds(ts2)` as an exact rational -/
def tsDivTs (a b : Int) : Except Err (Int × Int) :=
  if tsMicroseconds b = 0 then .error .zeroDivisionError else .ok (tsMicroseconds a, tsMicroseconds b)

/-! ## the float-valued results as the doubles the code returns (IEEE bits) -/

/-- Python `float(i)` (`PyLong_AsDouble`): the nearest double, ties to even; OverflowError beyond the range -/
def pyFloat (i : Int) : Except Err UInt64 :=
  match FloatRound.floatOfInt i with
  | some w => .ok w
  | none => .error .overflowError

/-- Python `a / b` on two ints (`long_true_divide`): the exact quotient rounded ONCE; a zero quotient takes the
    sign of the operands (`0 / -5` is `-0.0`) -/
def pyTrueDiv (a b : Int) : Except Err UInt64 :=
  if b = 0 then .error .zeroDivisionError
  else if a = 0 then .ok (if b < 0 then 0x8000000000000000 else 0)
  else
    match FloatRound.roundRat (if b < 0 then -a else a) b.natAbs with
    | .ok w => .ok w
    | _ => .error .overflowError

/-- Python `x / y` on two floats (`float_div`) -/
def pyFloatDiv (x y : UInt64) : Except Err UInt64 :=
  if y.toNat % 2 ^ 63 = 0 then .error .zeroDivisionError else .ok (FloatRound.divBits x y)

/-- `microseconds(timespan) / <unit>.0`: an int divided by a float constant - Python converts the int first
    (`float(int)`: the first rounding, exact up to 2^53 microseconds = 285 years), then divides (the second) -/
def tsUnitF (t : Int) (unit : Int) : Except Err UInt64 := do
  let f ← pyFloat (tsMicroseconds t)
  let u ← pyFloat unit
  pyFloatDiv f u

def tsMillisecondsF (t : Int) : Except Err UInt64 := tsUnitF t 1000
def tsSecondsF (t : Int) : Except Err UInt64 := tsUnitF t 1000000
def tsMinutesF (t : Int) : Except Err UInt64 := tsUnitF t 60000000
def tsHoursF (t : Int) : Except Err UInt64 := tsUnitF t 3600000000
def tsDaysF (t : Int) : Except Err UInt64 := tsUnitF t 86400000000

/-- `ts1 / ts2`: `(0.0 + microseconds(ts1)) / microseconds(ts2)` - `0.0 + int` is `float(int)` (adding `0.0` is exact),
    `float / int` converts the divisor, then one IEEE division: three roundings, two of them exact below 2^53 -/
def tsDivTsF (a b : Int) : Except Err UInt64 := do
  let f ← pyFloat (tsMicroseconds a)
  let g ← pyFloat (tsMicroseconds b)
  pyFloatDiv f g

/-- the double a float operand is (`Num.flt n d` is its exact rational value, `d > 0`; the conversion is exact) -/
def bitsOfNum : Num → Except Err UInt64
  | .int n => pyFloat n
  | .flt n d =>
      match FloatRound.roundRat n d.toNat with
      | .ok w => .ok w
      | _ => .error .overflowError

/-- `timedelta(microseconds=x)` for a float `x` (`delta_new` / `accum`): the exact value of the double rounded half-even to a
    whole number of microseconds; OverflowError for an infinity ("cannot convert float infinity to integer") and outside the
    timedelta range, ValueError for a NaN -/
def tsOfFloat (w : UInt64) : Except Err Int :=
  match FloatRound.decode w with
  | .fin z => mkTs (roundHalfEven z (FloatRound.scale : Nat))
  | .nan => .error .valueError
  | _ => .error .overflowError

/-- `ts * n`, `n * ts` with every float step: an int factor multiplies exactly; a float factor makes
    `float(microseconds) * n` - `float(int)`, then ONE IEEE multiplication -, then `timedelta(microseconds=<float>)` -/
def tsMulNumF (t : Int) : Num → Except Err Int
  | .int n => tsOfMicros (.int (tsMicroseconds t * n))
  | .flt n d => do
      let f ← pyFloat (tsMicroseconds t)
      let g ← bitsOfNum (.flt n d)
      tsOfFloat (FloatRound.mulBits f g)

/-- `ts / n` with every float step: `microseconds / n` is a true division - `int / int` rounds the exact quotient once,
    `int / float` is `float(int)` then one IEEE division -, then `timedelta(microseconds=<float>)` -/
def tsDivNumF (t : Int) : Num → Except Err Int
  | .int n => do
      let w ← pyTrueDiv (tsMicroseconds t) n
      tsOfFloat w
  | .flt n d => do
      let f ← pyFloat (tsMicroseconds t)
      let g ← bitsOfNum (.flt n d)
      let w ← pyFloatDiv f g
      tsOfFloat w

/-! ## yaql: datetime operators (each datetime parameter with its declared class) -/

def dtPlusTs (c : PClass) (d : DT) (t : Int) : Except Err DT := pyAddTd (convert c d) t
def tsPlusDt (c : PClass) (t : Int) (d : DT) : Except Err DT := pyAddTd (convert c d) t
def dtMinusTs (c : PClass) (d : DT) (t : Int) : Except Err DT := pyAddTd (convert c d) (-t)
def dtMinusDt (c1 c2 : PClass) (a b : DT) : Except Err Int := pySubDt (convert c1 a) (convert c2 b)
def dtCmp (op : CmpOp) (c1 c2 : PClass) (a b : DT) : Except Err Bool := pyCmp op (convert c1 a) (convert c2 b)

/-! ## yaql: datetime properties and methods -/

def dtYear (d : DT) : Int := (fieldsOf d.wall).year
def dtMonth (d : DT) : Int := (fieldsOf d.wall).month
def dtDay (d : DT) : Int := (fieldsOf d.wall).day
def dtHour (d : DT) : Int := (fieldsOf d.wall).hour
def dtMinute (d : DT) : Int := (fieldsOf d.wall).minute
def dtSecond (d : DT) : Int := (fieldsOf d.wall).second
def dtMicrosecond (d : DT) : Int := (fieldsOf d.wall).micro
def dtWeekday (d : DT) : Int := pyWeekday d

/-- `.date`: `datetime(year=dt.year, month=dt.month, day=dt.day, tzinfo=dt.tzinfo)` -/
def dtDate (c : PClass) (d : DT) : Except Err DT :=
  let d := convert c d
  let f := fieldsOf d.wall
  pyDatetime { year := f.year, month := f.month, day := f.day, hour := 0, minute := 0, second := 0, micro := 0 } d.off

/-- `.time`: `dt - date(dt)` (the python function `date`, no second conversion) -/
def dtTime (c : PClass) (d : DT) : Except Err Int :=
  match dtDate .bare (convert c d) with
  | .ok d0 => pySubDt (convert c d) d0
  | .error e => .error e

/-- `.utc`: `dt.astimezone(UTCTZ)` -/
def dtUtc (c : PClass) (hostOff : Int) (d : DT) : Except Err DT := pyAstimezoneUtc hostOff (convert c d)

/-- `.offset`: `dt.utcoffset() or ZERO_TIMESPAN` (`None` and the falsy `timedelta(0)` both give zero) -/
def dtOffset (c : PClass) (d : DT) : Except Err Int :=
  match pyUtcoffset (convert c d) with
  | .ok none => .ok 0
  | .ok (some o) => if o = 0 then .ok 0 else .ok o
  | .error e => .error e

/-- `.timestamp`: `(utc(dt) - datetime(1970, 1, 1, tzinfo=UTC)).total_seconds()` as the exact rational
    `(microseconds, 10^6)`; `utc` is called as a python function: only `timestamp`'s own parameter
    declaration converts -/
def dtTimestamp (c : PClass) (hostOff : Int) (d : DT) : Except Err (Int × Int) :=
  match dtUtc .bare hostOff (convert c d) with
  | .ok u =>
      (match pySubDt u epoch with
       | .ok t => .ok (t, 1000000)
       | .error e => .error e)
  | .error e => .error e

/-- `.timestamp` as the double returned: `timedelta.total_seconds()` is `total_microseconds / 10**6` on two ints,
    ONE correctly rounded division -/
def dtTimestampF (c : PClass) (hostOff : Int) (d : DT) : Except Err UInt64 :=
  match dtTimestamp c hostOff d with
  | .ok q => pyTrueDiv q.1 q.2
  | .error e => .error e

/-- `dt.replace(year, month, day, hour, minute, second, microsecond, offset)`; `null` = keep -/
def dtReplace (c : PClass) (d : DT) (year month day hour minute second micro : Option Int)
    (offset : Option Int) : Except Err DT :=
  pyReplace (convert c d) year month day hour minute second micro
    (match offset with | some o => some (getTz (some o)) | none => none)

/-! ## the generated table of registered definitions (`Yaql/Gen/DateTimeDefs.lean`) -/

/-- class of a declared parameter type, as far as C20 cares -/
inductive PKind where
  | dtConv        -- `yaqltypes.DateTime()`
  | dtBare        -- a python type that admits `datetime.datetime` without conversion
  | timespan      -- `datetime.timedelta`
  | number        -- `yaqltypes.Number()`
  | int           -- `int` / `yaqltypes.Integer()`
  | string
  | other
deriving DecidableEq, Repr, Inhabited

/-- what kind of value a parameter takes (the public shape of an overload) -/
inductive Shape where
  | dt | ts | num | int | str | other
deriving DecidableEq, Repr, Inhabited

def PKind.shape : PKind → Shape
  | .dtConv => .dt
  | .dtBare => .dt
  | .timespan => .ts
  | .number => .num
  | .int => .int
  | .string => .str
  | .other => .other

structure DParam where
  name : List Char
  kind : PKind
deriving DecidableEq, Repr, Inhabited

/-- one registered `FunctionDefinition` whose payload lives in `date_time.py`; parameters in
    positional order -/
structure DDef where
  py : List Char          -- python function name
  name : List Char        -- yaql name it is registered under
  params : List DParam
deriving DecidableEq, Repr, Inhabited

def prop (n : List Char) : List Char := ['#', 'p', 'r', 'o', 'p', 'e', 'r', 't', 'y', '#'] ++ n
def oper (n : List Char) : List Char := ['#', 'o', 'p', 'e', 'r', 'a', 't', 'o', 'r', '_'] ++ n

/-- definitions whose result cannot depend on whether a naive argument is read as UTC: they look at
    the wall-clock fields only, or report the offset (zero for both) - proved in `Props/C20.lean`
    (`naive_is_utc_fields`) -/
def naiveInsensitive : List (List Char) :=
  [prop ['y', 'e', 'a', 'r'], prop ['m', 'o', 'n', 't', 'h'], prop ['d', 'a', 'y'], prop ['h', 'o', 'u', 'r'],
   prop ['m', 'i', 'n', 'u', 't', 'e'], prop ['s', 'e', 'c', 'o', 'n', 'd'],
   prop ['m', 'i', 'c', 'r', 'o', 's', 'e', 'c', 'o', 'n', 'd'], prop ['w', 'e', 'e', 'k', 'd', 'a', 'y'],
   prop ['o', 'f', 'f', 's', 'e', 't']]

/-- the proof obligation over the table: a datetime parameter either converts naive values or
    belongs to a definition that is insensitive to the zone -/
def paramOk (d : DDef) (p : DParam) : Bool :=
  p.kind != .dtBare || naiveInsensitive.contains d.name

/-- the overload of `name` with the given parameter shapes -/
def findDef (defs : List DDef) (name : List Char) (sh : List Shape) : Option DDef :=
  defs.find? (fun d => d.name == name && d.params.map (·.kind.shape) == sh)

/-- declared classes of the datetime parameters, in positional order -/
def dtClasses (d : DDef) : List PClass :=
  d.params.filterMap fun p =>
    match p.kind with
    | .dtConv => some .conv
    | .dtBare => some .bare
    | _ => none

/-- the overloads this model covers whose result depends on the instant of a datetime argument:
    (yaql name, parameter shapes).  `Props/C20Gen.lean` proves that each is registered and converts
    every datetime parameter. -/
def instantSensitive : List (List Char × List Shape) :=
  [ (oper ['+'], [.dt, .ts]), (oper ['+'], [.ts, .dt]), (oper ['-'], [.dt, .ts]), (oper ['-'], [.dt, .dt]),
    (['*', 'e', 'q', 'u', 'a', 'l'], [.dt, .dt]), (['*', 'n', 'o', 't', '_', 'e', 'q', 'u', 'a', 'l'], [.dt, .dt]),
    (oper ['<'], [.dt, .dt]), (oper ['<', '='], [.dt, .dt]), (oper ['>'], [.dt, .dt]), (oper ['>', '='], [.dt, .dt]),
    (prop ['u', 't', 'c'], [.dt]), (prop ['t', 'i', 'm', 'e', 's', 't', 'a', 'm', 'p'], [.dt]),
    (prop ['d', 'a', 't', 'e'], [.dt]), (prop ['t', 'i', 'm', 'e'], [.dt]),
    (['r', 'e', 'p', 'l', 'a', 'c', 'e'], [.dt, .int, .int, .int, .int, .int, .int, .int, .ts]) ]

def sensitiveOk (defs : List DDef) (e : List Char × List Shape) : Bool :=
  match findDef defs e.1 e.2 with
  | some d => (dtClasses d).all (· == .conv)
  | none => false

end Yaql.DateTime
