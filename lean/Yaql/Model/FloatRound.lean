/-!
IEEE-754 binary64 as exact integer arithmetic: the value of a bit pattern, the order of doubles,
and the **correctly rounded conversion of an exact rational to a double** (`roundRat`: round to
nearest, ties to even, gradual underflow, overflow reported).  No `Float` anywhere: shifts,
comparisons, `Nat.log2`, `/`, `%` on `Nat`/`Int` only, so the kernel can evaluate every definition
and `Props/FloatRound.lean` can prove their characteristic properties for all inputs.

Used by
* `Model/Scalar.lean` - `float(int)` (`PyLong_AsDouble`) is `roundRat i 1`, `OverflowError` on overflow;
* `Model/Lexer.lean` - a NUMBER literal `ddd.ddd` is `roundRat digits (10^k)`, overflow is `inf` (`float(str)`);
* `Model/DateTime.lean` - `timedelta.total_seconds()` (`int / int`, one rounding) and the unit properties
  `microseconds / 3.6e9` (`float(int)`, then one IEEE division = `divBits`).

Conventions (shared with `Scalar`): a finite double is the integer `z` with value `z / 2^1074`
(`decode w = .fin z`); every finite double is such an integer because `2^-1074` is the smallest
subnormal.  The magnitudes of finite doubles are exactly the numbers `M * 2^s`, `M < 2^53`, `s ≤ 2045`.
-/
namespace Yaql.FloatRound

/-! ### doubles as exact numbers -/

/-- a double (or an integer) as an extended exact number; `fin z` is the number `z / 2^1074` -/
inductive Ext where
  | nan | ninf | fin (z : Int) | pinf
deriving Repr, DecidableEq, Inhabited

def scale : Nat := 2 ^ 1074

/-- the exact value of a binary64 bit pattern -/
def decode (w : UInt64) : Ext :=
  let n := w.toNat
  let neg := n / 2 ^ 63 % 2 == 1
  let e := n / 2 ^ 52 % 2048
  let m := n % 2 ^ 52
  if e == 2047 then
    if m == 0 then (if neg then .ninf else .pinf) else .nan
  else
    let mag : Nat := if e == 0 then m else (2 ^ 52 + m) * 2 ^ (e - 1)
    .fin (if neg then -(mag : Int) else (mag : Int))

namespace Ext
def lt : Ext → Ext → Bool
  | .nan, _ => false
  | _, .nan => false
  | .ninf, .ninf => false
  | .ninf, _ => true
  | _, .ninf => false
  | .pinf, _ => false
  | .fin _, .pinf => true
  | .fin a, .fin b => decide (a < b)

def le : Ext → Ext → Bool
  | .nan, _ => false
  | _, .nan => false
  | .ninf, _ => true
  | .fin _, .ninf => false
  | .pinf, .ninf => false
  | _, .pinf => true
  | .pinf, .fin _ => false
  | .fin a, .fin b => decide (a ≤ b)

def eq : Ext → Ext → Bool
  | .ninf, .ninf => true
  | .pinf, .pinf => true
  | .fin a, .fin b => decide (a = b)
  | _, _ => false
end Ext

def qnan : UInt64 := 0x7FF8000000000000
def pinfBits : UInt64 := 0x7FF0000000000000
def ninfBits : UInt64 := 0xFFF0000000000000

def signBit (w : UInt64) : Bool := w.toNat / 2 ^ 63 % 2 == 1
/-- `-x` of a double: the sign bit flips (also of a zero or a NaN) -/
def negBits (w : UInt64) : UInt64 := UInt64.ofNat ((w.toNat + 2 ^ 63) % 2 ^ 64)

/-- the double whose exact scaled magnitude is `r` (which must be representable: `M * 2^s`, `M < 2^53`,
    `s ≤ 2045`), with the given sign -/
def encodeScaled (neg : Bool) (r : Nat) : UInt64 :=
  let s := if neg then 2 ^ 63 else 0
  if r < 2 ^ 52 then UInt64.ofNat (s + r)
  else
    let sh := r.log2 + 1 - 53
    UInt64.ofNat (s + (sh + 1) * 2 ^ 52 + (r / 2 ^ sh - 2 ^ 52))

/-! ### rounding -/

/-- `a / b` rounded to the nearest integer, a tie to the even one (`b > 0`) -/
def rneDiv (a b : Nat) : Nat :=
  let q := a / b
  let r := a % b
  if 2 * r < b then q else if b < 2 * r then q + 1 else if q % 2 = 0 then q else q + 1

/-- the exponent of the spacing of doubles around `a / d` in scaled units: the doubles in
    `[2^(52+s), 2^(53+s)]` are the multiples of `2^s`; below `2^53` (first binade and subnormals) the
    spacing is 1.  `s = max 0 (floor (log2 (a / d)) - 52)`, and `floor (log2 (a / d))` is the `log2`
    of the integer quotient when that is not zero. -/
def quantum (a d : Nat) : Nat := (a / d).log2 - 52

/-- magnitude of `n / d` (scaled by `2^1074`) rounded to 53 significant bits with an unbounded
    exponent above and the subnormal spacing below -/
def roundMag (n d : Nat) : Nat :=
  let a := scale * n
  let s := quantum a d
  rneDiv a (d * 2 ^ s) * 2 ^ s

inductive Rounded where
  | ok (w : UInt64)
  | overflow (neg : Bool)      -- the rounded value is `2^1024` or more in magnitude
  | zeroDen                    -- `den = 0`: not a rational
deriving Repr, DecidableEq, Inhabited

/-- a rounded scaled magnitude as a double: from `2^2098` on (the scaled magnitude of `2^1024`, i.e. a bit
    length above 2098) there is no finite double -/
def finish (neg : Bool) (z : Nat) : Rounded :=
  if 2098 ≤ z.log2 then .overflow neg else .ok (encodeScaled neg z)

/-- the binary64 nearest to `num / den`, ties to even; `+0.0` for 0, `-0.0` for a negative number that
    rounds to zero (as `-1 / 10**400` in Python) -/
def roundRat (num : Int) (den : Nat) : Rounded :=
  if den = 0 then .zeroDen else finish (decide (num < 0)) (roundMag num.natAbs den)

/-- `float(i)` for an integer (`PyLong_AsDouble`): `roundRat i 1` without the "not a rational" stop;
    `none` = the rounded value is `2^1024` or more in magnitude (Python: OverflowError) -/
def floatOfInt (i : Int) : Option UInt64 :=
  match finish (decide (i < 0)) (roundMag i.natAbs 1) with
  | .ok w => some w
  | _ => none

/-- the value of a rounding result in the order of doubles (overflow = the infinities) -/
def Rounded.ext : Rounded → Ext
  | .ok w => decode w
  | .overflow false => .pinf
  | .overflow true => .ninf
  | .zeroDen => .nan

/-- overflow policy of `float(str)` / IEEE arithmetic: the infinities (`none`: not a rational) -/
def roundRatInf (num : Int) (den : Nat) : Option UInt64 :=
  match roundRat num den with
  | .ok w => some w
  | .overflow neg => some (if neg then ninfBits else pinfBits)
  | .zeroDen => none

/-- overflow policy of `int / int` and `float(int)` in Python: `OverflowError` (`.error true`);
    `.error false`: `den = 0`, not a rational (`ZeroDivisionError` of `int / int`) -/
def roundRatErr (num : Int) (den : Nat) : Except Bool UInt64 :=
  match roundRat num den with
  | .ok w => .ok w
  | .overflow _ => .error true
  | .zeroDen => .error false

/-! ### one IEEE division of two doubles -/

/-- IEEE-754 `x / y` (round to nearest even): the exact quotient of the two exact values, rounded once.
    NaN operands give the quiet NaN (the payload of a NaN is not modelled), `0/0` and `inf/inf` too. -/
def divBits (x y : UInt64) : UInt64 :=
  let neg := signBit x != signBit y
  let zero : UInt64 := if neg then 0x8000000000000000 else 0
  let inf : UInt64 := if neg then ninfBits else pinfBits
  match decode x, decode y with
  | .nan, _ => qnan
  | _, .nan => qnan
  | .fin a, .fin b =>
      if b = 0 then (if a = 0 then qnan else inf)
      else if a = 0 then zero
      else
        match roundRat (if neg then -(a.natAbs : Int) else (a.natAbs : Int)) b.natAbs with
        | .ok w => w
        | _ => inf
  | .fin _, _ => zero
  | _, .fin _ => inf
  | _, _ => qnan

/-! ### one IEEE multiplication of two doubles -/

/-- IEEE-754 `x * y` (round to nearest even): the exact product of the two exact values, rounded once -/
def mulBits (x y : UInt64) : UInt64 :=
  let neg := signBit x != signBit y
  let zero : UInt64 := if neg then 0x8000000000000000 else 0
  let inf : UInt64 := if neg then ninfBits else pinfBits
  match decode x, decode y with
  | .nan, _ => qnan
  | _, .nan => qnan
  | .fin a, .fin b =>
      if a = 0 ∨ b = 0 then zero
      else
        match roundRat (if neg then -((a.natAbs * b.natAbs : Nat) : Int) else ((a.natAbs * b.natAbs : Nat) : Int))
            (scale * scale) with
        | .ok w => w
        | _ => inf
  | .fin a, _ => if a = 0 then qnan else inf
  | _, .fin b => if b = 0 then qnan else inf
  | _, _ => inf

end Yaql.FloatRound
