import Yaql.Model.Value
/-!
`groupBy`'s aggregator with its 1.1.1 fallback (`queries.GroupAggregator`) - the one object of the standard
library that carries state from one group to the next - and the two places that state can live in:

* **per call** (the code: `group_by` builds `GroupAggregator(aggregator, allow_fallback)` for every call):
  an evaluation starts from `St.fresh`, so a statement is a function of its data (`Props.C09.perCall_*`);
* **per registered function** (the contrasting design: one instance in the closure of the function that
  `create_context` registers): the state an evaluation leaves behind is the state the next evaluation
  against the same prepared context starts from (`Props.C09.shared_breaks_reuse`).

The user's aggregator lambda is abstracted to `Agg`: what it returns / raises on an argument, which is the
list of values of a group (current syntax) or the pair `[key, values]` (1.1.1 syntax).
-/
namespace Yaql.GroupAgg
open Yaql

inductive Err where
  | resolution (tag : Nat)   -- NoMatchingMethodException / NoMatchingFunctionException / IndexError: triggers the fallback
  | other (tag : Nat)        -- any other exception
deriving DecidableEq, Repr, Inhabited

abbrev Agg := Value → Except Err Value

/-- `self.allow_fallback`, `self._failure_info` -/
structure St where
  allowFallback : Bool
  failure : Option Err
deriving DecidableEq, Repr, Inhabited

def St.fresh (allow : Bool) : St := { allowFallback := allow, failure := none }

/-- `len(result) == 2` -/
def len2 : Value → Bool
  | .tuple [_, _] | .list [_, _] | .set [_, _] | .iter [_, _] | .str [_, _] | .dict [_, _] => true
  | _ => false

/-- "we are dealing with (correct) version 1.1.1 syntax": two values, the result a pair that starts with the first -/
def looksOld (vals : List Value) (r : Value) : Bool :=
  match vals, r with
  | [a, _], .tuple [x, _] | [a, _], .list [x, _] => a == x
  | _, _ => false

/-- `raise self._failure_info` (`raise None` is a TypeError) -/
def raiseFirst (st : St) : Except Err Value :=
  match st.failure with
  | some e => .error e
  | none => .error (.other 0)

/-- the 1.1.1 path: `aggregator(group_item)`, accepted when it returns a pair -/
def fallback (agg : Agg) (st : St) (item : Value) : Except Err Value × St :=
  if st.allowFallback then
    match agg item with
    | .ok r => if len2 r then (.ok r, st) else (raiseFirst st, st)
    | .error _ => (raiseFirst st, st)
  else (raiseFirst st, st)

/-- `GroupAggregator.__call__((key, value_list))` -/
def call (agg : Agg) (st : St) (key : Value) (vals : List Value) : Except Err Value × St :=
  match st.failure with
  | none =>
    match agg (.list vals) with
    | .error (.resolution t) => fallback agg { st with failure := some (.resolution t) } (.tuple [key, .list vals])
    | .error e => (.error e, st)
    | .ok r => (.ok (.tuple [key, r]), if looksOld vals r then st else { st with allowFallback := false })
  | some _ => fallback agg st (.tuple [key, .list vals])

/-- `select(groups.items(), aggregator_object)`, consumed: the results of the groups in order, or the first exception -/
def run (agg : Agg) : St → List (Value × List Value) → Except Err (List Value) × St
  | st, [] => (.ok [], st)
  | st, (k, vs) :: rest =>
    match call agg st k vs with
    | (.error e, st') => (.error e, st')
    | (.ok r, st') =>
      match run agg st' rest with
      | (.ok rs, st'') => (.ok (r :: rs), st'')
      | (.error e, st'') => (.error e, st'')

/-- one `groupBy(.., aggregator)` statement with its (grouped) data -/
structure Stmt where
  agg : Agg
  groups : List (Value × List Value)

/-- the code: a new aggregator object per call -/
def evalPerCall (allow : Bool) (s : Stmt) : Except Err (List Value) := (run s.agg (St.fresh allow) s.groups).1

/-- a pool of statements evaluated one after the other against one prepared context, per-call design -/
def poolPerCall (allow : Bool) (pool : List Stmt) : List (Except Err (List Value)) := pool.map (evalPerCall allow)

/-- the contrasting design: ONE aggregator object lives in the registered function; every evaluation starts
    from the state the previous one left -/
def poolShared : St → List Stmt → List (Except Err (List Value))
  | _, [] => []
  | st, s :: rest => let r := run s.agg st s.groups; r.1 :: poolShared r.2 rest

end Yaql.GroupAgg
