import Yaql.Model.Resolve
/-!
Model of how a `FunctionDefinition` is made of a Python callable:
`specs.py:FunctionDefinition.set_parameter` (what the `@specs.parameter` / `@specs.inject`
decorators call) and `specs.get_function_definition` (what `register_function(<callable>)`
calls): the translation of `inspect.getfullargspec(payload)` plus the decorators into the
parameter table (`parameters`: key, name, alias, position, default, type) that `map_args` /
`get_delegate` work on.

Documented in doc/source/extending_yaql.rst ("for each parameter, it records its name,
position, whether it is a keyword-only argument, whether it is an `*args` or `**kwargs`, and
its default parameter value"; "Automatic parameters"; "Naming conventions").
-/
namespace Yaql.Signature
open Yaql.Types Yaql.Resolve

/-- `inspect.getfullargspec(payload)` -/
structure PySig where
  args : List Name                    -- spec.args
  defaults : List Arg                 -- spec.defaults or (): belong to the LAST len(defaults) of `args`
  varargs : Option Name
  kwonly : List Name                  -- spec.kwonlyargs
  kwdefaults : List (Name × Arg)      -- spec.kwonlydefaults or {}
  varkw : Option Name
deriving Repr, DecidableEq, Inhabited

/-- the argument names of a Python signature are pairwise distinct -/
def PySig.Distinct (s : PySig) : Prop :=
  (s.args ++ s.kwonly ++ s.varargs.toList ++ s.varkw.toList).Nodup

/-- the keyword-only defaults of a Python function belong to keyword-only arguments -/
def PySig.KwDefaultsOk (s : PySig) : Prop := ∀ n v, alookup n s.kwdefaults = some v → n ∈ s.kwonly

/-- the `value_type` argument of `set_parameter` -/
inductive DType where
  | absent                            -- None
  | smart (t : PTy)                   -- a SmartType instance
  | pyclass (c : Cls)                 -- a bare Python class
deriving Repr, DecidableEq, Inhabited

/-- one `set_parameter(name, value_type, nullable, alias)` call (a decorator) -/
structure Decl where
  name : Name
  ty : DType := .absent
  nullable : Option Bool := none
  alias : Option Name := none
deriving Repr, DecidableEq, Inhabited

/-- ids of `object` and of the validator `lambda _: True` that `PythonType` installs -/
structure Consts where
  object : Cls
  vTrue : Nat

inductive SigErr where
  | noParameterFound                  -- NoParameterFoundException
  | duplicate                         -- DuplicateParameterDecoratorException
deriving Repr, DecidableEq, Inhabited

/-- the key in `parameters` and the `position` that `set_parameter` gives the argument `n`;
    `none` = the payload has no such argument -/
def place (sig : PySig) (n : Name) : Option (Key × Option Nat) :=
  if sig.varkw == some n then some (.starstar, none)
  else if sig.varargs == some n then some (.star, some sig.args.length)
  else if sig.kwonly.contains n then some (.name n, none)
  else if sig.args.contains n then some (.name n, some (sig.args.idxOf n))
  else none

/-- the default the payload declares for `n` (`none` = NO_DEFAULT):
    ```
    if spec.defaults is not None and name in spec.args:
        index = spec.args.index(name) - len(spec.args)
        if index >= -len(spec.defaults): default = spec.defaults[index]
    elif spec.kwonlydefaults is not None:
        default = spec.kwonlydefaults.get(name, NO_DEFAULT)
    ``` -/
def declaredDefault (sig : PySig) (n : Name) : Option Arg :=
  if !sig.defaults.isEmpty && sig.args.contains n then
    let i := sig.args.idxOf n
    if i + sig.defaults.length >= sig.args.length then
      sig.defaults[i + sig.defaults.length - sig.args.length]?
    else none
  else alookup n sig.kwdefaults

/-- the smart type of the parameter:
    no type given: `PythonType(object if default in (None, NO_DEFAULT, NO_VALUE) else type(default), nullable)`
    with `nullable` True unless given; a bare class: `PythonType(cls, nullable)` with `nullable` = "the default
    is None" unless given; a smart type: taken as it is -/
def valueType (k : Consts) (d : Decl) (dflt : Option Arg) : PTy :=
  match d.ty with
  | .absent =>
      let base := match dflt with
        | some (.value (.obj c _ _)) => c
        | _ => k.object
      .py (.one base) (d.nullable.getD true) [k.vTrue]
  | .smart t => t
  | .pyclass c => .py (.one c) (d.nullable.getD (dflt == some (.value .none))) [k.vTrue]

/-- the `ParameterDefinition` a declaration yields - it depends on the payload's signature and on the
    declaration only, not on what was declared before -/
def mkParam (k : Consts) (sig : PySig) (d : Decl) (key : Key) (pos : Option Nat) : Param :=
  let dflt := declaredDefault sig d.name
  { key := key, name := d.name, alias := d.alias, position := pos, default := dflt, ty := valueType k d dflt }

def hasKey (ps : List Param) (key : Key) : Bool := ps.any (·.key == key)

/-- `fd.set_parameter(name, value_type, nullable, alias)` (overwrite=False) on the table `ps` -/
def setParameter (k : Consts) (sig : PySig) (ps : List Param) (d : Decl) : Except SigErr (List Param) :=
  match place sig d.name with
  | none => .error .noParameterFound
  | some (key, pos) =>
      if hasKey ps key then .error .duplicate
      else .ok (ps ++ [mkParam k sig d key pos])

/-- the decorators, in the order they are applied -/
def setAll (k : Consts) (sig : PySig) : List Param → List Decl → Except SigErr (List Param)
  | ps, [] => .ok ps
  | ps, d :: ds =>
      match setParameter k sig ps d with
      | .ok ps' => setAll k sig ps' ds
      | .error e => .error e

/-- the declaration `get_function_definition` makes up for an argument nobody declared:
    `fd.set_parameter(arg, parameter_type_func(arg))` -/
def autoDecl (infer : Name → Option PTy) (n : Name) : Decl :=
  { name := n, ty := match infer n with | some t => .smart t | none => .absent }

/-- `if arg not in fd.parameters: fd.set_parameter(arg, ..)` for the arguments in `ns` -/
def fillNames (k : Consts) (sig : PySig) (infer : Name → Option PTy) :
    List Param → List Name → Except SigErr (List Param)
  | ps, [] => .ok ps
  | ps, n :: ns =>
      if hasKey ps (.name n) then fillNames k sig infer ps ns
      else match setParameter k sig ps (autoDecl infer n) with
        | .ok ps' => fillNames k sig infer ps' ns
        | .error e => .error e

/-- `if spec.varargs and '*' not in fd.parameters: ..` / the same for `**` -/
def fillSpecial (k : Consts) (sig : PySig) (infer : Name → Option PTy) (key : Key) (o : Option Name)
    (ps : List Param) : Except SigErr (List Param) :=
  match o with
  | none => .ok ps
  | some n => if hasKey ps key then .ok ps else setParameter k sig ps (autoDecl infer n)

/-- `if convention: for p in parameters: if p.alias is None: p.alias = convert_parameter_name(p.name)` -/
def applyConvention (conv : Option (Name → Name)) (ps : List Param) : List Param :=
  match conv with
  | none => ps
  | some f => ps.map fun p => if p.alias.isNone then { p with alias := some (f p.name) } else p

/-- `specs.get_function_definition(func, convention=.., parameter_type_func=infer)`: the parameter table;
    `decls` are the decorators of `func` in the order they were applied -/
def define (k : Consts) (infer : Name → Option PTy) (conv : Option (Name → Name)) (sig : PySig)
    (decls : List Decl) : Except SigErr (List Param) :=
  match setAll k sig [] decls with
  | .error e => .error e
  | .ok ps0 =>
      match fillNames k sig infer ps0 (sig.args ++ sig.kwonly) with
      | .error e => .error e
      | .ok ps1 =>
          match fillSpecial k sig infer .star sig.varargs ps1 with
          | .error e => .error e
          | .ok ps2 =>
              match fillSpecial k sig infer .starstar sig.varkw ps2 with
              | .error e => .error e
              | .ok ps3 => .ok (applyConvention conv ps3)

/-- `specs._infer_parameter_type` over the ids of the three hidden types it knows -/
def inferByName (n : Name) : Option PTy :=
  let bare := match n with
    | '_' :: '_' :: r => r
    | _ => n
  if bare == ['c', 'o', 'n', 't', 'e', 'x', 't'] then some (.hidden .context)
  else if bare == ['e', 'n', 'g', 'i', 'n', 'e'] then some (.hidden .engine)
  else if bare == ['y', 'a', 'q', 'l', '_', 'i', 'n', 't', 'e', 'r', 'f', 'a', 'c', 'e'] then
    some (.hidden .yaqlInterface)
  else none

/-- `set_parameter(<int>, ..)`: the argument a position stands for -
    `spec.args[i]`, or `spec.varargs` for `i == len(spec.args)`; `none` = IndexError -/
def byIndex (sig : PySig) (i : Nat) : Option Name :=
  if i < sig.args.length then sig.args[i]?
  else if i == sig.args.length then sig.varargs
  else none

/-! ### rows of the generated table (lean/Yaql/Gen/SigTable.lean) -/

/-- one registered definition: what `inspect.signature(payload)` says, and the entries of `fd.parameters`
    as (key, python name, position, default present) -/
structure SigRow where
  fname : Name
  args : List Name
  ndefaults : Nat                   -- the LAST `ndefaults` of `args` have a default
  varargs : Option Name
  kwonly : List Name
  kwdefaults : List Name            -- the keyword-only arguments that have a default
  varkw : Option Name
  table : List (Key × Name × Option Nat × Bool)

/-- the signature of a row, with placeholders for the default values -/
def SigRow.sig (r : SigRow) : PySig :=
  { args := r.args, defaults := List.replicate r.ndefaults (.value .none), varargs := r.varargs,
    kwonly := r.kwonly, kwdefaults := r.kwdefaults.map fun n => (n, .value .none), varkw := r.varkw }

def entryOf (p : Param) : Key × Name × Option Nat × Bool := (p.key, p.name, p.position, p.default.isSome)

/-- the table of the row holds exactly the entries (key, name, position, default present) that `define`
    derives from the signature (whatever the decorators: they do not touch these four columns) -/
def SigRow.ok (r : SigRow) : Bool :=
  match define { object := 0, vTrue := 0 } inferByName none r.sig [] with
  | .ok ps =>
      let want := ps.map entryOf
      want.all r.table.contains && r.table.all want.contains && want.length == r.table.length
  | .error _ => false

end Yaql.Signature
