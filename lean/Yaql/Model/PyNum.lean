import Yaql.Model.PyPrelude
import Yaql.Model.Scalar
/-!
Python's arithmetic / comparison operators on the dynamically typed scalars of the C15 model, as primitives
of the source translator: `left + right` on two python numbers is `Yaql.Scalar.arith F .add`, etc.  The error
classes of the scalar model are embedded in the translator's error enum by `liftErr`.
-/
namespace Yaql.PyNum
open Yaql.Scalar

def liftErrClass : Yaql.Scalar.Err → Py.Err
  | .zeroDivision => .zeroDivision
  | .overflow => .overflowError
  | .noMatching => .other 11
  | .ambiguous => .other 12
  | .memory => .other 13
  | .internal => .other 14

def liftErr {α : Type} : Except Yaql.Scalar.Err α → Except Py.Err α
  | .ok v => .ok v
  | .error e => .error (liftErrClass e)

/-- `a OP b` for two python numbers (int / float, never bool) -/
def arith (F : FloatOps) (op : AOp) (a b : Num) : Except Py.Err SVal := liftErr (Yaql.Scalar.arith F op a b)

/-- `a / b` (true division: both operands converted to double) -/
def truediv (F : FloatOps) (a b : Num) : Except Py.Err SVal :=
  match a.toF with
  | .error e => .error (liftErrClass e)
  | .ok fa =>
    match b.toF with
    | .error e => .error (liftErrClass e)
    | .ok fb => liftErr (match pyFloatDiv F fa fb with | .ok w => .ok (.flt w) | .error e => .error e)

/-- comparisons of two python numbers: exact, through the extended reals -/
def lt (a b : Num) : Bool := Yaql.FloatRound.Ext.lt a.ext b.ext
def le (a b : Num) : Bool := Yaql.FloatRound.Ext.le a.ext b.ext
def gt (a b : Num) : Bool := Yaql.FloatRound.Ext.lt b.ext a.ext
def ge (a b : Num) : Bool := Yaql.FloatRound.Ext.le b.ext a.ext

def neg (a : Num) : SVal := negNum a
def pos (a : Num) : SVal := a.toSVal

def isInt : Num → Bool
  | .int _ => true
  | .flt _ => false

/-- `isinstance(v, int)` on a scalar: `bool` is a subclass of `int` -/
def svIsInt : SVal → Bool
  | .int _ => true
  | .bool _ => true
  | _ => false
def svIsBool : SVal → Bool
  | .bool _ => true
  | _ => false
def svIsFloat : SVal → Bool
  | .flt _ => true
  | _ => false
def svIsStr : SVal → Bool
  | .str _ => true
  | _ => false

/-- the Bool carried by an outcome of the scalar model (`false` for anything else) -/
def boolOf : Except Yaql.Scalar.Err SVal → Bool
  | .ok (.bool b) => b
  | _ => false

/-- the value carried by an outcome of the scalar model (`null` for an error) -/
def valOf : Except Yaql.Scalar.Err SVal → SVal
  | .ok v => v
  | .error _ => .null

end Yaql.PyNum
