/-!
Operator table: `yaql/language/factory.py` (`YaqlFactory.operators`, `insert_operator`,
`_name_generator`, `_build_operator_table`) and `yaql/language/parser.py`
(`Parser._generate_operator_funcs`: rule docstrings and the ply `precedence` tuple).

Strings are `List Char`.  The operator list is a list of records: `()` is `Rec.sep`, a 2- or
3-tuple is `Rec.op sym type alias` (`record[2] if len(record) > 2 else None` makes a 2-tuple
the same as a 3-tuple with alias `None`).
-/
namespace Yaql.OpTable

abbrev Str := List Char

/-- `Except` has no `DecidableEq` in core; results are compared by `decide` in the proofs -/
instance instDecEqExcept {ε α} [DecidableEq ε] [DecidableEq α] : DecidableEq (Except ε α) := fun a b =>
  match a, b with
  | .ok x, .ok y => if h : x = y then isTrue (by rw [h]) else isFalse (fun e => h (by injection e))
  | .error x, .error y => if h : x = y then isTrue (by rw [h]) else isFalse (fun e => h (by injection e))
  | .ok _, .error _ => isFalse (fun e => by injection e)
  | .error _, .ok _ => isFalse (fun e => by injection e)

inductive OpType where
  | prefixUnary | suffixUnary | binaryLeft | binaryRight | nameValue
deriving DecidableEq, Repr, Inhabited

inductive Rec where
  | sep
  | op (sym : Str) (ty : OpType) (alias : Option Str)
deriving DecidableEq, Repr, Inhabited

abbrev OpList := List Rec

/-- `len(t) > 1` -/
def Rec.isOp : Rec → Bool
  | .sep => false
  | .op .. => true

def Rec.isSep (r : Rec) : Bool := !r.isOp

def OpType.isBinary : OpType → Bool
  | .binaryLeft | .binaryRight => true
  | _ => false

def OpType.isUnary : OpType → Bool
  | .prefixUnary | .suffixUnary => true
  | _ => false

/-! ## `_standard_operators`, `YaqlFactory.__init__`, `yaql.legacy.YaqlFactory.__init__` -/

def standardOperators : OpList :=
  [ .op ['.'] .binaryLeft none, .op ['?', '.'] .binaryLeft none, .sep,
    .op ['[', ']'] .binaryLeft none, .op ['{', '}'] .binaryLeft none, .sep,
    .op ['+'] .prefixUnary none, .op ['-'] .prefixUnary none, .sep,
    .op ['=', '~'] .binaryLeft none, .op ['!', '~'] .binaryLeft none, .sep,
    .op ['*'] .binaryLeft none, .op ['/'] .binaryLeft none, .op ['m', 'o', 'd'] .binaryLeft none, .sep,
    .op ['+'] .binaryLeft none, .op ['-'] .binaryLeft none, .sep,
    .op ['>'] .binaryLeft none, .op ['<'] .binaryLeft none, .op ['>', '='] .binaryLeft none,
    .op ['<', '='] .binaryLeft none,
    .op ['!', '='] .binaryLeft (some ['n', 'o', 't', '_', 'e', 'q', 'u', 'a', 'l']),
    .op ['='] .binaryLeft (some ['e', 'q', 'u', 'a', 'l']),
    .op ['i', 'n'] .binaryLeft none, .sep,
    .op ['n', 'o', 't'] .prefixUnary none, .sep,
    .op ['a', 'n', 'd'] .binaryLeft none, .sep,
    .op ['o', 'r'] .binaryLeft none, .sep,
    .op ['-', '>'] .binaryRight none ]

/-- `YaqlFactory(keyword_operator=kw)`: `operators.insert(0, (kw, NAME_VALUE_PAIR))` when `kw` is truthy -/
def factoryOperators (kw : Option Str) : OpList :=
  match kw with
  | some k => if k.isEmpty then standardOperators else .op k .nameValue none :: standardOperators
  | none => standardOperators

/-! ## `insert_operator` -/

/-- the record test of the position search -/
def matchesExisting (existing : Str) (existingBinary : Bool) : Rec → Bool
  | .sep => false
  | .op sym ty _ =>
      sym == existing && (if existingBinary then ty.isBinary else ty.isUnary)

/-- `for i, t in enumerate(self.operators): ... position = i; break` -/
def findExisting (existing : Str) (existingBinary : Bool) : OpList → Nat → Option Nat
  | [], _ => none
  | r :: rs, i => if matchesExisting existing existingBinary r then some i
                  else findExisting existing existingBinary rs (i + 1)

/-- `while position < len(ops) and p(ops[position]): position += 1` -/
def advance (p : Rec → Bool) (ops : OpList) (pos : Nat) : Nat :=
  pos + ((ops.drop pos).takeWhile p).length

/-- `list.insert(pos, x)` for `0 <= pos <= len` -/
def insertAt (ops : OpList) (pos : Nat) (x : Rec) : OpList :=
  ops.take pos ++ x :: ops.drop pos

inductive InsertErr where
  | notFound           -- `ValueError('Operator ... is not found')`
deriving DecidableEq, Repr

def insertOperator (ops : OpList) (existing : Option Str) (existingBinary : Bool)
    (newSym : Str) (newTy : OpType) (createGroup : Bool) (alias : Option Str) :
    Except InsertErr OpList :=
  let new := Rec.op newSym newTy alias
  let position? : Option Nat :=
    match existing with
    | none => some 0
    | some e =>
        match findExisting e existingBinary ops 0 with
        | none => none
        | some i => some (advance Rec.isOp ops i)
  match position? with
  | none => .error .notFound
  | some position =>
    if createGroup then
      if position == ops.length then
        .ok (insertAt (ops ++ [.sep]) (position + 1) new)
      else
        let position := advance Rec.isSep ops position
        .ok (insertAt (insertAt ops position .sep) position new)
    else
      .ok (insertAt ops position new)

/-- `yaql.legacy.YaqlFactory.__init__`: no keyword operator, `=>` inserted as a left-associative
binary operator in a new group after `or`'s -/
def legacyOperators : Except InsertErr OpList :=
  insertOperator (factoryOperators none) (some ['o', 'r']) true ['=', '>'] .binaryLeft true none

/-! ## `_name_generator` -/

def nameDigits : Nat → Nat → Str
  | 0, _ => []
  | f + 1, t => if t = 0 then [] else Char.ofNat (65 + t % 26) :: nameDigits f (t / 26)

/-- the `value`-th name (value = 1, 2, ..): base-26 digits `A..Z`, least significant first -/
def genName (value : Nat) : Str := nameDigits value value

/-! ## `_build_operator_table` -/

structure OpRec where
  up : Int          -- 0: not unary; > 0: prefix at that group; < 0: suffix
  bp : Int          -- 0: not binary; > 0: left associative; < 0: right associative
  name : Str        -- lexeme / token name
  alias : Option Str
deriving DecidableEq, Repr, Inhabited

/-- a Python dict with string keys: insertion ordered association list -/
abbrev Dict (α : Type) := List (Str × α)

def Dict.get? {α} (d : Dict α) (k : Str) : Option α :=
  match d with
  | [] => none
  | (k', v) :: rest => if k' == k then some v else Dict.get? rest k

/-- `d[k] = v`: overwrite in place or append -/
def Dict.set {α} (d : Dict α) (k : Str) (v : α) : Dict α :=
  match d with
  | [] => [(k, v)]
  | (k', v') :: rest => if k' == k then (k', v) :: rest else (k', v') :: Dict.set rest k v

structure Table where
  ops : Dict OpRec
  nameValue : Option Str
deriving DecidableEq, Repr, Inhabited

structure BuildSt where
  ops : Dict OpRec := []
  nameValue : Option Str := none
  precedence : Nat := 1
  nextName : Nat := 1
deriving Repr

inductive BuildErr where
  | invalidOperatorTable (sym : Str)
deriving DecidableEq, Repr

def indexerSym : Str := ['[', ']']
def mapSym : Str := ['{', '}']
def nIndexer : Str := ['I', 'N', 'D', 'E', 'X', 'E', 'R']
def nMap : Str := ['M', 'A', 'P']
def nList : Str := ['L', 'I', 'S', 'T']
def nComma : Str := [',']
def opPrefix : Str := ['O', 'P', '_']
def unaryPrefix : Str := ['U', 'N', 'A', 'R', 'Y', '_']

/-- the tail of the loop body: choose the lexeme name and store the record -/
def storeRec (st : BuildSt) (sym : Str) (up bp : Int) (oldName : Str) (alias : Option Str) : BuildSt :=
  if sym == indexerSym then
    { st with ops := st.ops.set sym ⟨up, bp, nIndexer, alias⟩ }
  else if sym == mapSym then
    { st with ops := st.ops.set sym ⟨up, bp, nMap, alias⟩ }
  else if oldName.isEmpty then
    { st with ops := st.ops.set sym ⟨up, bp, opPrefix ++ genName st.nextName, alias⟩,
              nextName := st.nextName + 1 }
  else
    { st with ops := st.ops.set sym ⟨up, bp, oldName, alias⟩ }

def buildStep (st : BuildSt) : Rec → Except BuildErr BuildSt
  | .sep => .ok { st with precedence := st.precedence + 1 }
  | .op sym ty alias =>
    let cur : OpRec := (st.ops.get? sym).getD ⟨0, 0, [], none⟩
    match ty with
    | .nameValue =>
        if st.nameValue.isSome then .error (.invalidOperatorTable sym)
        else .ok { st with nameValue := some sym }
    | .prefixUnary =>
        if cur.up ≠ 0 then .error (.invalidOperatorTable sym)
        else .ok (storeRec st sym st.precedence cur.bp cur.name alias)
    | .suffixUnary =>
        if cur.up ≠ 0 then .error (.invalidOperatorTable sym)
        else .ok (storeRec st sym (-(st.precedence : Int)) cur.bp cur.name alias)
    | .binaryLeft =>
        if cur.bp ≠ 0 then .error (.invalidOperatorTable sym)
        else .ok (storeRec st sym cur.up st.precedence cur.name alias)
    | .binaryRight =>
        if cur.bp ≠ 0 then .error (.invalidOperatorTable sym)
        else .ok (storeRec st sym cur.up (-(st.precedence : Int)) cur.name alias)

def buildFrom (st : BuildSt) : OpList → Except BuildErr BuildSt
  | [] => .ok st
  | r :: rs => match buildStep st r with
               | .ok st' => buildFrom st' rs
               | .error e => .error e

def buildOperatorTable (ops : OpList) : Except BuildErr Table :=
  match buildFrom {} ops with
  | .ok st => .ok ⟨st.ops, st.nameValue⟩
  | .error e => .error e

/-! ## `Parser._generate_operator_funcs` -/

/-- key of `precedence_dict`: `(abs(level), 'l' | 'r')`; `true` = `'l'` -/
abbrev PKey := Nat × Bool

abbrev PDict := List (PKey × List Str)

def PDict.get? (d : PDict) (k : PKey) : Option (List Str) :=
  match d with
  | [] => none
  | (k', v) :: rest => if k' == k then some v else PDict.get? rest k

/-- `precedence_dict.setdefault(k, []).extend(names)` -/
def PDict.extend (d : PDict) (k : PKey) (names : List Str) : PDict :=
  match d with
  | [] => [(k, names)]
  | (k', v) :: rest => if k' == k then (k', v ++ names) :: rest else (k', v) :: PDict.extend rest k names

/-- one row of the ply tuple: `('left'|'right', names...)`; `true` = `'left'` -/
abbrev PRow := Bool × List Str

structure Funcs where
  binaryDoc : Str := []
  unaryDoc : Str := []
  pdict : PDict := []
  aliases : Dict (Option Str) := []
deriving DecidableEq, Repr

def unaryKey (r : OpRec) : PKey := (r.up.natAbs, decide (r.up > 0))
def binaryKey (r : OpRec) : PKey := (r.bp.natAbs, decide (r.bp > 0))

def unaryNameOf (r : OpRec) : Str := if r.bp ≠ 0 then unaryPrefix ++ r.name else r.name

/-- names a record contributes to its binary key -/
def binaryNamesOf (r : OpRec) : List Str :=
  if r.name == nIndexer then [nList, nIndexer]
  else if r.name == nMap then [nMap]
  else [r.name]

/-- what one table record adds to `precedence_dict` -/
def pdictStep (d : PDict) (r : OpRec) : PDict :=
  let d1 := if r.up ≠ 0 then d.extend (unaryKey r) [unaryNameOf r] else d
  if r.bp ≠ 0 then d1.extend (binaryKey r) (binaryNamesOf r) else d1

/-- ... to `unary_doc` -/
def unaryDocStep (doc : Str) (r : OpRec) : Str :=
  if r.up ≠ 0 then
    let head : Str := if doc.isEmpty then ['v', 'a', 'l', 'u', 'e', ' ', ':', ' '] else ['\n', '|', ' ']
    let spec : Str := if r.up > 0 then r.name ++ [' ', 'v', 'a', 'l', 'u', 'e'] else ['v', 'a', 'l', 'u', 'e', ' '] ++ r.name
    let spec : Str := if r.bp ≠ 0 then spec ++ [' ', '%', 'p', 'r', 'e', 'c', ' ', 'U', 'N', 'A', 'R', 'Y', '_'] ++ r.name else spec
    doc ++ head ++ spec
  else doc

/-- ... to `binary_doc` (`INDEXER` and `MAP` have rules of their own) -/
def binaryDocStep (doc : Str) (r : OpRec) : Str :=
  if r.bp ≠ 0 && !(r.name == nIndexer || r.name == nMap) then
    let head : Str := if doc.isEmpty then ['v', 'a', 'l', 'u', 'e', ' ', ':', ' '] else ['\n', '|', ' ']
    doc ++ head ++ ['v', 'a', 'l', 'u', 'e', ' '] ++ r.name ++ [' ', 'v', 'a', 'l', 'u', 'e']
  else doc

/-- one iteration of `for up, bp, op_name, op_alias in yaql_operators.operators.values()` -/
def funcsStep (f : Funcs) (r : OpRec) : Funcs :=
  { binaryDoc := binaryDocStep f.binaryDoc r,
    unaryDoc := unaryDocStep f.unaryDoc r,
    pdict := pdictStep f.pdict r,
    aliases := f.aliases.set r.name r.alias }

def funcsOf (t : Table) : Funcs := (t.ops.map (·.2)).foldl funcsStep {}

/-- the body of `for i in range(1, len(precedence_dict) + 1): for oa in ('r', 'l'): ...` for one `i` -/
def rowsAt (d : PDict) (i : Nat) : List (PKey × PRow) :=
  (match d.get? (i, false) with
   | some (n :: ns) => [((i, false), (false, n :: ns))]
   | _ => []) ++
  (match d.get? (i, true) with
   | some (n :: ns) => [((i, true), (true, n :: ns))]
   | _ => [])

/-- rows in the order the loop appends them (before `insert(0, ..)` and `reverse()`), with their keys -/
def keyedRows (d : PDict) : List (PKey × PRow) :=
  (List.range d.length).flatMap fun i => rowsAt d (i + 1)

/-- `self.precedence`: ply's tuple, lowest precedence first -/
def precedenceOf (d : PDict) : List PRow :=
  (((true, [nComma]) : PRow) :: (keyedRows d).map (·.2)).reverse

structure Generated where
  precedence : List PRow
  binaryDoc : Str
  unaryDoc : Str
  aliases : Dict (Option Str)
deriving DecidableEq, Repr

def generateOperatorFuncs (t : Table) : Generated :=
  let f := funcsOf t
  ⟨precedenceOf f.pdict, f.binaryDoc, f.unaryDoc, f.aliases⟩

/-- ply's `Grammar.set_precedence`: level = 1 + index of the row; terminals that are not listed
get `('right', 0)` -/
structure Prec where
  level : Nat
  left : Bool
deriving DecidableEq, Repr, Inhabited

def lookupPrecFrom (name : Str) : List PRow → Nat → Prec
  | [], _ => ⟨0, false⟩
  | (l, names) :: rows, i => if names.contains name then ⟨i, l⟩ else lookupPrecFrom name rows (i + 1)

def lookupPrec (rows : List PRow) (name : Str) : Prec := lookupPrecFrom name rows 1

end Yaql.OpTable
