import Yaql.Model.Value
import Yaql.Model.FloatRound
/-!
Scalar operators of yaql (`math.py`, `common.py`, `strings.py`, `boolean.py`, the string side of
`collections.py`'s `*`) on null / booleans / integers / floats / strings.

* A value is an `SVal` (the scalar constructors of `Yaql.Value`; `ofValue?`/`toValue` embed).
* Operators are *functions registered under a name* (`#operator_<`, `#unary_operator_-`, `*equal`...)
  with typed parameters; a call selects the overload whose parameter types accept the operands
  (`select`, mirroring `runner.choose_overload` for eager arguments: no candidate -> `NoMatching`,
  one -> it, several -> the real code looks for the most specialised one; the model says
  `Ambiguous` and `Props/C15.dispatch_unique` proves that this never happens on scalars).
  The overload table `overloads` is compared row by row with the table generated from the live
  registry (`Props/C15Gen.operator_overloads`).
* Integers are `Int`, exact.  `/` on two ints is `Int.fdiv`, `mod` is `Int.fmod` (Python `//`, `%`).
* Floats are IEEE-754 binary64 bit patterns.  `+ - * /` on two doubles are the *parameters*
  `FloatOps` (the driver instantiates them with the machine's doubles, as CPython does);
  everything else about floats is defined here exactly, by integer arithmetic on the bits:
  the value of a double (`decode`: the exact number scaled by 2^1074, an `Int`), comparison and
  equality (exact, also between an int and a double, as CPython does), `float(int)`
  (`toFloat`: round-half-even, `OverflowError` from 2^1024 - 2^970 on), C `fmod` (exact) and
  Python's sign fix-up of `%`, negation (sign bit), truthiness.
* Error classes are the exception classes the real code raises.
-/
namespace Yaql.Scalar
open Yaql.FloatRound (Ext)

inductive Err where
  | noMatching      -- NoMatchingFunctionException
  | ambiguous       -- AmbiguousFunctionException
  | zeroDivision    -- ZeroDivisionError
  | overflow        -- OverflowError
  | memory          -- MemoryError
  | internal        -- an overload was run on operands its parameter types reject (proved unreachable)
deriving Repr, DecidableEq, Inhabited

inductive Kind where
  | null | bool | int | float | str
deriving Repr, DecidableEq, Inhabited

inductive SVal where
  | null
  | bool (b : Bool)
  | int (i : Int)
  | flt (bits : UInt64)
  | str (s : List Char)
deriving Repr, DecidableEq, Inhabited

def kindOf : SVal → Kind
  | .null => .null
  | .bool _ => .bool
  | .int _ => .int
  | .flt _ => .float
  | .str _ => .str

def SVal.toValue : SVal → Value
  | .null => .null
  | .bool b => .bool b
  | .int i => .int i
  | .flt w => .flt w
  | .str s => .str s

def ofValue? : Value → Option SVal
  | .null => some .null
  | .bool b => some (.bool b)
  | .int i => some (.int i)
  | .flt w => some (.flt w)
  | .str s => some (.str s)
  | _ => none

/-! ### doubles as exact numbers

`Ext`, `decode`, the order `Ext.lt/le/eq`, `negBits`, `encodeScaled` and the correctly rounded
conversion `roundRat` live in `Yaql.Model.FloatRound` (shared with the lexer and the date/time model);
they are re-exported here under their old names. -/

export Yaql.FloatRound (Ext scale decode qnan signBit negBits encodeScaled)

def extOfInt (i : Int) : Ext := .fin (i * (scale : Int))

def isNaNBits (w : UInt64) : Bool := decode w == .nan
def isZeroBits (w : UInt64) : Bool := w.toNat % 2 ^ 63 == 0

/-- `float(i)` (`PyLong_AsDouble`): the double nearest to the integer, ties to even
    (`FloatRound.roundRat i 1`: `Props/FloatRound.lean` proves it exact on representable integers, nearest,
    monotone); `OverflowError` when the rounded value is `2^1024` or more, i.e. from `2^1024 - 2^970` on -/
def toFloat (i : Int) : Except Err UInt64 :=
  match FloatRound.floatOfInt i with
  | some w => .ok w
  | none => .error .overflow

/-- C `fmod(x, y)` for `y` not zero: exact, sign of `x` -/
def fmodBits (x y : UInt64) : UInt64 :=
  match decode x, decode y with
  | .nan, _ => qnan
  | _, .nan => qnan
  | .ninf, _ => qnan
  | .pinf, _ => qnan
  | .fin _, .ninf => x
  | .fin _, .pinf => x
  | .fin a, .fin b => encodeScaled (signBit x) (a.natAbs % b.natAbs)

/-- the four IEEE operations on doubles: parameters of the model -/
structure FloatOps where
  add : UInt64 → UInt64 → UInt64
  sub : UInt64 → UInt64 → UInt64
  mul : UInt64 → UInt64 → UInt64
  div : UInt64 → UInt64 → UInt64

/-- CPython `float_rem` -/
def pyFloatMod (F : FloatOps) (x y : UInt64) : Except Err UInt64 :=
  if isZeroBits y then .error .zeroDivision
  else
    let m := fmodBits x y
    if !isZeroBits m then
      -- ensure the remainder has the same sign as the denominator
      if Ext.lt (decode y) (.fin 0) != Ext.lt (decode m) (.fin 0) then .ok (F.add m y) else .ok m
    else
      .ok (if signBit y then 0x8000000000000000 else 0)

/-- CPython `float_div` -/
def pyFloatDiv (F : FloatOps) (x y : UInt64) : Except Err UInt64 :=
  if isZeroBits y then .error .zeroDivision else .ok (F.div x y)

/-! ### numbers -/

inductive Num where
  | int (i : Int)
  | flt (w : UInt64)
deriving Repr, DecidableEq, Inhabited

/-- what `yaqltypes.Number()` lets through: int or float, not bool -/
def asNum : SVal → Option Num
  | .int i => some (.int i)
  | .flt w => some (.flt w)
  | _ => none

def Num.toSVal : Num → SVal
  | .int i => .int i
  | .flt w => .flt w

def Num.ext : Num → Ext
  | .int i => extOfInt i
  | .flt w => decode w

/-- `CONVERT_TO_DOUBLE` -/
def Num.toF : Num → Except Err UInt64
  | .int i => toFloat i
  | .flt w => .ok w

inductive AOp where
  | add | sub | mul | div | mod
deriving Repr, DecidableEq, Inhabited

def floatArith (F : FloatOps) : AOp → UInt64 → UInt64 → Except Err UInt64
  | .add, x, y => .ok (F.add x y)
  | .sub, x, y => .ok (F.sub x y)
  | .mul, x, y => .ok (F.mul x y)
  | .div, x, y => pyFloatDiv F x y
  | .mod, x, y => pyFloatMod F x y

/-- `left OP right` of two python numbers (math.py: `/` is `//` when both are ints) -/
def arith (F : FloatOps) : AOp → Num → Num → Except Err SVal
  | .add, .int a, .int b => .ok (.int (a + b))
  | .sub, .int a, .int b => .ok (.int (a - b))
  | .mul, .int a, .int b => .ok (.int (a * b))
  | .div, .int a, .int b => if b = 0 then .error .zeroDivision else .ok (.int (a.fdiv b))
  | .mod, .int a, .int b => if b = 0 then .error .zeroDivision else .ok (.int (a.fmod b))
  | op, x, y =>
    match x.toF with
    | .error e => .error e
    | .ok fx =>
      match y.toF with
      | .error e => .error e
      | .ok fy =>
        match floatArith F op fx fy with
        | .ok w => .ok (.flt w)
        | .error e => .error e

def negNum : Num → SVal
  | .int i => .int (-i)
  | .flt w => .flt (negBits w)

/-! ### strings -/

def strLt : List Char → List Char → Bool
  | [], [] => false
  | [], _ :: _ => true
  | _ :: _, [] => false
  | a :: as, b :: bs =>
    if a.toNat < b.toNat then true else if b.toNat < a.toNat then false else strLt as bs

def strLe : List Char → List Char → Bool
  | [], _ => true
  | _ :: _, [] => false
  | a :: as, b :: bs =>
    if a.toNat < b.toNat then true else if b.toNat < a.toNat then false else strLe as bs

def isPrefix : List Char → List Char → Bool
  | [], _ => true
  | _ :: _, [] => false
  | a :: as, b :: bs => a == b && isPrefix as bs

/-- `left in right` of two python strings -/
def isInfix (p : List Char) : List Char → Bool
  | [] => p.isEmpty
  | c :: r => isPrefix p (c :: r) || isInfix p r

def ssizeMax : Int := 2 ^ 63 - 1

def replicateStr (s : List Char) : Nat → List Char
  | 0 => []
  | n + 1 => s ++ replicateStr s n

/-- `left * right` of a python string and a python int (`unicode_repeat` behind `sequence_repeat`);
    `cap` = number of characters the allocator can provide (a parameter of the model) -/
def repeatStr (cap : Nat) (s : List Char) (n : Int) : Except Err SVal :=
  if n > ssizeMax || n < -ssizeMax - 1 then .error .overflow      -- cannot fit 'int' into an index-sized integer
  else if n < 1 then .ok (.str [])
  else if n = 1 then .ok (.str s)
  else if (s.length : Int) > ssizeMax / n then .error .overflow   -- repeated string is too long
  else if s.length * n.toNat > cap then .error .memory
  else if s.isEmpty then .ok (.str [])                           -- PyUnicode_New(0, ..)
  else .ok (.str (replicateStr s n.toNat))

/-! ### truth value and python equality -/

def truthy : SVal → Bool
  | .null => false
  | .bool b => b
  | .int i => i != 0
  | .flt w => !isZeroBits w
  | .str s => !s.isEmpty

/-- python numbers in the wide sense (`bool` is a subclass of `int`): what `==` compares -/
def numView : SVal → Option Ext
  | .bool b => some (extOfInt (if b then 1 else 0))
  | .int i => some (extOfInt i)
  | .flt w => some (decode w)
  | _ => none

/-- python `left == right` -/
def pyEq : SVal → SVal → Bool
  | .null, .null => true
  | .str s, .str t => decide (s = t)
  | a, b =>
    match numView a, numView b with
    | some x, some y => Ext.eq x y
    | _, _ => false

/-! ### the registered overloads -/

/-- the payload functions -/
inductive Impl where
  | mathPlus | mathMinus | mathMul | mathDiv | mathMod | mathUPlus | mathUMinus
  | mathGt | mathGte | mathLt | mathLte
  | strGt | strGte | strLt | strLte | strConcat | strByInt | intByStr | strIn
  | leftLtNull | leftLteNull | leftGtNull | leftGteNull
  | nullLtRight | nullLteRight | nullGtRight | nullGteRight
  | nullLtNull | nullLteNull | nullGtNull | nullGteNull
  | eq | neq | and | or | not
deriving Repr, DecidableEq, Inhabited

/-- one registered function: name, payload (`module.function`), the kinds each positional
    parameter accepts, the kinds a `*args` parameter accepts -/
structure Overload where
  name : List Char
  payload : List Char
  impl : Impl
  params : List (List Kind)
  star : Option (List Kind)
deriving Repr, DecidableEq, Inhabited

def kNumber : List Kind := [.int, .float]          -- yaqltypes.Number()
def kInteger : List Kind := [.int]                 -- yaqltypes.Integer()
def kString : List Kind := [.str]                  -- yaqltypes.String()
def kNone : List Kind := [.null]                   -- PythonType(NoneType, nullable=True)
def kNotNull : List Kind := [.bool, .int, .float, .str]   -- PythonType(object, nullable=False)
def kAny : List Kind := [.null, .bool, .int, .float, .str]  -- PythonType(object) / Lambda()

def overloads : List Overload := [
  { name := ['#','o','p','e','r','a','t','o','r','_','*'], payload := ['m','a','t','h','.','m','u','l','t','i','p','l','i','c','a','t','i','o','n'], impl := .mathMul, params := [kNumber, kNumber], star := none },
  { name := ['#','o','p','e','r','a','t','o','r','_','*'], payload := ['s','t','r','i','n','g','s','.','i','n','t','_','b','y','_','s','t','r','i','n','g'], impl := .intByStr, params := [kInteger, kString], star := none },
  { name := ['#','o','p','e','r','a','t','o','r','_','*'], payload := ['s','t','r','i','n','g','s','.','s','t','r','i','n','g','_','b','y','_','i','n','t'], impl := .strByInt, params := [kString, kInteger], star := none },
  { name := ['#','o','p','e','r','a','t','o','r','_','+'], payload := ['m','a','t','h','.','b','i','n','a','r','y','_','p','l','u','s'], impl := .mathPlus, params := [kNumber, kNumber], star := none },
  { name := ['#','o','p','e','r','a','t','o','r','_','+'], payload := ['s','t','r','i','n','g','s','.','c','o','n','c','a','t'], impl := .strConcat, params := [], star := some kString },
  { name := ['#','o','p','e','r','a','t','o','r','_','-'], payload := ['m','a','t','h','.','b','i','n','a','r','y','_','m','i','n','u','s'], impl := .mathMinus, params := [kNumber, kNumber], star := none },
  { name := ['#','o','p','e','r','a','t','o','r','_','/'], payload := ['m','a','t','h','.','d','i','v','i','s','i','o','n'], impl := .mathDiv, params := [kNumber, kNumber], star := none },
  { name := ['#','o','p','e','r','a','t','o','r','_','<'], payload := ['c','o','m','m','o','n','.','l','e','f','t','_','l','t','_','n','u','l','l'], impl := .leftLtNull, params := [kNotNull, kNone], star := none },
  { name := ['#','o','p','e','r','a','t','o','r','_','<'], payload := ['c','o','m','m','o','n','.','n','u','l','l','_','l','t','_','n','u','l','l'], impl := .nullLtNull, params := [kNone, kNone], star := none },
  { name := ['#','o','p','e','r','a','t','o','r','_','<'], payload := ['c','o','m','m','o','n','.','n','u','l','l','_','l','t','_','r','i','g','h','t'], impl := .nullLtRight, params := [kNone, kNotNull], star := none },
  { name := ['#','o','p','e','r','a','t','o','r','_','<'], payload := ['m','a','t','h','.','l','t'], impl := .mathLt, params := [kNumber, kNumber], star := none },
  { name := ['#','o','p','e','r','a','t','o','r','_','<'], payload := ['s','t','r','i','n','g','s','.','l','t'], impl := .strLt, params := [kString, kString], star := none },
  { name := ['#','o','p','e','r','a','t','o','r','_','<','='], payload := ['c','o','m','m','o','n','.','l','e','f','t','_','l','t','e','_','n','u','l','l'], impl := .leftLteNull, params := [kNotNull, kNone], star := none },
  { name := ['#','o','p','e','r','a','t','o','r','_','<','='], payload := ['c','o','m','m','o','n','.','n','u','l','l','_','l','t','e','_','n','u','l','l'], impl := .nullLteNull, params := [kNone, kNone], star := none },
  { name := ['#','o','p','e','r','a','t','o','r','_','<','='], payload := ['c','o','m','m','o','n','.','n','u','l','l','_','l','t','e','_','r','i','g','h','t'], impl := .nullLteRight, params := [kNone, kNotNull], star := none },
  { name := ['#','o','p','e','r','a','t','o','r','_','<','='], payload := ['m','a','t','h','.','l','t','e'], impl := .mathLte, params := [kNumber, kNumber], star := none },
  { name := ['#','o','p','e','r','a','t','o','r','_','<','='], payload := ['s','t','r','i','n','g','s','.','l','t','e'], impl := .strLte, params := [kString, kString], star := none },
  { name := ['#','o','p','e','r','a','t','o','r','_','>'], payload := ['c','o','m','m','o','n','.','l','e','f','t','_','g','t','_','n','u','l','l'], impl := .leftGtNull, params := [kNotNull, kNone], star := none },
  { name := ['#','o','p','e','r','a','t','o','r','_','>'], payload := ['c','o','m','m','o','n','.','n','u','l','l','_','g','t','_','n','u','l','l'], impl := .nullGtNull, params := [kNone, kNone], star := none },
  { name := ['#','o','p','e','r','a','t','o','r','_','>'], payload := ['c','o','m','m','o','n','.','n','u','l','l','_','g','t','_','r','i','g','h','t'], impl := .nullGtRight, params := [kNone, kNotNull], star := none },
  { name := ['#','o','p','e','r','a','t','o','r','_','>'], payload := ['m','a','t','h','.','g','t'], impl := .mathGt, params := [kNumber, kNumber], star := none },
  { name := ['#','o','p','e','r','a','t','o','r','_','>'], payload := ['s','t','r','i','n','g','s','.','g','t'], impl := .strGt, params := [kString, kString], star := none },
  { name := ['#','o','p','e','r','a','t','o','r','_','>','='], payload := ['c','o','m','m','o','n','.','l','e','f','t','_','g','t','e','_','n','u','l','l'], impl := .leftGteNull, params := [kNotNull, kNone], star := none },
  { name := ['#','o','p','e','r','a','t','o','r','_','>','='], payload := ['c','o','m','m','o','n','.','n','u','l','l','_','g','t','e','_','n','u','l','l'], impl := .nullGteNull, params := [kNone, kNone], star := none },
  { name := ['#','o','p','e','r','a','t','o','r','_','>','='], payload := ['c','o','m','m','o','n','.','n','u','l','l','_','g','t','e','_','r','i','g','h','t'], impl := .nullGteRight, params := [kNone, kNotNull], star := none },
  { name := ['#','o','p','e','r','a','t','o','r','_','>','='], payload := ['m','a','t','h','.','g','t','e'], impl := .mathGte, params := [kNumber, kNumber], star := none },
  { name := ['#','o','p','e','r','a','t','o','r','_','>','='], payload := ['s','t','r','i','n','g','s','.','g','t','e'], impl := .strGte, params := [kString, kString], star := none },
  { name := ['#','o','p','e','r','a','t','o','r','_','a','n','d'], payload := ['b','o','o','l','e','a','n','.','a','n','d','_'], impl := .and, params := [kAny, kAny], star := none },
  { name := ['#','o','p','e','r','a','t','o','r','_','i','n'], payload := ['s','t','r','i','n','g','s','.','i','n','_'], impl := .strIn, params := [kString, kString], star := none },
  { name := ['#','o','p','e','r','a','t','o','r','_','m','o','d'], payload := ['m','a','t','h','.','m','o','d','u','l','o'], impl := .mathMod, params := [kNumber, kNumber], star := none },
  { name := ['#','o','p','e','r','a','t','o','r','_','o','r'], payload := ['b','o','o','l','e','a','n','.','o','r','_'], impl := .or, params := [kAny, kAny], star := none },
  { name := ['#','u','n','a','r','y','_','o','p','e','r','a','t','o','r','_','+'], payload := ['m','a','t','h','.','u','n','a','r','y','_','p','l','u','s'], impl := .mathUPlus, params := [kNumber], star := none },
  { name := ['#','u','n','a','r','y','_','o','p','e','r','a','t','o','r','_','-'], payload := ['m','a','t','h','.','u','n','a','r','y','_','m','i','n','u','s'], impl := .mathUMinus, params := [kNumber], star := none },
  { name := ['#','u','n','a','r','y','_','o','p','e','r','a','t','o','r','_','n','o','t'], payload := ['b','o','o','l','e','a','n','.','n','o','t','_'], impl := .not, params := [kAny], star := none },
  { name := ['*','e','q','u','a','l'], payload := ['c','o','m','m','o','n','.','e','q'], impl := .eq, params := [kAny, kAny], star := none },
  { name := ['*','n','o','t','_','e','q','u','a','l'], payload := ['c','o','m','m','o','n','.','n','e','q'], impl := .neq, params := [kAny, kAny], star := none }
]

def accepts (ks : List Kind) (k : Kind) : Bool := ks.contains k

/-- do the parameter types accept operands of these kinds (positional parameters one to one,
    a `*args` parameter all the rest; none of these functions has defaults) -/
def matchKinds : List (List Kind) → Option (List Kind) → List Kind → Bool
  | [], none, [] => true
  | [], some st, ks => ks.all (accepts st)
  | p :: ps, st, k :: ks => accepts p k && matchKinds ps st ks
  | _, _, _ => false

def candidates (name : List Char) (ks : List Kind) : List Overload :=
  overloads.filter fun o => o.name == name && matchKinds o.params o.star ks

/-- `runner.choose_overload` on eager, already evaluated operands -/
def select (name : List Char) (ks : List Kind) : Except Err Impl :=
  match candidates name ks with
  | [] => .error .noMatching
  | [o] => .ok o.impl
  | _ => .error .ambiguous

def numCmp (f : Ext → Ext → Bool) (a b : SVal) : Except Err SVal :=
  match asNum a, asNum b with
  | some x, some y => .ok (.bool (f x.ext y.ext))
  | _, _ => .error .internal

def numArith (F : FloatOps) (op : AOp) (a b : SVal) : Except Err SVal :=
  match asNum a, asNum b with
  | some x, some y => arith F op x y
  | _, _ => .error .internal

def strCmp (f : List Char → List Char → Bool) (a b : SVal) : Except Err SVal :=
  match a, b with
  | .str s, .str t => .ok (.bool (f s t))
  | _, _ => .error .internal

def const2 (r : Bool) : List SVal → Except Err SVal
  | [_, _] => .ok (.bool r)
  | _ => .error .internal

def concatStrs : List SVal → Except Err (List Char)
  | [] => .ok []
  | .str s :: r =>
    match concatStrs r with
    | .ok t => .ok (s ++ t)
    | .error e => .error e
  | _ :: _ => .error .internal

/-- the payloads -/
def run (F : FloatOps) (cap : Nat) : Impl → List SVal → Except Err SVal
  | .mathPlus, [a, b] => numArith F .add a b
  | .mathMinus, [a, b] => numArith F .sub a b
  | .mathMul, [a, b] => numArith F .mul a b
  | .mathDiv, [a, b] => numArith F .div a b
  | .mathMod, [a, b] => numArith F .mod a b
  | .mathUPlus, [a] => match asNum a with | some x => .ok x.toSVal | none => .error .internal
  | .mathUMinus, [a] => match asNum a with | some x => .ok (negNum x) | none => .error .internal
  | .mathGt, [a, b] => numCmp (fun x y => Ext.lt y x) a b
  | .mathGte, [a, b] => numCmp (fun x y => Ext.le y x) a b
  | .mathLt, [a, b] => numCmp Ext.lt a b
  | .mathLte, [a, b] => numCmp Ext.le a b
  | .strGt, [a, b] => strCmp (fun s t => strLt t s) a b
  | .strGte, [a, b] => strCmp (fun s t => strLe t s) a b
  | .strLt, [a, b] => strCmp strLt a b
  | .strLte, [a, b] => strCmp strLe a b
  | .strConcat, args => match concatStrs args with | .ok s => .ok (.str s) | .error e => .error e
  | .strByInt, [.str s, .int n] => repeatStr cap s n
  | .intByStr, [.int n, .str s] => repeatStr cap s n
  | .strIn, [.str s, .str t] => .ok (.bool (isInfix s t))
  | .leftLtNull, args => const2 false args
  | .leftLteNull, args => const2 false args
  | .leftGtNull, args => const2 true args
  | .leftGteNull, args => const2 true args
  | .nullLtRight, args => const2 true args
  | .nullLteRight, args => const2 true args
  | .nullGtRight, args => const2 false args
  | .nullGteRight, args => const2 false args
  | .nullLtNull, args => const2 false args
  | .nullLteNull, args => const2 true args
  | .nullGtNull, args => const2 false args
  | .nullGteNull, args => const2 true args
  | .eq, [a, b] => .ok (.bool (pyEq a b))
  | .neq, [a, b] => .ok (.bool (!pyEq a b))
  | .and, [a, b] => .ok (if truthy a then b else a)
  | .or, [a, b] => .ok (if truthy a then a else b)
  | .not, [a] => .ok (.bool (!truthy a))
  | _, _ => .error .internal

/-- calling the function `name` with evaluated scalar operands -/
def call (F : FloatOps) (cap : Nat) (name : List Char) (args : List SVal) : Except Err SVal :=
  match select name (args.map kindOf) with
  | .ok impl => run F cap impl args
  | .error e => .error e

/-! ### the operators of the default engine (`factory._standard_operators`) -/

inductive BinOp where
  | mul | div | mod | add | sub | gt | lt | ge | le | ne | eq | isIn | and | or
deriving Repr, DecidableEq, Inhabited

inductive UnOp where
  | pos | neg | not
deriving Repr, DecidableEq, Inhabited

def BinOp.fname : BinOp → List Char
  | .mul => ['#','o','p','e','r','a','t','o','r','_','*']
  | .div => ['#','o','p','e','r','a','t','o','r','_','/']
  | .mod => ['#','o','p','e','r','a','t','o','r','_','m','o','d']
  | .add => ['#','o','p','e','r','a','t','o','r','_','+']
  | .sub => ['#','o','p','e','r','a','t','o','r','_','-']
  | .gt => ['#','o','p','e','r','a','t','o','r','_','>']
  | .lt => ['#','o','p','e','r','a','t','o','r','_','<']
  | .ge => ['#','o','p','e','r','a','t','o','r','_','>','=']
  | .le => ['#','o','p','e','r','a','t','o','r','_','<','=']
  | .ne => ['*','n','o','t','_','e','q','u','a','l']
  | .eq => ['*','e','q','u','a','l']
  | .isIn => ['#','o','p','e','r','a','t','o','r','_','i','n']
  | .and => ['#','o','p','e','r','a','t','o','r','_','a','n','d']
  | .or => ['#','o','p','e','r','a','t','o','r','_','o','r']

def UnOp.fname : UnOp → List Char
  | .pos => ['#','u','n','a','r','y','_','o','p','e','r','a','t','o','r','_','+']
  | .neg => ['#','u','n','a','r','y','_','o','p','e','r','a','t','o','r','_','-']
  | .not => ['#','u','n','a','r','y','_','o','p','e','r','a','t','o','r','_','n','o','t']

/-- `$a OP $b` -/
def evalBin (F : FloatOps) (cap : Nat) (op : BinOp) (a b : SVal) : Except Err SVal :=
  call F cap op.fname [a, b]

/-- `OP $a` -/
def evalUn (F : FloatOps) (cap : Nat) (op : UnOp) (a : SVal) : Except Err SVal :=
  call F cap op.fname [a]

/-- the same on `Yaql.Value`s, for the models that embed scalars (`none`: an operand is not a scalar) -/
def evalBinV (F : FloatOps) (cap : Nat) (op : BinOp) (a b : Value) : Option (Except Err Value) :=
  match ofValue? a, ofValue? b with
  | some x, some y => some ((evalBin F cap op x y).map SVal.toValue)
  | _, _ => none

end Yaql.Scalar
