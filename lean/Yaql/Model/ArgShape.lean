/-!
The readable rule for argument lists (C12, parser half; proved equal to the grammar condition of the
parser model in `Yaql/Props/C12Args.lean`): an argument list is a list of *slots* - a value (`pos`),
nothing (`empty`, the slot between two commas: `utils.NO_VALUE`) or `name => value` (`named`).
-/
namespace Yaql.ArgShape

inductive Slot where
  | pos | empty | named
deriving DecidableEq, Repr

/-- state of the readable rule while reading the positional part: nothing read yet; last slot was a
value; one empty slot after a value; anything else (a named slot may not start here) -/
inductive Gap where
  | start | afterValue | valueEmpty | far
deriving DecidableEq, Repr

def Gap.next : Gap → Slot → Gap
  | _, .pos => .afterValue
  | .afterValue, .empty => .valueEmpty
  | _, _ => .far

def Gap.namedMayStart : Gap → Bool
  | .far => false
  | _ => true

/-- the named tail: only named slots -/
def allNamed : List Slot → Bool
  | [] => true
  | .named :: r => allNamed r
  | _ => false

/-- the readable rule on a non-empty slot list, read from gap state `g` -/
def shapeFrom : Gap → List Slot → Bool
  | _, [] => false
  | _, [.pos] => true
  | _, [.empty] => false
  | g, .named :: r => g.namedMayStart && allNamed r
  | g, s :: r => shapeFrom (g.next s) r

def shapeOK (ss : List Slot) : Bool := ss.isEmpty || shapeFrom .start ss

end Yaql.ArgShape
