import Yaql.Model.Convert
/-!
The public entry points through which a host obtains a result from yaql (C08: "no collection with more than N elements
appears at any depth of a RESULT" - whichever way the result is handed over):

* `evaluate ci`  - `engine(expr).evaluate(data=.., context=..)` (and `yaql.eval`); the data is converted on the way in
                   iff `yaql.convertInputData` (`ci`); the result goes through `#finalize` = `convert_output_data` with the
                   `#iter` limiter (`yaql/__init__.py`)
* `ifaceExpr`    - `YaqlInterface(context, engine)(expr, *args, **kwargs)`: the arguments are always converted, the
                   result goes through `convert_output_data` once more (`yaql_interface.py: __call__`)
* `stub`         - `yaql_interface.<function>(*args, **kwargs)`: arguments converted, the raw result of the delegate
                   - an iterator for most of the query library - goes through `convert_output_data` (`__getattr__`)
* `stubOn`       - `yaql_interface.on(receiver).<method>(*args)`: the same with a receiver (handed over as it is)

`deliver` is what the host gets for a raw result; `limitTop` is the (insufficient) alternative that only wraps the top
level into the counting generator / checks the top-level length.
-/
namespace Yaql.Entry
open Yaql.Convert

inductive Entry where
  | evaluate (convertInput : Bool)
  | ifaceExpr
  | stub
  | stubOn
deriving DecidableEq, Repr

/-- how a host value handed over as data / argument reaches the evaluation -/
def Entry.input : Entry → Py → Py
  | .evaluate false, v => v
  | _, v => convIn v

/-- how the receiver of `on(receiver)` reaches the method: untouched -/
def Entry.receiver (_ : Entry) (v : Py) : Py := v

/-- what the host gets for the raw result `r`: every entry point runs the whole finaliser over it -/
def deliver (_ : Entry) (o : Opts) (lim : Limit) (r : Py) : Except Err Py := convOut o lim r

/-- a host function `f` (identity, a library function, ..) called through the entry point on the host value `x` -/
def call (e : Entry) (o : Opts) (lim : Limit) (f : Py → Py) (x : Py) : Except Err Py := deliver e o lim (f (e.input x))

/-- limiting the top level only (what a lazy hand-over of an iterator result amounts to): the length of a sized
    collection / the number of items of an iterator is checked, the elements are handed out as they are -/
def limitTop (lim : Limit) : Py → Except Err Py
  | .sc s => .ok (.sc s)
  | .seq k l => if lim.admits l.length then .ok (.seq k l) else .error .tooLarge
  | .map k kvs => if lim.admits kvs.length then .ok (.map k kvs) else .error .tooLarge

end Yaql.Entry
