import Lean.Data.Json
/-! JSON helpers shared by the per-property driver modules. -/
namespace Yaql.Drv
open Lean

def jstr (j : Json) (k : String) : String := (j.getObjValAs? String k).toOption.getD ""
def jnat (j : Json) (k : String) : Nat := (j.getObjValAs? Nat k).toOption.getD 0
def jint (j : Json) (k : String) : Int := (j.getObjValAs? Int k).toOption.getD 0
def jbool (j : Json) (k : String) : Bool := (j.getObjValAs? Bool k).toOption.getD false
def jarr (j : Json) (k : String) : List Json :=
  match j.getObjVal? k with
  | .ok (.arr a) => a.toList
  | _ => []
def jget (j : Json) (k : String) : Json := (j.getObjVal? k).toOption.getD .null
def jhas (j : Json) (k : String) : Bool := (j.getObjVal? k).toOption.isSome
def jisNull (j : Json) : Bool := match j with | .null => true | _ => false
def jnatOpt (j : Json) (k : String) : Option Nat := (j.getObjValAs? Nat k).toOption
def jintOpt (j : Json) (k : String) : Option Int := (j.getObjValAs? Int k).toOption
def asNat (j : Json) : Nat := (j.getNat?).toOption.getD 0
def asInt (j : Json) : Int := (j.getInt?).toOption.getD 0
def asStr (j : Json) : String := (j.getStr?).toOption.getD ""
def asArr (j : Json) : List Json := match j with | .arr a => a.toList | _ => []
def asBool (j : Json) : Bool := (j.getBool?).toOption.getD false

def jl (l : List Json) : Json := .arr l.toArray
def jo (l : List (String × Json)) : Json := Json.mkObj l
def jn (n : Nat) : Json := toJson n
def ji (n : Int) : Json := toJson n
def js (s : String) : Json := .str s
def jb (b : Bool) : Json := .bool b
def jerr (msg : String) : Json := jo [("err", js msg)]

end Yaql.Drv
