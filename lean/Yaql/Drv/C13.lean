import Yaql.Drv.Util
import Yaql.Drv.ValueJson
import Yaql.Model.SeqRun
/-! Driver for C13: runs pipelines of collection / query functions on the model.
request  {"p":"C13","cases":[{"data":<value>,"ops":[{"op":"where","l":<lam>}, ...]}, ...]}
reply    {"res":[{"ok":<value>} | {"err":"<class>"}, ...]} -/
namespace Yaql.Drv.C13
open Lean Yaql Yaql.Drv Yaql.Seq

def errName : Err → String
  | .noFunction => "NoMatchingFunctionException"
  | .noMethod => "NoMatchingMethodException"
  | .unknownFunction => "NoFunctionRegisteredException"
  | .key => "KeyError"
  | .index => "IndexError"
  | .zeroDiv => "ZeroDivisionError"
  | .type => "TypeError"
  | .stopIteration => "StopIteration"
  | .value => "ValueError"
  | .attribute => "AttributeError"
  | .sortMixed => "*"
  | .ambiguous => "AmbiguousMethodException"
  | .tooLarge => "CollectionTooLargeException"
  | .wrappedStop => "WrappedException"
  | .unknownMethod => "NoMethodRegisteredException"
  | .outOfDomain => "OOD"

def chars (j : Json) : List Char := (asStr j).toList

/-- optional constant inside a lambda: JSON array `[]` = not given, `[v]` = given -/
def optConst (j : Json) : Option Value :=
  match asArr j with
  | [v] => some (valOfJson v)
  | _ => none

partial def lamOfJson (j : Json) : Lam :=
  match asArr j with
  | [t] => if asStr t == "arg" then .arg else .arg
  | [t, a] =>
    match asStr t with
    | "const" => .const (valOfJson a)
    | "not" => .not (lamOfJson a)
    | "len" => .len (lamOfJson a)
    | "single" => .single (lamOfJson a)
    | "sum" => .sum (lamOfJson a)
    | "range" => .rangeOf (lamOfJson a)
    | "str" => .strOf (lamOfJson a)
    | "half" => .half (lamOfJson a)
    | _ => .arg
  | [t, a, b] =>
    match asStr t with
    | "add" => .add (lamOfJson a) (asInt b)
    | "mul" => .mul (lamOfJson a) (asInt b)
    | "mod" => .mod (lamOfJson a) (asInt b)
    | "gt" => .gt (lamOfJson a) (asInt b)
    | "eq" => .eq (lamOfJson a) (valOfJson b)
    | "member" => .member (lamOfJson a) (chars b)
    | "index" => .index (lamOfJson a) (asInt b)
    | "pair" => .pair (lamOfJson a) (lamOfJson b)
    | "first" => .first (lamOfJson a) (optConst b)
    | "last" => .last (lamOfJson a) (optConst b)
    | "where" => .whereIn (lamOfJson a) (lamOfJson b)
    | "select" => .selectIn (lamOfJson a) (lamOfJson b)
    | "take" => .takeIn (lamOfJson a) (asInt b)
    | _ => .arg
  | _ => .arg

def lam2OfJson (j : Json) : Lam2 :=
  match asArr j with
  | [t] =>
    match asStr t with
    | "fst" => .fst | "snd" => .snd | "plus" => .plus | "gt" => .gt | "eq" => .eq
    | "pair" => .pair | "max" => .maxOf | _ => .fst
  | [t, a] =>
    match asStr t with
    | "const" => .const (valOfJson a)
    | "on1" => .on1 (lamOfJson a)
    | "on2" => .on2 (lamOfJson a)
    | "plusOn" => .plusOn (lamOfJson a)
    | _ => .fst
  | _ => .fst

def optLamJ (j : Json) (k : String) : Option Lam := if jhas j k && !jisNull (jget j k) then some (lamOfJson (jget j k)) else none
def optLam2J (j : Json) (k : String) : Option Lam2 := if jhas j k && !jisNull (jget j k) then some (lam2OfJson (jget j k)) else none
def optIntJ (j : Json) (k : String) : Option Int := if jhas j k && !jisNull (jget j k) then some (jint j k) else none
/-- optional value: absent key = not given (JSON null = the value null) -/
def optValJ (j : Json) (k : String) : Option Value := if jhas j k then some (valOfJson (jget j k)) else none
def valsJ (j : Json) (k : String) : List Value := (jarr j k).map valOfJson
def valssJ (j : Json) (k : String) : List (List Value) := (jarr j k).map fun a => (asArr a).map valOfJson
def kvJ (j : Json) (k : String) : Seq.KV := match valOfJson (jget j k) with | .dict d => d | _ => []

def opOfJson (j : Json) : Option Op :=
  let l := lamOfJson (jget j "l")
  let n := jint j "n"
  let v := valOfJson (jget j "v")
  match jstr j "op" with
  | "where" => some (.where_ l) | "select" => some (.select l) | "attr" => some (.attr (chars (jget j "name")))
  | "skip" => some (.skip n) | "take" => some (.take n) | "append" => some (.append (valsJ j "vs"))
  | "distinct" => some (.distinct (optLamJ j "l")) | "enumerate" => some (.enumerate (optIntJ j "n"))
  | "any" => some (.any_ (optLamJ j "l")) | "all" => some (.all_ (optLamJ j "l"))
  | "concat" => some (.concat (valssJ j "vss")) | "len" => some .len | "count" => some .count
  | "memorize" => some .memorize
  | "sum" => some (.sum (optValJ j "v")) | "max" => some (.max_ (optValJ j "v")) | "min" => some (.min_ (optValJ j "v"))
  | "first" => some (.first (optValJ j "v")) | "single" => some .single | "last" => some (.last (optValJ j "v"))
  | "selectMany" => some (.selectMany l)
  | "range1" => some (.range1 n) | "range3" => some (.range3 n (jint j "m") (optIntJ j "k"))
  | "sequenceTake" => some (.sequenceTake (optIntJ j "m") (optIntJ j "k") n)
  | "orderBy" => some (.orderBy l) | "orderByDescending" => some (.orderByDescending l)
  | "thenBy" => some (.thenBy l) | "thenByDescending" => some (.thenByDescending l)
  | "groupBy" => some (.groupBy l (optLamJ j "l2") (optLamJ j "l3"))
  | "zip" => some (.zip (valssJ j "vss")) | "zipLongest" => some (.zipLongest (valssJ j "vss") (optValJ j "v"))
  | "join" => some (.join (valsJ j "vs") (lam2OfJson (jget j "f2")) (lam2OfJson (jget j "g2")))
  | "repeatTake" => some (.repeatTake (optIntJ j "m") (optIntJ j "n")) | "cycleTake" => some (.cycleTake n)
  | "takeWhile" => some (.takeWhile l) | "skipWhile" => some (.skipWhile l)
  | "indexOf" => some (.indexOf v) | "lastIndexOf" => some (.lastIndexOf v)
  | "indexWhere" => some (.indexWhere l) | "lastIndexWhere" => some (.lastIndexWhere l)
  | "slice" => some (.slice n) | "splitWhere" => some (.splitWhere l) | "sliceWhere" => some (.sliceWhere l)
  | "splitAt" => some (.splitAt n)
  | "aggregate" => some (.aggregate (lam2OfJson (jget j "f2")) (optValJ j "v"))
  | "accumulate" => some (.accumulate (lam2OfJson (jget j "f2")) (optValJ j "v"))
  | "reverse" => some .reverse
  | "mergeWith" => some (.mergeWith (kvJ j "kv") (optLam2J j "f2") (optLam2J j "g2") (jnat j "n"))
  | "isIterable" => some .isIterable | "defaultIfEmpty" => some (.defaultIfEmpty (valsJ j "vs"))
  | "generate" => some (.generate l (lamOfJson (jget j "l2")) (optLamJ j "l3") (jbool j "b") (jnat j "n"))
  | "generateManyTake" => some (.generateManyTake l (optLamJ j "l2") (jbool j "b") (jbool j "b2") n)
  | "list" => some .listFn | "flatten" => some .flatten | "toList" => some .toList
  | "listLit" => some (.listLit (valsJ j "vs"))
  | "dict" => some .dictFn | "toDict" => some (.toDict l (optLamJ j "l2"))
  | "index" => some (.index v) | "indexDflt" => some (.indexDflt v (valOfJson (jget j "w")))
  | "get" => some (.get v (optValJ j "w"))
  | "dictSet" => some (.dictSet v (valOfJson (jget j "w"))) | "dictSetMany" => some (.dictSetMany (kvJ j "kv"))
  | "dictSetInline" => some (.dictSetInline (kvJ j "kv"))
  | "keys" => some .keys | "values" => some .values | "items" => some .items
  | "in" => some (.inOp v) | "contains" => some (.contains v) | "containsKey" => some (.containsKey v)
  | "containsValue" => some (.containsValue v)
  | "plusRight" => some (.plusRight v) | "plusLeft" => some (.plusLeft v) | "timesInt" => some (.timesInt n)
  | "isList" => some .isList | "isDict" => some .isDict | "isSet" => some .isSet
  | "delete" => some (.delete (valsJ j "vs")) | "deleteAll" => some (.deleteAll (valsJ j "vs"))
  | "replace" => some (.replace n v (optIntJ j "m")) | "replaceMany" => some (.replaceMany n (valsJ j "vs") (optIntJ j "m"))
  | "insert" => some (.insert n v) | "insertMany" => some (.insertMany n (valsJ j "vs"))
  | "set" => some .setFn | "toSet" => some .toSet
  | "union" => some (.union (valsJ j "vs")) | "intersect" => some (.intersect (valsJ j "vs"))
  | "difference" => some (.difference (valsJ j "vs")) | "minus" => some (.minus (valsJ j "vs"))
  | "symmetricDifference" => some (.symmetricDifference (valsJ j "vs"))
  | "add" => some (.add (valsJ j "vs")) | "remove" => some (.remove (valsJ j "vs"))
  | "setCmp" => some (.setCmp (jnat j "n") (valsJ j "vs"))
  | "zipRoot" => some (.zipRoot ((jarr j "ns").map asInt))
  | "joinRoot" => some (.joinRoot (lam2OfJson (jget j "f2")) (lam2OfJson (jget j "g2")))
  | "concatRoot" => some (.concatRoot n)
  | "partialThenFull" => some (.partialThenFull n)
  | "unpack" => some (.unpack ((jarr j "names").map chars) (jnat j "n"))
  | _ => none

/-- `"opts":{"id":bool,"tl":bool,"sl":bool,"ci":bool,"lim":n|null,"co":bool}`: the options of the engine the statement belongs to -/
def optsOfJson (j : Json) : Opts :=
  { iterableDicts := jbool j "id", tuplesToLists := jbool j "tl", setsToLists := jbool j "sl", convertInput := jbool j "ci",
    limit := jnatOpt j "lim", convertOutput := !(jhas j "co") || jbool j "co",
    aggFallback := !(jhas j "af") || jbool j "af", noSets := jbool j "ns" }

/-- `"obs":{"shape":"letPair","u":<op>,"u2":<op>}`: the observing program around the pipeline's result -/
def obsOfJson (j : Json) : Option Obs := do
  let u ← opOfJson (jget j "u")
  match jstr j "shape" with
  | "letPair" => some (.letPair u)
  | "selPair" => some (.selPair u)
  | "memPair" => some (.memPair u)
  | "letTwice" => do let u2 ← opOfJson (jget j "u2"); some (.letTwice u u2)
  | "letChain" => do let u2 ← opOfJson (jget j "u2"); some (.letChain u u2)
  | _ => none

/-- `data` is the document in HOST form (lists, tuples, dicts, sets, a one-shot iterator): the model converts it itself
    when the engine does -/
def runCase (c : Json) : Json :=
  let data := valOfJson (jget c "data")
  let ops := (jarr c "ops").map opOfJson
  let opts := optsOfJson (jget c "opts")
  if ops.any Option.isNone then jerr "bad-op"
  else
    let binder := if jhas c "let" && !jisNull (jget c "let") then opOfJson (jget c "let") else none
    let r : Option (Seq.R Value) :=
      if jhas c "obs" && !jisNull (jget c "obs") then
        (obsOfJson (jget c "obs")).map fun obs => runObserve opts binder (ops.filterMap id) obs data
      else some (runPipeLet opts binder (ops.filterMap id) data)
    match r with
    | none => jerr "bad-op"
    | some (.ok v) => jo [("ok", valToJson v)]
    | some (.error e) => jo [("err", js (errName e))]

def handle (req : Json) : Json :=
  jo [("res", jl ((jarr req "cases").map runCase))]

end Yaql.Drv.C13
