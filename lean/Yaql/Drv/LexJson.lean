import Yaql.Drv.Util
import Yaql.Model.Lexer
import Std.Data.HashMap
import Std.Data.HashSet
/-!
JSON codec of the lexer model's configuration and results (shared by every driver that lexes:
C16, and later C01/C02/C03).  Python side: `harness/lexcfg.py`.

config  `{"ops":[[cp..]..], "idx":bool, "map":bool, "nvo":[cp..]|null, "names":[[[cp..], cp|null]..],
          "maxDigits":n, "word":[cp..], "digit":[[cp,val]..]}`
  `word` / `digit`: the code points (among those that occur in the request) for which Python's
  `re` `\w` / `\d` match, with `int(ch)` for the digits.  Everything not listed is neither.
token   `{"k":KIND, "s":[cp..]?, "v":VALUE, "p":lexpos}`; VALUE = null | {"t":[cp..]} | {"i":"123"} | {"f":"1.5"}
result  `{"ok":[token..]}` | `{"err":{"v":[cp..],"pos":n}}` | `{"surr":pos}`
-/
namespace Yaql.Drv.LexJson
open Lean Yaql.Drv Yaql.Lexer Yaql.Syntax

def cps (j : Json) : List Char := (asArr j).map fun c => Char.ofNat (asNat c)
def cpsJ (s : List Char) : Json := jl (s.map fun c => jn c.toNat)

/-- The character classes of a request.  The three definitions are *sanitised* so that the
hypotheses of `CharCfg` hold by construction whatever the request says; the harness checks that
the sanitising changes nothing for the classes Python reports (`lexcfg.check_hypotheses`). -/
def mkChars (word : Std.HashSet Nat) (digit : Std.HashMap Nat Nat) : CharCfg :=
  let fixed (c : Char) : Bool := nonWordChars.contains c
  let isD (c : Char) : Bool := !fixed c && c != '_' && (digit.get? c.toNat).isSome
  { isWord := fun c => !fixed c && (c == '_' || word.contains c.toNat || isD c),
    isDigit := isD,
    digitVal := fun c => (digit.getD c.toNat 0) % 10,
    digit_word := by intro c h; simp_all [isD],
    digit_lt := by intro c _; exact Nat.mod_lt _ (by decide),
    underscore_word := by
      have : ¬ '_' ∈ nonWordChars := by decide
      simp [fixed, this],
    underscore_nondigit := by simp [isD],
    nonword := by
      intro c h
      have : fixed c = true := by simpa [fixed] using h
      simp [this] }

def cfgOfJson (j : Json) : LexCfg :=
  let word : Std.HashSet Nat := (jarr j "word").foldl (fun s c => s.insert (asNat c)) {}
  let digit : Std.HashMap Nat Nat := (jarr j "digit").foldl (fun m p =>
    match asArr p with
    | [c, v] => m.insert (asNat c) (asNat v)
    | _ => m) {}
  let names : Std.HashMap (List Char) (Option Char) := (jarr j "names").foldl (fun m p =>
    match asArr p with
    | [n, v] => m.insert (cps n) (if jisNull v then none else some (Char.ofNat (asNat v)))
    | _ => m) {}
  let nvo := match jget j "nvo" with
    | .null => none
    | x => some (cps x)
  LexCfg.ofTable (mkChars word digit) ((jarr j "ops").map cps) (jbool j "idx") (jbool j "map") nvo
    (fun n => (names.get? n).getD none) (jnat j "maxDigits")

def kindJ : TokKind → List (String × Json)
  | .keyword => [("k", js "KEYWORD_STRING")]
  | .quoted => [("k", js "QUOTED_STRING")]
  | .number => [("k", js "NUMBER")]
  | .func => [("k", js "FUNC")]
  | .dollar => [("k", js "DOLLAR")]
  | .indexer => [("k", js "INDEXER")]
  | .map => [("k", js "MAP")]
  | .mapping => [("k", js "MAPPING")]
  | .true_ => [("k", js "TRUE")]
  | .false_ => [("k", js "FALSE")]
  | .null_ => [("k", js "NULL")]
  | .op s => [("k", js "OP"), ("s", cpsJ s)]
  | .lit c => [("k", js "LIT"), ("s", cpsJ [c])]

def valJ : TokVal → Json
  | .none => .null
  | .text s => jo [("t", cpsJ s)]
  | .int n => jo [("i", js (toString n))]
  | .flt l b => jo [("f", js (String.ofList l)), ("b", js (toString b.toNat))]

def tokJ (t : Token) : Json := jo (kindJ t.kind ++ [("v", valJ t.val), ("p", jn t.pos)])

def errJ : LexErr → Json
  | .lexical v p => jo [("err", jo [("v", cpsJ v), ("pos", jn p)])]
  | .surrogate p => jo [("surr", jn p)]

def resultJ : Except LexErr (List Token) → Json
  | .ok ts => jo [("ok", jl (ts.map tokJ))]
  | .error e => errJ e

def stepJ : TokStep → Json
  | .eof => jo [("eof", jb true)]
  | .tok t n => jo [("tok", tokJ t), ("next", jn n)]
  | .err e => errJ e

end Yaql.Drv.LexJson
