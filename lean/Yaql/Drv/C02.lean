import Yaql.Drv.Util
import Yaql.Model.Parser
import Yaql.Model.EngineHist
/-! Driver for C02 (and the parser part of C03).

`{"p":"C02","op":"table", "base":[records], "inserts":[...]}` replays `insert_operator` calls on an
operator list and returns the list after every call, the operator table and what
`_generate_operator_funcs` produces.

`{"p":"C02","op":"parse", "base":[records], "inserts":[...], "delegates":b, "cases":[[tokens]..]}`
parses token lists under that table: an S-expression or the grammar-error position.

records: `[]` (separator) | `[sym, type, alias|null]`; type in `PREFIX_UNARY SUFFIX_UNARY
BINARY_LEFT_ASSOCIATIVE BINARY_RIGHT_ASSOCIATIVE NAME_VALUE_PAIR`.
tokens: `{"k": kind, "s": symbol (op) / character (lit), "v": value, "p": lexpos}`; values are
`null | {"text":[code points]} | {"int":"decimal"} | {"flt":[code points]}`. -/
namespace Yaql.Drv.C02
open Lean Yaql.Drv Yaql.OpTable Yaql.Syntax

def strJ (s : Str) : Json := js (String.ofList s)
def optStrJ : Option Str → Json
  | none => .null
  | some s => strJ s
def cpsJ (s : List Char) : Json := jl (s.map fun c => jn c.toNat)
def cpsOf (j : Json) : List Char := (asArr j).map fun x => Char.ofNat (asNat x)

def optStrOf (j : Json) : Option Str :=
  match j with
  | .str s => some s.toList
  | _ => none

def tyOf : String → Option OpType
  | "PREFIX_UNARY" => some .prefixUnary
  | "SUFFIX_UNARY" => some .suffixUnary
  | "BINARY_LEFT_ASSOCIATIVE" => some .binaryLeft
  | "BINARY_RIGHT_ASSOCIATIVE" => some .binaryRight
  | "NAME_VALUE_PAIR" => some .nameValue
  | _ => none

def tyJ : OpType → Json
  | .prefixUnary => js "PREFIX_UNARY"
  | .suffixUnary => js "SUFFIX_UNARY"
  | .binaryLeft => js "BINARY_LEFT_ASSOCIATIVE"
  | .binaryRight => js "BINARY_RIGHT_ASSOCIATIVE"
  | .nameValue => js "NAME_VALUE_PAIR"

def recOf (j : Json) : Option Rec :=
  match asArr j with
  | [] => some .sep
  | sym :: ty :: rest =>
      match tyOf (asStr ty) with
      | some t => some (.op (asStr sym).toList t (match rest with | a :: _ => optStrOf a | [] => none))
      | none => none
  | _ => none

def recJ : Rec → Json
  | .sep => jl []
  | .op sym ty alias => jl [strJ sym, tyJ ty, optStrJ alias]

def opListJ (l : OpList) : Json := jl (l.map recJ)

structure Insert where
  existing : Option Str
  existingBinary : Bool
  sym : Str
  ty : OpType
  createGroup : Bool
  alias : Option Str

def insertOf (j : Json) : Option Insert :=
  match tyOf (jstr j "ty") with
  | some ty => some ⟨optStrOf (jget j "ex"), jbool j "bin", (jstr j "sym").toList, ty, jbool j "cg",
                     optStrOf (jget j "alias")⟩
  | none => none

/-- replays the inserts; the list after each call (`null` where `ValueError` was raised, list unchanged) -/
def replay (base : OpList) (ins : List Insert) : OpList × List Json :=
  let (l, out) := ins.foldl (init := (base, ([] : List Json))) fun (l, out) i =>
    match insertOperator l i.existing i.existingBinary i.sym i.ty i.createGroup i.alias with
    | .ok l' => (l', opListJ l' :: out)
    | .error _ => (l, Json.null :: out)
  (l, out.reverse)

def tableJ (t : Table) : Json :=
  jo [("ops", jl (t.ops.map fun (sym, r) => jl [strJ sym, ji r.up, ji r.bp, strJ r.name, optStrJ r.alias])),
      ("name_value_op", optStrJ t.nameValue)]

def generatedJ (g : Generated) : Json :=
  jo [("precedence", jl (g.precedence.map fun (l, names) => jl (js (if l then "left" else "right") :: names.map strJ))),
      ("binary_doc", strJ g.binaryDoc), ("unary_doc", strJ g.unaryDoc),
      ("aliases", jl (g.aliases.map fun (n, a) => jl [strJ n, optStrJ a]))]

def opListOfReq (req : Json) : Option (OpList × List Insert) :=
  let base := (jarr req "base").map recOf
  let ins := (jarr req "inserts").map insertOf
  if base.all Option.isSome && ins.all Option.isSome then
    some (base.filterMap id, ins.filterMap id)
  else none

/-! ### tokens and trees -/

def kindOf (j : Json) : Option TokKind :=
  match jstr j "k" with
  | "keyword" => some .keyword
  | "quoted" => some .quoted
  | "number" => some .number
  | "func" => some .func
  | "dollar" => some .dollar
  | "indexer" => some .indexer
  | "map" => some .map
  | "mapping" => some .mapping
  | "true" => some .true_
  | "false" => some .false_
  | "null" => some .null_
  | "op" => some (.op (jstr j "s").toList)
  | "lit" => match (jstr j "s").toList with
             | [c] => some (.lit c)
             | _ => none
  | _ => none

def kindJ : TokKind → Json
  | .keyword => js "keyword" | .quoted => js "quoted" | .number => js "number" | .func => js "func"
  | .dollar => js "dollar" | .indexer => js "indexer" | .map => js "map" | .mapping => js "mapping"
  | .true_ => js "true" | .false_ => js "false" | .null_ => js "null"
  | .op s => jl [js "op", strJ s] | .lit c => jl [js "lit", js (String.ofList [c])]

def valOf (j : Json) : TokVal :=
  if jhas j "text" then .text (cpsOf (jget j "text"))
  else if jhas j "int" then .int (jstr j "int").toNat!
  else if jhas j "flt" then .flt (cpsOf (jget j "flt")) (UInt64.ofNat ((jstr j "bits").toNat?.getD 0))
  else .none

def valJ : TokVal → Json
  | .none => .null
  | .text s => jo [("text", cpsJ s)]
  | .int n => jo [("int", js (toString n))]
  | .flt s b => jo [("flt", cpsJ s), ("bits", js (toString b.toNat))]

def tokOf (j : Json) : Option Token :=
  match kindOf j with
  | some k => some ⟨k, valOf (jget j "v"), jnat j "p"⟩
  | none => none

mutual
def astJ : Ast → Json
  | .const k v => jl [js "const", kindJ k, valJ v]
  | .keywordConst v => jl [js "kw", valJ v]
  | .getContextValue v => jl [js "ctx", valJ v]
  | .binary sym al l r => jl [js "bin", strJ sym, optStrJ al, astJ l, astJ r]
  | .unary sym al a => jl [js "un", strJ sym, optStrJ al, astJ a]
  | .index b as => jl (js "index" :: astJ b :: astsJ as)
  | .list as => jl (js "list" :: astsJ as)
  | .map as => jl (js "map" :: astsJ as)
  | .func n as => jl (js "func" :: valJ n :: astsJ as)
  | .call f as => jl (js "call" :: astJ f :: astsJ as)
  | .wrap e => jl [js "wrap", astJ e]
  | .mappingRule s d => jl [js "mr", astJ s, astJ d]
  | .noValue => js "NO_VALUE"
def astsJ : List Ast → List Json
  | [] => []
  | a :: as => astJ a :: astsJ as
end

def parseCase (c : Cfg) (j : Json) : Json :=
  let toks := (asArr j).map tokOf
  if toks.all Option.isSome then
    match parse c (toks.filterMap id) with
    | .ok t => jo [("ok", astJ t)]
    | .error (.grammar none) => jo [("grammar", .null)]
    | .error (.grammar (some p)) => jo [("grammar", jn p)]
  else jerr "bad token"

/-! ### host histories (`Model/EngineHist`): `{"op":"history","base":[..],"delegates":b,"hops":[{"op":"insert",..} |
{"op":"create"} | {"op":"copy","i":n}]}` -> the engines in creation order, each with its root and the operator list
it parses by, and the factory's list at the end -/

def hostOpOf (j : Json) : Option (Yaql.EngineHist.HostOp Unit) :=
  match jstr j "op" with
  | "insert" => (insertOf j).map fun i =>
      .insert ⟨i.existing, i.existingBinary, i.sym, i.ty, i.createGroup, i.alias⟩
  | "create" => some (.create ())
  | "copy" => some (.copy (jnat j "i") ())
  | _ => none

def historyJ (base : OpList) (delegates : Bool) (hops : List (Yaql.EngineHist.HostOp Unit)) : Json :=
  let w := Yaql.EngineHist.exec (fun _ _ => ()) { ops := base, delegates := delegates } hops
  jo [("engines", jl (w.engines.map fun e => jo [("root", jn e.root), ("snap", opListJ e.snap),
                                                 ("delegates", .bool e.delegates)])),
      ("operators", opListJ w.ops)]

def handle (req : Json) : Json :=
  match opListOfReq req with
  | none => jerr "bad operator record"
  | some (base, ins) =>
   if jstr req "op" == "history" then
    let hops := (jarr req "hops").map hostOpOf
    if hops.all Option.isSome then historyJ base (jbool req "delegates") (hops.filterMap id)
    else jerr "bad host operation"
   else
    let (ops, steps) := replay base ins
    match buildOperatorTable ops with
    | .error (.invalidOperatorTable sym) =>
        jo [("steps", jl steps), ("operators", opListJ ops), ("invalid_operator_table", strJ sym)]
    | .ok t =>
      match jstr req "op" with
      | "table" =>
          jo [("steps", jl steps), ("operators", opListJ ops), ("table", tableJ t),
              ("generated", generatedJ (generateOperatorFuncs t))]
      | "parse" =>
          let c := Cfg.ofTable t (jbool req "delegates")
          jo [("results", jl ((jarr req "cases").map (parseCase c)))]
      | o => jerr ("unknown op " ++ o)

end Yaql.Drv.C02
