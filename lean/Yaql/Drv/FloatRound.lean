import Yaql.Drv.Util
import Yaql.Model.FloatRound
/-! Driver for the shared float section (`harness/floatref.py`): runs `FloatRound.roundRat` / `divBits` /
`floatOfInt` on a corpus of rationals / bit patterns.

request `{"p":"FloatRound","rat":[["<num>","<den>"],..],"div":[["<xbits>","<ybits>"],..],"int":["<i>",..]}`
(integers as decimal strings); reply `{"rat":[r..],"div":["<bits>",..],"mul":["<bits>",..],"int":[r..],"hw":[..],"hwdiv":[..],"hwmul":[..]}` (`mul`: the product of the
same pairs, `mulBits`) with
`r = {"ok":"<bits>"} | {"ov":neg} | {"zd":true}`.  `hw` (a TEST, not part of the model): for the `rat` cases whose numerator
and denominator are below 2^53, and for every `div` case, the same quotient computed by the machine's doubles (Lean
`Float`) - the harness reports any difference between the model and the hardware. -/
namespace Yaql.Drv.FloatRound
open Lean Yaql.Drv Yaql.FloatRound

def parseInt (s : String) : Int :=
  if s.startsWith "-" then -((s.drop 1).toNat?.getD 0 : Nat) else ((s.toNat?.getD 0 : Nat) : Int)

def resJ : Rounded → Json
  | .ok w => jo [("ok", js (toString w.toNat))]
  | .overflow neg => jo [("ov", jb neg)]
  | .zeroDen => jo [("zd", jb true)]

def hwRat (n : Int) (d : Nat) : Json :=
  if n.natAbs < 2 ^ 53 && d < 2 ^ 53 && d != 0 then
    let q := Float.ofInt n / Float.ofNat d
    js (toString q.toBits.toNat)
  else .null

def handle (req : Json) : Json :=
  let rats := (jarr req "rat").map fun j =>
    match asArr j with
    | [n, d] => (parseInt (asStr n), (asStr d).toNat?.getD 0)
    | _ => (0, 0)
  let divs := (jarr req "div").map fun j =>
    match asArr j with
    | [x, y] => (UInt64.ofNat ((asStr x).toNat?.getD 0), UInt64.ofNat ((asStr y).toNat?.getD 0))
    | _ => (0, 0)
  let ints := (jarr req "int").map fun j => parseInt (asStr j)
  jo [("rat", jl (rats.map fun p => resJ (roundRat p.1 p.2))),
      ("hw", jl (rats.map fun p => hwRat p.1 p.2)),
      ("div", jl (divs.map fun p => js (toString (divBits p.1 p.2).toNat))),
      ("hwdiv", jl (divs.map fun p => js (toString (Float.ofBits p.1 / Float.ofBits p.2).toBits.toNat))),
      ("mul", jl (divs.map fun p => js (toString (mulBits p.1 p.2).toNat))),
      ("hwmul", jl (divs.map fun p => js (toString (Float.ofBits p.1 * Float.ofBits p.2).toBits.toNat))),
      ("int", jl (ints.map fun i => match floatOfInt i with
        | some w => jo [("ok", js (toString w.toNat))] | none => jo [("ov", jb (decide (i < 0)))]))]

end Yaql.Drv.FloatRound
