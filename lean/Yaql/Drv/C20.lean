import Yaql.Drv.Util
import Yaql.Model.DateTime
import Yaql.Model.DateTimeHist
import Yaql.Gen.DateTimeDefs
/-! Driver for C20: evaluates expression trees over datetimes / timespans / numbers on the model
(`Yaql.DateTime`).  The class of every datetime parameter (`yaqltypes.DateTime()` or bare) is looked
up in the generated table `Yaql.Gen.DateTimeDefs.defs`, so the model follows what the code declares.

request: `{"p":"C20","host":<us>,"cases":[expr,...]}`; expr:
`{"dt":[wall,off|null]}` | `{"ts":us}` | `{"i":n}` | `{"q":[n,d]}` | `{"f":name,"a":[expr..],"kw":[[name,expr]..]}`.
reply: `{"r":[{"dt":[wall,off]}|{"ts":us}|{"i":n}|{"q":[n,d]}|{"fb":"<IEEE bits>"}|{"b":bool}|{"err":class}, ...]}`;
float-valued results (unit properties, `.timestamp`, `ts / ts`) are the doubles the model computes (`fb`), a float
consumed by an outer call is its exact rational value. -/
namespace Yaql.Drv.C20
open Lean Yaql.Drv Yaql.DateTime

inductive V where
  | dt (d : DT)
  | ts (t : Int)
  | num (n : Num)
  | fl (w : UInt64)         -- a float result, IEEE bits
  | bool (b : Bool)
deriving Repr, Inhabited

inductive E where
  | py (e : Err)
  | noMatch                 -- NoMatchingFunctionException / not covered by the model
  | bad (msg : String)      -- malformed request
deriving Repr, Inhabited

abbrev R := Except E V

def liftE {α : Type} (x : Except Err α) : Except E α :=
  match x with
  | .ok a => .ok a
  | .error e => .error (.py e)

def defs := Yaql.Gen.DateTimeDefs.defs

/-- classes of the datetime parameters of the registered overload, `none` if it is not registered -/
def classes (name : List Char) (sh : List Shape) : Option (List PClass) :=
  (findDef defs name sh).map dtClasses

def cls1 (name : List Char) (sh : List Shape) : Option PClass :=
  match classes name sh with
  | some [c] => some c
  | _ => none

def cls2 (name : List Char) (sh : List Shape) : Option (PClass × PClass) :=
  match classes name sh with
  | some [c1, c2] => some (c1, c2)
  | _ => none

/-- a float result that is consumed as a number: its exact rational value (`none`: inf / NaN, which the modelled
    float-valued functions never return) -/
def numOfBits (w : UInt64) : Option Num :=
  match Yaql.FloatRound.decode w with
  | .fin z => some (.flt z (Yaql.FloatRound.scale : Nat))
  | _ => none

def asNumArg : V → Except E V
  | .fl w => match numOfBits w with | some n => .ok (.num n) | none => .error .noMatch
  | v => .ok v

def cmpOfName : String → Option CmpOp
  | "=" => some .eq | "!=" => some .ne | "<" => some .lt | "<=" => some .le | ">" => some .gt | ">=" => some .ge
  | _ => none

def cmpYaqlName : CmpOp → List Char
  | .eq => "*equal".toList | .ne => "*not_equal".toList
  | .lt => oper ['<'] | .le => oper ['<', '='] | .gt => oper ['>'] | .ge => oper ['>', '=']

def numCmp (op : CmpOp) (a b : Num) : Bool :=
  -- exact comparison of two numbers (cross-multiplied; denominators are positive)
  let (an, ad) := match a with | .int n => (n, (1 : Int)) | .flt n d => (n, d)
  let (bn, bd) := match b with | .int n => (n, (1 : Int)) | .flt n d => (n, d)
  cmpInt op (an * bd) (bn * ad)

def binop (host : Int) (o : String) (x y : V) : R :=
  let _ := host
  match cmpOfName o with
  | some op =>
      (match x, y with
       | .dt a, .dt b =>
           (match cls2 (cmpYaqlName op) [.dt, .dt] with
            | some (c1, c2) => liftE ((dtCmp op c1 c2 a b).map V.bool)
            | none =>
                -- no typed overload: `=` / `!=` fall through to the untyped ones (python == on the raw values)
                (match op with
                 | .eq => liftE ((pyCmp .eq a b).map V.bool)
                 | .ne => liftE ((pyCmp .ne a b).map V.bool)
                 | _ => .error .noMatch))
       | .ts a, .ts b => .ok (.bool (tsCmp op a b))
       | _, _ => .error .noMatch)
  | none =>
  match o, x, y with
  | "+", .dt a, .ts t =>
      (match cls1 (oper ['+']) [.dt, .ts] with
       | some c => liftE ((dtPlusTs c a t).map V.dt) | none => .error .noMatch)
  | "+", .ts t, .dt a =>
      (match cls1 (oper ['+']) [.ts, .dt] with
       | some c => liftE ((tsPlusDt c t a).map V.dt) | none => .error .noMatch)
  | "-", .dt a, .ts t =>
      (match cls1 (oper ['-']) [.dt, .ts] with
       | some c => liftE ((dtMinusTs c a t).map V.dt) | none => .error .noMatch)
  | "-", .dt a, .dt b =>
      (match cls2 (oper ['-']) [.dt, .dt] with
       | some (c1, c2) => liftE ((dtMinusDt c1 c2 a b).map V.ts) | none => .error .noMatch)
  | "+", .ts a, .ts b => liftE ((tsAdd a b).map V.ts)
  | "-", .ts a, .ts b => liftE ((tsSub a b).map V.ts)
  | "*", .ts a, .num n => liftE ((tsMulNumF a n).map V.ts)
  | "*", .num n, .ts a => liftE ((tsMulNumF a n).map V.ts)
  | "/", .ts a, .num n => liftE ((tsDivNumF a n).map V.ts)
  | "/", .ts a, .ts b => liftE ((tsDivTsF a b).map V.fl)
  | _, _, _ => .error .noMatch

def kwGet (kw : List (String × V)) (k : String) : Option V := (kw.find? (·.1 == k)).map (·.2)

def kwInt (kw : List (String × V)) (k : String) (dflt : Int) : Except E Int :=
  match kwGet kw k with
  | none => .ok dflt
  | some (.num (.int n)) => .ok n
  | some _ => .error .noMatch

def kwIntOpt (kw : List (String × V)) (k : String) : Except E (Option Int) :=
  match kwGet kw k with
  | none => .ok none
  | some (.num (.int n)) => .ok (some n)
  | some _ => .error .noMatch

def kwTsOpt (kw : List (String × V)) (k : String) : Except E (Option Int) :=
  match kwGet kw k with
  | none => .ok none
  | some (.ts t) => .ok (some t)
  | some _ => .error .noMatch

/-- positional arguments are given the parameter names, then keyword arguments are appended -/
def bindArgs (names : List String) (a : List V) (kw : List (String × V)) : List (String × V) :=
  (names.zip a) ++ kw

def dtNames : List String := ["year", "month", "day", "hour", "minute", "second", "microsecond", "offset"]

def call (host : Int) (f : String) (a : List V) (kw : List (String × V)) : R :=
  match f, a with
  | "datetime", (.num (.int _)) :: (.num (.int _)) :: _ => do
      let b := bindArgs dtNames a kw
      let flds : Fields :=
        { year := ← kwInt b "year" 0, month := ← kwInt b "month" 0, day := ← kwInt b "day" 0,
          hour := ← kwInt b "hour" 0, minute := ← kwInt b "minute" 0, second := ← kwInt b "second" 0,
          micro := ← kwInt b "microsecond" 0 }
      let off := (← kwTsOpt b "offset").getD 0
      liftE ((buildDatetime flds off).map V.dt)
  | "datetime", [.num n] => do
      let off := (← kwTsOpt kw "offset").getD 0
      liftE ((datetimeFromTimestamp n off).map V.dt)
  | "datetime", [.num n, .ts off] => liftE ((datetimeFromTimestamp n off).map V.dt)
  | "timespan", _ => do
      let b := bindArgs ["days", "hours", "minutes", "seconds", "milliseconds", "microseconds"] a kw
      liftE ((buildTimespan (← kwInt b "days" 0) (← kwInt b "hours" 0) (← kwInt b "minutes" 0)
        (← kwInt b "seconds" 0) (← kwInt b "milliseconds" 0) (← kwInt b "microseconds" 0)).map V.ts)
  | "utctz", [] => .ok (.ts 0)
  | "microseconds", [.ts t] => .ok (.num (.int (tsMicroseconds t)))
  | "milliseconds", [.ts t] => liftE ((tsMillisecondsF t).map V.fl)
  | "seconds", [.ts t] => liftE ((tsSecondsF t).map V.fl)
  | "minutes", [.ts t] => liftE ((tsMinutesF t).map V.fl)
  | "hours", [.ts t] => liftE ((tsHoursF t).map V.fl)
  | "days", [.ts t] => liftE ((tsDaysF t).map V.fl)
  | "neg", [.ts t] => liftE ((tsNeg t).map V.ts)
  | "pos", [.ts t] => liftE ((tsPos t).map V.ts)
  | "year", [.dt d] => .ok (.num (.int (dtYear d)))
  | "month", [.dt d] => .ok (.num (.int (dtMonth d)))
  | "day", [.dt d] => .ok (.num (.int (dtDay d)))
  | "hour", [.dt d] => .ok (.num (.int (dtHour d)))
  | "minute", [.dt d] => .ok (.num (.int (dtMinute d)))
  | "second", [.dt d] => .ok (.num (.int (dtSecond d)))
  | "microsecond", [.dt d] => .ok (.num (.int (dtMicrosecond d)))
  | "weekday", [.dt d] => .ok (.num (.int (dtWeekday d)))
  | "offset", [.dt d] =>
      (match cls1 (prop "offset".toList) [.dt] with
       | some c => liftE ((dtOffset c d).map V.ts) | none => .error .noMatch)
  | "utc", [.dt d] =>
      (match cls1 (prop "utc".toList) [.dt] with
       | some c => liftE ((dtUtc c host d).map V.dt) | none => .error .noMatch)
  | "timestamp", [.dt d] =>
      (match cls1 (prop "timestamp".toList) [.dt] with
       | some c => liftE ((dtTimestampF c host d).map V.fl) | none => .error .noMatch)
  | "date", [.dt d] =>
      (match cls1 (prop "date".toList) [.dt] with
       | some c => liftE ((dtDate c d).map V.dt) | none => .error .noMatch)
  | "time", [.dt d] =>
      (match cls1 (prop "time".toList) [.dt] with
       | some c => liftE ((dtTime c d).map V.ts) | none => .error .noMatch)
  | "replace", [.dt d] =>
      (match cls1 "replace".toList [.dt, .int, .int, .int, .int, .int, .int, .int, .ts] with
       | some c => do
           liftE ((dtReplace c d (← kwIntOpt kw "year") (← kwIntOpt kw "month") (← kwIntOpt kw "day")
             (← kwIntOpt kw "hour") (← kwIntOpt kw "minute") (← kwIntOpt kw "second")
             (← kwIntOpt kw "microsecond") (← kwTsOpt kw "offset")).map V.dt)
       | none => .error .noMatch)
  | o, [x, y] => binop host o x y
  | _, _ => .error .noMatch

mutual
  partial def eval (host : Int) (j : Json) : R :=
    if jhas j "dt" then
      match jarr j "dt" with
      | [w, o] => .ok (.dt ⟨asInt w, if jisNull o then none else some (asInt o)⟩)
      | _ => .error (.bad "dt")
    else if jhas j "ts" then .ok (.ts (jint j "ts"))
    else if jhas j "i" then .ok (.num (.int (jint j "i")))
    else if jhas j "q" then
      match jarr j "q" with
      | [n, d] => .ok (.num (.flt (asInt n) (asInt d)))
      | _ => .error (.bad "q")
    else if jhas j "f" then do
      let a ← evalList host (jarr j "a")
      let kw ← evalKw host (jarr j "kw")
      let a ← a.mapM asNumArg
      let kw ← kw.mapM fun p => (asNumArg p.2).map fun v => (p.1, v)
      call host (jstr j "f") a kw
    else .error (.bad "expr")

  partial def evalList (host : Int) : List Json → Except E (List V)
    | [] => .ok []
    | x :: r => do
        let v ← eval host x
        let vs ← evalList host r
        .ok (v :: vs)

  partial def evalKw (host : Int) : List Json → Except E (List (String × V))
    | [] => .ok []
    | x :: r => do
        match asArr x with
        | [k, e] =>
            let v ← eval host e
            let vs ← evalKw host r
            .ok ((asStr k, v) :: vs)
        | _ => .error (.bad "kw")
end

def errName : Err → String
  | .overflowError => "OverflowError"
  | .valueError => "ValueError"
  | .typeError => "TypeError"
  | .zeroDivisionError => "ZeroDivisionError"
  | .osError => "OSError"

def outV : R → Json
  | .ok (.dt d) => jo [("dt", jl [ji d.wall, match d.off with | some o => ji o | none => .null])]
  | .ok (.ts t) => jo [("ts", ji t)]
  | .ok (.num (.int n)) => jo [("i", ji n)]
  | .ok (.num (.flt n d)) => jo [("q", jl [ji n, ji d])]
  | .ok (.fl w) => jo [("fb", js (toString w.toNat))]
  | .ok (.bool b) => jo [("b", jb b)]
  | .error (.py e) => jo [("err", js (errName e))]
  | .error .noMatch => jo [("err", js "NoMatchingFunctionException")]
  | .error (.bad m) => jo [("err", js ("bad-request:" ++ m))]

/-! ### histories of one expression node (`Model/DateTimeHist.lean`)

request `{"p":"C20","host":<us>,"hist":[{"op":"="|..|"+"|"-", "mode":"off"|"last", "rows":[[x,y],..]} |
{"op1":"utc"|"offset"|"timestamp","rows":[[x],..]}, ..]}` with operands `null | {"i":n} | {"s":[code points]} |
{"ts":us} | {"dt":[wall,off|null]}`; reply `{"h":[[result,..],..]}`. -/

open Yaql.DateTimeHist in
def histCfg : Cfg :=
  { cmpCls := fun op => cls2 (cmpYaqlName op) [.dt, .dt],
    minusDtDt := cls2 (oper ['-']) [.dt, .dt],
    plusDtTs := cls1 (oper ['+']) [.dt, .ts],
    plusTsDt := cls1 (oper ['+']) [.ts, .dt],
    minusDtTs := cls1 (oper ['-']) [.dt, .ts],
    utc := cls1 (prop "utc".toList) [.dt],
    offset := cls1 (prop "offset".toList) [.dt],
    timestamp := cls1 (prop "timestamp".toList) [.dt] }

open Yaql.DateTimeHist in
def operandOf (j : Json) : Operand :=
  if jisNull j then .null
  else if jhas j "i" then .int (jint j "i")
  else if jhas j "s" then .str ((jarr j "s").map fun c => Char.ofNat (asNat c))
  else if jhas j "ts" then .ts (jint j "ts")
  else match jarr j "dt" with
    | [w, o] => .dt ⟨asInt w, if jisNull o then none else some (asInt o)⟩
    | _ => .null

open Yaql.DateTimeHist in
def op2Of (s : String) : Option Op2 :=
  match s with
  | "+" => some .plus
  | "-" => some .minus
  | _ => (cmpOfName s).map .cmp

open Yaql.DateTimeHist in
def outRes : Res → Json
  | .ok (.bool b) => jo [("b", jb b)]
  | .ok (.int n) => jo [("i", ji n)]
  | .ok (.str s) => jo [("s", jl (s.map fun c => jn c.toNat))]
  | .ok (.ts t) => jo [("ts", ji t)]
  | .ok (.dt d) => jo [("dt", jl [ji d.wall, match d.off with | some o => ji o | none => .null])]
  | .ok (.fl w) => jo [("fb", js (toString w.toNat))]
  | .error (.py e) => jo [("err", js (errName e))]
  | .error .noMatch => jo [("err", js "NoMatching")]

open Yaql.DateTimeHist in
def handleHist (host : Int) (c : Json) : Json :=
  let rows := (jarr c "rows").map asArr
  if jhas c "op1" then
    let op : Op1 := match jstr c "op1" with | "utc" => .utc | "offset" => .offset | _ => .timestamp
    jl ((runHistory1 histCfg host op (rows.map fun r => operandOf (r.getD 0 .null))).map outRes)
  else
    match op2Of (jstr c "op") with
    | none => jl []
    | some op =>
        let mode : CacheMode := if jstr c "mode" == "last" then .lastWinner else .off
        jl ((runHistory histCfg mode op {} (rows.map fun r => (operandOf (r.getD 0 .null), operandOf (r.getD 1 .null)))).map
          outRes)

def handle (req : Json) : Json :=
  let host := jint req "host"
  if jhas req "hist" then jo [("h", jl ((jarr req "hist").map (handleHist host)))]
  else jo [("r", jl ((jarr req "cases").map fun c => outV (eval host c)))]

end Yaql.Drv.C20
