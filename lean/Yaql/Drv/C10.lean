import Yaql.Drv.Util
import Yaql.Model.Convert
import Yaql.Model.HostHistory
/-! Driver for C10 (and the finaliser part of C08): runs `convIn` / `convOut` of the model.
Codec of `Yaql.Convert.Py`: scalars as in harness/values.py (null | bool | {"i"} | {"f"} | {"s"} | {"h"}),
`{"q": kind, "l": [..]}` element containers, `{"m": kind, "l": [[k, v], ..]}` pair containers. -/
namespace Yaql.Drv.C10
open Lean Yaql.Drv Yaql.Convert

def hexDigit (n : Nat) : Char := if n < 10 then Char.ofNat (48 + n) else Char.ofNat (87 + n)
def hex16 (w : UInt64) : String :=
  String.ofList ((List.range 16).map fun i => hexDigit ((w.toNat >>> (4 * (15 - i))) % 16))
def parseHex (s : String) : UInt64 :=
  UInt64.ofNat (s.toList.foldl (fun acc c =>
    let d := if c.isDigit then c.toNat - 48 else if c.toNat ≥ 97 then c.toNat - 87 else c.toNat - 55
    acc * 16 + d) 0)

def seqKindName : SeqKind → String
  | .tuple => "tuple" | .list => "list" | .set => "set" | .fset => "fset" | .iter => "iter"
  | .ordering => "ordering" | .kview => "kview" | .iview => "iview" | .vview => "vview"

def seqKindOf : String → SeqKind
  | "tuple" => .tuple | "list" => .list | "set" => .set | "fset" => .fset | "iter" => .iter
  | "ordering" => .ordering | "kview" => .kview | "iview" => .iview | _ => .vview

partial def pyToJson : Py → Json
  | .sc .null => .null
  | .sc (.bool b) => .bool b
  | .sc (.int i) => jo [("i", js (toString i))]
  | .sc (.flt b) => jo [("f", js (hex16 b))]
  | .sc (.str s) => jo [("s", jl (s.map fun c => jn c.toNat))]
  | .sc (.host n) => jo [("h", jn n)]
  | .seq k l => jo [("q", js (seqKindName k)), ("l", jl (l.map pyToJson))]
  | .map k kvs => jo [("m", js (match k with | .dict => "dict" | .fdict => "fdict")),
                      ("l", jl (kvs.map fun (a, b) => jl [pyToJson a, pyToJson b]))]

partial def pyOfJson (j : Json) : Py :=
  match j with
  | .null => .sc .null
  | .bool b => .sc (.bool b)
  | _ =>
    if jhas j "i" then .sc (.int ((jstr j "i").toInt?.getD 0))
    else if jhas j "f" then .sc (.flt (parseHex (jstr j "f")))
    else if jhas j "s" then .sc (.str ((jarr j "s").map fun c => Char.ofNat (asNat c)))
    else if jhas j "h" then .sc (.host (jnat j "h"))
    else if jhas j "q" then .seq (seqKindOf (jstr j "q")) ((jarr j "l").map pyOfJson)
    else if jhas j "m" then
      .map (if jstr j "m" == "dict" then .dict else .fdict) ((jarr j "l").map fun p =>
        match asArr p with
        | [k, v] => (pyOfJson k, pyOfJson v)
        | _ => (.sc .null, .sc .null))
    else .sc .null

def resJ : Except Err Py → Json
  | .ok v => jo [("ok", pyToJson v)]
  | .error .unhashable => jo [("err", js "unhashable")]
  | .error .tooLarge => jo [("err", js "tooLarge")]

def one (c : Json) : Json :=
  let o : Opts := { t2l := jbool c "t2l", s2l := jbool c "s2l" }
  let lim : Limit := jnatOpt c "lim"
  let v := pyOfJson (jget c "v")
  match jstr c "op" with
  | "in" => jo [("ok", pyToJson (convIn v))]
  | "out" => resJ (convOut o lim v)
  | "rt" => resJ (convOut o lim (convIn v))
  | "hash" => jo [("ok", jb (hashable v))]
  | op => jerr ("bad op " ++ op)

/-! host histories (`Model/HostHistory.lean`): `{"d0": doc, "ops": [{"o": "mutate" | "replace", "v": doc} |
    {"o": "evaluate", "ci", "t2l", "s2l"} | {"o": "bind"} | {"o": "evalBound", "i", "t2l", "s2l"}]}` -> one output per
    operation (`null` where nothing is returned) -/
open Yaql.HostHistory in
def histOp (j : Json) : Op :=
  let o : Opts := { t2l := jbool j "t2l", s2l := jbool j "s2l" }
  match jstr j "o" with
  | "mutate" => .mutate (pyOfJson (jget j "v"))
  | "replace" => .replace (pyOfJson (jget j "v"))
  | "evaluate" => .evaluate (jbool j "ci") o
  | "bind" => .bind
  | _ => .evalBound (jnat j "i") o

open Yaql.HostHistory in
def hist (c : Json) : Json :=
  let ops := (jarr c "ops").map histOp
  let outs := if jbool c "memo" then runMemo ⟨{ doc := pyOfJson (jget c "d0") }, none⟩ ops
              else run { doc := pyOfJson (jget c "d0") } ops
  jl (outs.map fun
    | none => Json.null
    | some r => resJ r)

def handle (req : Json) : Json :=
  if jhas req "hist" then jo [("res", jl ((jarr req "hist").map hist))]
  else jo [("res", jl ((jarr req "cases").map one))]

end Yaql.Drv.C10
