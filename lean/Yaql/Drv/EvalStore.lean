import Yaql.Drv.Util
import Yaql.Drv.ValueJson
import Yaql.Drv.C04
import Yaql.Model.EvalStore
/-! Driver for the store-passing evaluator (`Model/EvalStore.lean`): `Statement.evaluate` on programs sent
as C04 ASTs, with the log of context allocations and writes.
request  {"p":"EvalStore","fuel":n,"cases":[{"doc":<value>,"e":<ast>}, ...]}
reply    {"res":[{"ok":<value>} | {"ctx":true} | {"err":"<class>"}  plus  "log":[entry..], ...]}
entry ::= ["a", id, parent] | ["s", id, "name"] | ["r", id, "fname"]
The start store has two cells: 0 = the host's root context, 1 = its child handed to `evaluate`. -/
namespace Yaql.Drv.EvalStore
open Lean Yaql Yaql.Drv Yaql.Eval Yaql.EvalStore

def entryJson : Entry → Json
  | .alloc i p => jl [js "a", jn i, jn p]
  | .set i n _ => jl [js "s", jn i, js (String.ofList n)]
  | .reg i f _ _ => jl [js "r", jn i, js (String.ofList f)]

def startStore : St := { cells := [{}, { parent := some 0 }], log := [] }

def runCase (fuel : Nat) (c : Json) : Json :=
  match Yaql.Drv.C04.exprOfJson (jget c "e") with
  | none => jo [("err", js "OOD"), ("log", jl [])]
  | some e =>
    let (r, s) := evaluateS fuel 1 (valOfJson (jget c "doc")) e startStore
    let log := jl (s.log.map entryJson)
    match r with
    | .ok (.data v) => jo [("ok", valToJson v), ("log", log)]
    | .ok .context => jo [("ctx", jb true), ("log", log)]
    | .error er => jo [("err", js (Yaql.Drv.C04.errName er)), ("log", log)]

def handle (req : Json) : Json :=
  let fuel := if jhas req "fuel" then jnat req "fuel" else 200
  jo [("res", jl ((jarr req "cases").map (runCase fuel)))]

end Yaql.Drv.EvalStore
