import Yaql.Drv.Util
import Yaql.Model.EvalDispatch
/-! Driver for the dispatch table of the reference interpreter (`Model/EvalDispatch.lean`).
request  {"p":"C04D","fragment":1}
reply    {"rows":[{"c":<callee>,"n":<function name>,"r":<kind>|null,"a":[<shape>..],"log":[n..],"out":<outcome>}..]}
request  {"p":"C04D","shapes":[{"c":<callee>,"r":..,"a":[..]}..]}     (the same rows for the given shapes; "out":null = not a call of the fragment)

callee  ::= "getContextData" | "list" | "map" | "indexer" | "dot" | "arrow" | "un:not" | "un:neg" | "bin:<op>" | "fn:<name>" | "property:<name>"
shape   ::= "L:<null|bool|int|float|str>" | "K:<keyword>" | "E:<0|1>:<kind>" | "V:<kind>" | ["R", shape, shape]
outcome ::= "T:<module.function>" | "unknown" | "noMatching" | "ambiguous" | "mapping" | "argument" -/
namespace Yaql.Drv.C04D
open Lean Yaql Yaql.Drv Yaql.Eval Yaql.EvalDispatch

def kindName : Kind → String
  | .null => "null" | .bool => "bool" | .int => "int" | .float => "float" | .str => "str" | .tuple => "tuple"
  | .list => "list" | .dict => "dict" | .set => "set" | .iter => "iter" | .lazy => "lazy" | .ordered => "ordered"
  | .ctx => "ctx" | .host => "host"

def kindOfName (s : String) : Option Kind := Kind.all.find? fun k => kindName k == s

def litName : LitK → String
  | .null => "null" | .bool => "bool" | .int => "int" | .float => "float" | .str => "str"

def litOfName (s : String) : Option LitK := [LitK.null, .bool, .int, .float, .str].find? fun k => litName k == s

def binOpName : BinOp → String
  | .add => "add" | .sub => "sub" | .mul => "mul" | .eq => "eq" | .ne => "ne" | .lt => "lt" | .le => "le"
  | .gt => "gt" | .ge => "ge" | .and => "and" | .or => "or"

def calleeName : Callee → String
  | .getContextData => "getContextData" | .list => "list" | .map => "map" | .indexer => "indexer" | .dot => "dot"
  | .arrow => "arrow" | .un .not => "un:not" | .un .neg => "un:neg"
  | .bin op => "bin:" ++ binOpName op
  | .fn f => "fn:" ++ String.ofList (fnName f)
  | .property n => "property:" ++ String.ofList n

def calleeOfName (s : String) : Option Callee :=
  match Callee.fixed.find? fun c => calleeName c == s with
  | some c => some c
  | none => if s.startsWith "property:" then some (.property (s.drop 9).toString.toList) else none

partial def shapeJson : AShape → Json
  | .lit k => js ("L:" ++ litName k)
  | .kw n => js ("K:" ++ String.ofList n)
  | .expr fn k => js ("E:" ++ (if fn then "1" else "0") ++ ":" ++ kindName k)
  | .value k => js ("V:" ++ kindName k)
  | .rule s d => jl [js "R", shapeJson s, shapeJson d]

partial def shapeOfJson (j : Json) : Option AShape :=
  match j with
  | .str s =>
    if s.startsWith "L:" then (litOfName (s.drop 2).toString).map AShape.lit
    else if s.startsWith "K:" then some (.kw (s.drop 2).toString.toList)
    else if s.startsWith "E:" then (kindOfName (s.drop 4).toString).map (AShape.expr (s.startsWith "E:1"))
    else if s.startsWith "V:" then (kindOfName (s.drop 2).toString).map AShape.value
    else none
  | .arr a =>
    match a.toList with
    | [_, s, d] => do let x ← shapeOfJson s; let y ← shapeOfJson d; pure (.rule x y)
    | _ => none
  | _ => none

def outJson : Outcome → Json
  | .target p => js ("T:" ++ String.ofList (p.map Char.ofNat))
  | .unknown => js "unknown" | .noMatching => js "noMatching" | .ambiguous => js "ambiguous"
  | .mapping => js "mapping" | .argument => js "argument"

def rowJson (s : CallShape) : Json :=
  let base := [("c", js (calleeName s.callee)), ("n", js (String.ofList s.callee.name)),
               ("r", match s.receiver with | some k => js (kindName k) | none => Json.null),
               ("a", jl (s.args.map shapeJson))]
  match dispatchOf s with
  | some d => jo (base ++ [("log", jl (d.log.map jn)), ("out", outJson d.out)])
  | none => jo (base ++ [("out", Json.null)])

def shapeOfRow (j : Json) : Option CallShape := do
  let c ← calleeOfName (jstr j "c")
  let r ← (match jget j "r" with
    | .null => some none
    | .str s => (kindOfName s).map some
    | _ => none)
  let a ← (jarr j "a").mapM shapeOfJson
  pure ⟨c, r, a⟩

def handle (req : Json) : Json :=
  if jhas req "fragment" then jo [("rows", jl (fragment.map rowJson))]
  else
    jo [("rows", jl ((jarr req "shapes").map fun j =>
      match shapeOfRow j with
      | some s => rowJson s
      | none => jo [("err", js "bad shape")]))]

end Yaql.Drv.C04D
