import Yaql.Drv.Util
import Yaql.Drv.C10
import Yaql.Drv.C17
import Yaql.Model.ConvertId
import Yaql.Model.Effects
import Yaql.Model.GroupAgg
import Yaql.Drv.ValueJson
/-! Driver for C09.
`conv` cases: the converters with allocation identities.  Codec of `Yaql.Convert.Obj`: C10's codec of `Py` plus
an `"id"` on every container; `{"z": src, "id": n, "l": [..]}` is a lazily wrapped iterable.
`ctx` cases: a C17 history (forest of contexts, writes) in which `eval` steps run `Effects.evaluate`. -/
namespace Yaql.Drv.C09
open Lean Yaql.Drv Yaql.Convert

partial def objToJson : Obj → Json
  | .sc s => C10.pyToJson (.sc s)
  | .seq id k l => jo [("q", js (C10.seqKindName k)), ("id", jn id), ("l", jl (l.map objToJson))]
  | .map id k kvs => jo [("m", js (match k with | .dict => "dict" | .fdict => "fdict")), ("id", jn id),
                         ("l", jl (kvs.map fun (a, b) => jl [objToJson a, objToJson b]))]
  | .lazyMap id src l => jo [("z", jn src), ("id", jn id), ("l", jl (l.map objToJson))]

partial def objOfJson (j : Json) : Obj :=
  match j with
  | .null => .sc .null
  | .bool b => .sc (.bool b)
  | _ =>
    if jhas j "q" then .seq (jnat j "id") (C10.seqKindOf (jstr j "q")) ((jarr j "l").map objOfJson)
    else if jhas j "m" then
      .map (jnat j "id") (if jstr j "m" == "dict" then .dict else .fdict) ((jarr j "l").map fun p =>
        match asArr p with
        | [k, v] => (objOfJson k, objOfJson v)
        | _ => (.sc .null, .sc .null))
    else if jhas j "z" then .lazyMap (jnat j "id") (jnat j "z") ((jarr j "l").map objOfJson)
    else match C10.pyOfJson j with
      | .sc s => .sc s
      | _ => .sc .null

/-- the expression of a `host` case: descend along `path` into the value bound to `$` (element index for
    element containers, index of the pair for mappings: its value), then optionally wrap the outcome into a
    new list (`wrap`) -/
def descend : Obj → List Nat → Obj
  | x, [] => x
  | .seq _ _ l, i :: r => match l[i]? with | some y => descend y r | none => .sc .null
  | .lazyMap _ _ l, i :: r => match l[i]? with | some y => descend y r | none => .sc .null
  | .map _ _ kvs, i :: r => match kvs[i]? with | some (_, v) => descend v r | none => .sc .null
  | .sc _, _ :: _ => .sc .null

def errJ : Err → Json
  | .unhashable => jo [("err", js "unhashable")]
  | .tooLarge => jo [("err", js "tooLarge")]

def shared (doc res : Obj) : List Nat :=
  let d := nodeIds doc
  ((nodeIds res ++ srcRefs res).filter fun i => d.contains i).eraseDups

def resJ (doc : Obj) : Except Err (Obj × Nat) → Json
  | .ok p => jo [("ok", objToJson p.1), ("next", jn p.2), ("shared", jl ((shared doc p.1).map jn)),
                 ("frozen", jb (frozen p.1)), ("src", jl ((srcRefs p.1).map jn))]
  | .error e => errJ e

def conv (c : Json) : Json :=
  let o : Opts := { t2l := jbool c "t2l", s2l := jbool c "s2l" }
  let lim : Limit := jnatOpt c "lim"
  let doc := objOfJson (jget c "v")
  let n := jnat c "n"
  match jstr c "op" with
  | "in" => resJ doc (.ok (convInI n doc))
  | "out" => resJ doc (convOutI o lim n doc)
  | "host" =>
      let path := (jarr c "path").map asNat
      let wrap := jbool c "wrap"
      let f : Obj → Nat → Obj × Nat := fun x m =>
        let y := descend x path
        if wrap then (.seq m .tuple [y], m + 1) else (y, m)
      resJ doc (hostEval (jbool c "cin") (jbool c "cout") o lim f n doc)
  | op => jerr ("bad op " ++ op)

/-! ### contexts -/
open Yaql.Context Yaql.Effects

def stepOfJson (j : Json) : Step :=
  match jstr j "s" with
  | "child" => .child (jnat j "p")
  | "set" => .set (jnat j "f") (jstr j "n").toList (jintOpt j "v")
  | "del" => .del (jnat j "f") (jstr j "n").toList
  | "reg" => .reg (jnat j "f") (jstr j "fn").toList (jnat j "id") (jbool j "x")
  | _ => .delf (jnat j "f") (jstr j "fn").toList (jnat j "id")

def ctxStep (st : C17.St) (op : Json) : C17.St × String :=
  if jstr op "o" == "eval" then
    let s := st.hs[jnat op "h"]?.getD default
    let bound : Option Val := if jbool op "data" then some (jintOpt op "v") else none
    let body := (jarr op "steps").map stepOfJson
    let disciplined := body.all fun s => s.target != some 0
    ({ st with cells := evaluate st.cells s bound (jnat op "fin") body },
     if disciplined then "ok" else "undisciplined")
  else if jstr op "o" == "icall" then
    -- `YaqlInterface(hs[h], engine)(text, *args, **kwargs)`: private child, parameters, evaluation, child dropped
    let s := st.hs[jnat op "h"]?.getD default
    let params := (jarr op "params").map fun p =>
      match asArr p with
      | [n, v] => ((asStr n).toList, (match v with | .null => (none : Val) | _ => some (asInt v)))
      | _ => ([], none)
    let body := (jarr op "steps").map stepOfJson
    let disciplined := body.all fun s => s.target != some 0
    ({ st with cells := interfaceCall st.cells s ⟨params, jnat op "fin", body⟩ },
     if disciplined then "ok" else "undisciplined")
  else C17.step st op

def ctx (req : Json) : Json :=
  let names := (jarr req "names").map fun j => (asStr j).toList
  let fnames := (jarr req "fnames").map fun j => (asStr j).toList
  let (_, out) := (jarr req "ops").foldl (init := (({} : C17.St), ([] : List Json)))
    fun (st, acc) op =>
      let (st', r) := ctxStep st op
      (st', jo [("r", js r), ("obs", C17.observe st' names fnames), ("ncells", jn st'.cells.length)] :: acc)
  jo [("steps", jl out.reverse)]

/-! `gagg` cases: `queries.GroupAggregator` (Model/GroupAgg.lean).  The user's aggregator is a finite table
`[[argument, outcome]..]` over the arguments it can be called with (`{"ok": v}` / `{"res": tag}` = a
NoMatching* / IndexError / `{"oth": tag}` = any other exception); a sequence of `groupBy` evaluations each
`{"agg": table, "groups": [[key, [values]]..]}` is run per call and - `"shared": true` - with ONE aggregator
state threaded through. -/

def gaggErrOfJson (j : Json) : Except GroupAgg.Err Value :=
  if jhas j "ok" then .ok (valOfJson (jget j "ok"))
  else if jhas j "res" then .error (.resolution (jnat j "res"))
  else .error (.other (jnat j "oth"))

def gaggTable (rows : List Json) : GroupAgg.Agg := fun arg =>
  match rows.find? (fun r => match asArr r with | [a, _] => valOfJson a == arg | _ => false) with
  | some r => (match asArr r with | [_, o] => gaggErrOfJson o | _ => .error (.other 999))
  | none => .error (.other 999)

def gaggErrToJson : GroupAgg.Err → Json
  | .resolution t => jo [("res", jn t)]
  | .other t => jo [("oth", jn t)]

def gaggStmt (j : Json) : GroupAgg.Stmt :=
  { agg := gaggTable (jarr j "agg"),
    groups := (jarr j "groups").map fun g =>
      match asArr g with
      | [k, vs] => (valOfJson k, (asArr vs).map valOfJson)
      | _ => (.null, []) }

def gagg (c : Json) : Json :=
  let allow := (jget c "allow") == Json.bool true
  let stmts := (jarr c "stmts").map gaggStmt
  let outs := if (jget c "shared") == Json.bool true then GroupAgg.poolShared (GroupAgg.St.fresh allow) stmts
              else GroupAgg.poolPerCall allow stmts
  jo [("outs", jl (outs.map fun o =>
    match o with
    | .ok rs => jo [("ok", jl (rs.map valToJson))]
    | .error e => jo [("err", gaggErrToJson e)]))]

def one (c : Json) : Json :=
  if jstr c "op" == "ctx" then ctx c else if jstr c "op" == "gagg" then gagg c else conv c

def handle (req : Json) : Json :=
  jo [("res", jl ((jarr req "cases").map one))]

end Yaql.Drv.C09
