import Yaql.Drv.Util
import Yaql.Model.Limits
import Yaql.Model.Entry
import Yaql.Drv.C10
import Yaql.Gen.Sizes
/-! Driver for C08: the counting generator, `limit_memory_usage`, the repetition estimates over the size
constants of the running CPython (`Yaql.Gen.Sizes.cfg`).  (The finaliser is served by Drv/C10.) -/
namespace Yaql.Drv.C08
open Lean Yaql.Drv Yaql.Limits

def intOf (j : Json) (k : String) : Int := (jstr j k).toInt?.getD 0

def one (c : Json) : Json :=
  match jstr c "op" with
  | "limit" =>
      let lim : Yaql.Convert.Limit := jnatOpt c "N"
      let len := jnatOpt c "len"
      let src : Source Nat := fun i => match len with
        | none => some i
        | some L => if i < L then some i else none
      let r := run lim src (jnat c "calls") {}
      jo [("items", jl (r.items.map jn)), ("pulls", jn r.st.idx), ("raised", jb r.raised)]
  | "sized" =>
      match limitSized (jnatOpt c "N") (jnat c "len") with
      | .ok _ => jo [("ok", jb true)]
      | .error _ => jo [("ok", jb false)]
  | "repeat" =>
      let cfg := Yaql.Gen.Sizes.cfg
      let q := intOf c "Q"
      let k := intOf c "k"
      let n := jnat c "n"
      match jstr c "kind" with
      | "str" =>
          let cls := strClassOf (jnat c "maxcp")
          jo [("passes", jb (stringByIntCheck cfg q cls n k)), ("size", jn (cfg.strSize cls (repLen n k))),
              ("left", jn (cfg.strSize cls n))]
      | kd =>
          let kind := if kd == "list" then SeqK.list else SeqK.tuple
          jo [("passes", jb (listByIntCheck cfg q kind n k)), ("size", jn (cfg.seqSize kind (repLen n k))),
              ("left", jn (cfg.seqSize kind n))]
  | "fdict" =>
      let cfg := Yaql.Gen.Sizes.cfg
      jo [("size", jn (cfg.fdictSize (jnat c "ds"))),
          ("set", jb (dictSetCheck cfg (intOf c "Q") (jnat c "ds") (jnat c "ks") (jnat c "vs"))),
          ("pass", jb (limitMemory (intOf c "Q") [(1, cfg.fdictSize (jnat c "ds"))]))]
  | "mem" =>
      let args := (jarr c "args").map fun a => match asArr a with
        | [x, y] => ((asStr x).toInt?.getD 0, asNat y)
        | _ => (0, 0)
      jo [("passes", jb (limitMemory (intOf c "Q") args))]
  | "entry" =>
      -- a value handed over through a public entry point to a function `wrap` (identity / one-element iterator around
      -- it) and the result handed back: {"entry": "evaluate"|"evaluate-raw"|"iface"|"stub"|"stubOn", "wrap": "id"|"iter"}
      let e : Yaql.Entry.Entry := match jstr c "entry" with
        | "evaluate" => .evaluate true
        | "evaluate-raw" => .evaluate false
        | "iface" => .ifaceExpr
        | "stubOn" => .stubOn
        | _ => .stub
      let o : Yaql.Convert.Opts := { t2l := jbool c "t2l", s2l := jbool c "s2l" }
      let v := Yaql.Drv.C10.pyOfJson (jget c "v")
      let r := match jstr c "wrap" with
        | "iter" => Yaql.Entry.deliver e o (jnatOpt c "N") (.seq .iter [v])          -- a lambda's value: not converted
        | "recv" => Yaql.Entry.deliver e o (jnatOpt c "N") (e.receiver v)
        | _ => Yaql.Entry.call e o (jnatOpt c "N") id v
      Yaql.Drv.C10.resJ r
  | op => jerr ("bad op " ++ op)

def handle (req : Json) : Json :=
  jo [("res", jl ((jarr req "cases").map one))]

end Yaql.Drv.C08
