import Yaql.Drv.Util
import Yaql.Model.Value
/-! JSON codec of `Yaql.Value` (protocol of harness/values.py):
null | true/false | {"i":"<decimal>"} | {"f":"<16 hex digits>"} | {"s":[code points]} |
{"tu":[..]} | {"li":[..]} | {"d":[[k,v],..]} | {"se":[..]} | {"it":[..]} | {"h":n} -/
namespace Yaql.Drv
open Lean Yaql

def hexDigit (n : Nat) : Char := if n < 10 then Char.ofNat (48 + n) else Char.ofNat (87 + n)
def hex16 (w : UInt64) : String :=
  String.ofList ((List.range 16).map fun i => hexDigit ((w.toNat >>> (4 * (15 - i))) % 16))
def parseHex (s : String) : UInt64 :=
  UInt64.ofNat (s.toList.foldl (fun acc c =>
    let d := if c.isDigit then c.toNat - 48 else if c.toNat ≥ 97 then c.toNat - 87 else c.toNat - 55
    acc * 16 + d) 0)

partial def valToJson : Value → Json
  | .null => .null
  | .bool b => .bool b
  | .int i => jo [("i", js (toString i))]
  | .flt b => jo [("f", js (hex16 b))]
  | .str s => jo [("s", jl (s.map fun c => jn c.toNat))]
  | .tuple l => jo [("tu", jl (l.map valToJson))]
  | .list l => jo [("li", jl (l.map valToJson))]
  | .dict kvs => jo [("d", jl (kvs.map fun (k, v) => jl [valToJson k, valToJson v]))]
  | .set l => jo [("se", jl (l.map valToJson))]
  | .iter l => jo [("it", jl (l.map valToJson))]
  | .host n => jo [("h", jn n)]

partial def valOfJson (j : Json) : Value :=
  match j with
  | .null => .null
  | .bool b => .bool b
  | _ =>
    if jhas j "i" then .int ((jstr j "i").toInt?.getD 0)
    else if jhas j "f" then .flt (parseHex (jstr j "f"))
    else if jhas j "s" then .str ((jarr j "s").map fun c => Char.ofNat (asNat c))
    else if jhas j "tu" then .tuple ((jarr j "tu").map valOfJson)
    else if jhas j "li" then .list ((jarr j "li").map valOfJson)
    else if jhas j "d" then .dict ((jarr j "d").map fun p =>
      match asArr p with
      | [k, v] => (valOfJson k, valOfJson v)
      | _ => (.null, .null))
    else if jhas j "se" then .set ((jarr j "se").map valOfJson)
    else if jhas j "it" then .iter ((jarr j "it").map valOfJson)
    else if jhas j "h" then .host (jnat j "h")
    else .null

end Yaql.Drv
