import Yaql.Drv.Util
import Yaql.Model.ArgShape
/-! Driver for the arglist rule of C12: `{"p":"C12Args","shapes":[[0,2,1],...]}` (0 = value, 1 = empty slot,
2 = named slot) -> `{"ok":[bool,...]}` = `shapeOK` of each slot list. -/
namespace Yaql.Drv.C12Args
open Lean Yaql.Drv Yaql.ArgShape

def slotOfNat : Nat → Slot
  | 0 => .pos
  | 1 => .empty
  | _ => .named

def handle (req : Json) : Json :=
  jo [("ok", jl ((jarr req "shapes").map fun sh => jb (shapeOK ((asArr sh).map fun j => slotOfNat (asNat j)))))]

end Yaql.Drv.C12Args
