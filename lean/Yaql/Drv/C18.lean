import Yaql.Drv.Util
import Yaql.Model.SharedObjs
import Yaql.Model.SharedList
/-! Driver for C18: runs `SharedObjs.machine` under a given schedule and reports, per thread, the
result under the schedule, the schedule-independent prediction `den`, the solo result, and how many
scheduled steps fell on a thread that had already finished. -/
namespace Yaql.Drv.C18
open Lean Yaql.Drv Yaql.Sched Yaql.SharedObjs

def item (j : Json) (i : Nat) : Json := (asArr j).getD i .null

def refOf (j : Json) : Ref :=
  if asStr (item j 0) == "shared" then .shared (asNat (item j 1)) else .own (asNat (item j 1))

def selOf (j : Json) : Sel :=
  match asStr j with
  | "snd" => .snd
  | "sum" => .sum
  | _ => .fst

def aggOf (j : Json) : AggFn :=
  match asStr j with
  | "sum" => .sum
  | "legacy" => .legacy
  | "head2" => .head2
  | "flaky" => .flaky
  | _ => .none

def intsOf (j : Json) : List Int := (asArr j).map asInt

def rowsOf (j : Json) : List Row := (asArr j).map fun r => (asInt (item r 0), asInt (item r 1))

def opOf (j : Json) : Op :=
  match asStr (item j 0) with
  | "orderBy" => .orderBy (rowsOf (item j 1)) (selOf (item j 2)) (asBool (item j 3))
  | "thenBy" => .thenBy (refOf (item j 1)) (selOf (item j 2)) (asBool (item j 3))
  | "iterate" => .iterate (refOf (item j 1))
  | "memorize" => .memorize (intsOf (item j 1))
  | "memoIter" => .memoIter (refOf (item j 1))
  | "memoNext" => .memoNext (refOf (item j 1)) (asNat (item j 2))
  | "aggNew" => .aggNew (aggOf (item j 1)) (asBool (item j 2))
  | "aggCall" => .aggCall (refOf (item j 1)) (asInt (item j 2)) (intsOf (item j 3))
  | "hash" => .hash (asNat (item j 1))
  | "eval" => .evalCached (asNat (item j 1))
  | _ => .call (asNat (item j 1)) (asInt (item j 2))

def objOf (j : Json) : Obj :=
  match asStr (item j 0) with
  | "ordering" =>
      .ordering (rowsOf (item j 1))
        ((asArr (item j 2)).map fun f => (selOf (item f 0), asBool (item f 1))) none none
  | "aggregator" => .aggregator (aggOf (item j 1)) (asBool (item j 2)) none
  | _ => .memo (intsOf (item j 1)) 0 [] ((asArr (item j 2)).map asNat)

def keyOf (j : Json) : CKey :=
  match asStr (item j 0) with
  | "hash" => .hash (asNat (item j 1))
  | "engine" => .engine
  | "expr" => .expr (asNat (item j 1))
  | _ => .defctx

def keyJ : CKey → Json
  | .hash d => jl [js "hash", jn d]
  | .engine => jl [js "engine"]
  | .expr t => jl [js "expr", jn t]
  | .defctx => jl [js "defctx"]

def errJ : Err → Json
  | .noMatching => js "noMatching"
  | .indexError => js "indexError"
  | .typeError => js "typeError"
  | .badRef => js "badRef"

def rowJ (r : Row) : Json := jl [ji r.1, ji r.2]

def outJ : Out → Json
  | .made i => jl [js "made", jn i]
  | .rows rs => jl [js "rows", jl (rs.map rowJ)]
  | .val v => jl [js "val", ji v]
  | .stop => jl [js "stop"]
  | .err e => jl [js "err", errJ e]
  | .item k vs => jl [js "item", ji k, jl (vs.map ji)]
  | .group k (.scalar v) => jl [js "group", ji k, jl [js "scalar", ji v]]
  | .group k (.seq vs) => jl [js "group", ji k, jl [js "seq", jl (vs.map ji)]]
  | .legacyPair a b => jl [js "pair", ji a, ji b]
  | .evald e c => jl [js "evald", ji e, ji c]

def outsJ (o : List Out) : Json := jl (o.map outJ)

def optOutsJ : Option (List Out) → Json
  | some o => outsJ o
  | none => .null

/-- follow the schedule, counting the steps that fall on a finished (or missing) thread -/
def runCount (m : Machine Shared PState (List Out)) (sys : Sys Shared PState (List Out)) (sched : List Nat) :
    Sys Shared PState (List Out) × Nat :=
  sched.foldl (init := (sys, 0)) fun (s, w) i =>
    match s.threads[i]? with
    | some (Thread.running _) => (step m s i, w)
    | _ => (s, w + 1)

def handleCase (c : Json) : Json :=
  let cfgJ := jget c "cfg"
  let cfg : Cfg :=
    { hashMode := if jstr cfgJ "hash" == "old" then .accumulateShared else .publishComplete,
      park := if jstr cfgJ "park" == "def" then .onDefinition else .locals }
  let b := jget c "base"
  let base : Base :=
    { pairs := (jarr b "pairs").map intsOf,
      funcs := (jarr b "funcs").map fun f => (asInt (item f 0), asInt (item f 1)),
      heap := (jarr b "heap").map objOf,
      scratch := List.replicate (jnat b "scratch") none }
  let cache : Cache := (jarr c "cache").map fun e => (keyOf (item e 0), asInt (item e 1))
  let ps : List PState := (jarr c "threads").map fun t =>
    { ctxId := jnat t "ctx", prog := (jarr t "prog").map opOf }
  let sched := (jarr c "sched").map asNat
  let m := machine cfg
  let sys : Sys Shared PState (List Out) := ⟨(base, cache), ps.map .running⟩
  let (fin, wasted) := runCount m sys sched
  let fuel := 16 + 8 * (ps.foldl (fun a p => a + p.prog.length) 0) +
    base.pairs.foldl (fun a l => a + l.length * 4) 0 * (ps.foldl (fun a p => a + p.prog.length) 1)
  jo [ ("res", jl ((results fin).map optOutsJ)),
       ("den", jl (ps.map fun p => outsJ (den base p))),
       ("solo", jl (ps.map fun p => optOutsJ (soloResult? m fuel (base, cache) (.running p)))),
       ("wasted", jn wasted),
       ("cache", jl (fin.shared.2.map fun e => jl [keyJ e.1, ji e.2])),
       ("baseSame", jb (decide (fin.shared.1 = base))),
       ("entries", jl (fin.shared.2.map fun e => jb (decide (e.2 = entry base e.1)))) ]

/-! ### raw mutable host lists in the shared context (`Model/SharedList.lean`)

case: `{"mode":"copy"|"inplace"|"restore","shared":[[[a,b],..],..],"threads":[[op,..],..],"sched":[..]}` with
op = `["sortBy",v,sel,asc]` | `["read",v]`; reply: per-thread results under the schedule, `den`, wasted steps, the
shared lists afterwards. -/

def lmodeOf (s : String) : SharedList.SortMode :=
  match s with
  | "inplace" => .inPlace
  | "restore" => .inPlaceRestore
  | _ => .copy

def lopOf (j : Json) : SharedList.Op :=
  match asStr (item j 0) with
  | "sortBy" => .sortBy (asNat (item j 1)) (selOf (item j 2)) (asBool (item j 3))
  | _ => .read (asNat (item j 1))

def loutJ : SharedList.Out → Json
  | .rows rs => jl [js "rows", jl (rs.map rowJ)]
  | .noVar => jl [js "noVar"]

def loutsJ (o : List SharedList.Out) : Json := jl (o.map loutJ)

def handleListCase (c : Json) : Json :=
  let m := SharedList.machine (lmodeOf (jstr c "mode"))
  let shared : SharedList.Shared := (jarr c "shared").map rowsOf
  let ps : List SharedList.PState := (jarr c "threads").map fun t => { prog := (asArr t).map lopOf }
  let sched := (jarr c "sched").map asNat
  let sys : Sys SharedList.Shared SharedList.PState (List SharedList.Out) := ⟨shared, ps.map .running⟩
  let (fin, wasted) := sched.foldl (init := (sys, 0)) fun (s, w) i =>
    match s.threads[i]? with
    | some (Thread.running _) => (step m s i, w)
    | _ => (s, w + 1)
  jo [ ("res", jl ((results fin).map fun | some o => loutsJ o | none => .null)),
       ("den", jl (ps.map fun p => loutsJ (SharedList.den shared p))),
       ("wasted", jn wasted),
       ("shared", jl (fin.shared.map fun l => jl (l.map rowJ))) ]

def handle (req : Json) : Json :=
  if jhas req "lists" then jo [("lists", jl ((jarr req "lists").map handleListCase))]
  else jo [("cases", jl ((jarr req "cases").map handleCase))]

end Yaql.Drv.C18
