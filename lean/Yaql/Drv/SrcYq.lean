import Yaql.Drv.Util
import Yaql.Drv.C07
import Yaql.Model.PyPrelude
/-! JSON codecs of the yaqlization universe for the source-level differential (entries and remapping targets
in the wire form of Drv/C07). -/
namespace Yaql.Drv.SrcYq
open Lean Yaql.Drv Yaql.Yaqlized

def decEntry (j : Json) : Entry := Yaql.Drv.C07.entryOf j

def decSettings (j : Json) : Settings Entry :=
  { whitelist := (jarr j "whitelist").map Yaql.Drv.C07.entryOf
    blacklist := (jarr j "blacklist").map Yaql.Drv.C07.entryOf
    remapping := (jarr j "remap").map Yaql.Drv.C07.remapOf
    autoYaqlizeResult := jbool j "auto" }

def str (n : Yaqlized.Name) : Json := js (String.ofList n)

def encRemap : RemapTarget → Json
  | .name n => jo [("n", str n), ("tuple", jb false)]
  | .tuple n none => jo [("n", str n), ("tuple", jb true), ("argmap", .null)]
  | .tuple n (some am) => jo [("n", str n), ("tuple", jb true), ("argmap", jl (am.map fun p => jl [str p.1, str p.2]))]

def decRemap (j : Json) : RemapTarget := (Yaql.Drv.C07.remapOf (jl [js "", j])).2

def decErr (j : Json) : Yaql.Py.Err :=
  match asStr j with
  | "KeyError" => .keyError
  | "AttributeError" => .attributeError
  | "ValueError" => .valueError
  | "TypeError" => .typeError
  | _ => .indexError

def decName (j : Json) : Yaqlized.Name := (asStr j).toList

end Yaql.Drv.SrcYq
