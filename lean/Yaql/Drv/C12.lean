import Yaql.Drv.Util
import Yaql.Model.Naming
/-! Driver for C12: the naming model (`convert_parameter_name`, `convert_function_name`, the name a
registration gets, aliases under a convention) and the keyword filter of `call()`, batched. -/
namespace Yaql.Drv.C12
open Lean Yaql.Drv Yaql.Types Yaql.Resolve Yaql.Naming

def nm (s : String) : Yaql.Types.Name := s.toList
def nmJ (n : Yaql.Types.Name) : Json := js (String.ofList n)

def decConv (s : String) : Option Conv :=
  match s with
  | "camel" => some .camel | "python" => some .python | _ => none

def optNm (j : Json) (k : String) : Option Yaql.Types.Name :=
  let v := jget j k
  if jisNull v then none else some (nm (asStr v))

def encName : Except NameErr Yaql.Types.Name → Json
  | .ok n => nmJ n
  | .error .indexError => jo [("err", js "IndexError")]

def decDKey (j : Json) : DKey :=
  if jhas j "s" then .str (nm (jstr j "s")) else .other (jnat j "o")

/-- the i-th value of a kwargs dict is the opaque object with identity i -/
def decKwargs (j : Json) : List (DKey × Val) :=
  let rec go (i : Nat) : List Json → List (DKey × Val)
    | [] => []
    | k :: r => (decDKey k, .obj 0 [] i) :: go (i + 1) r
  go 0 (asArr j)

def valTag : Arg → Json
  | .value (.obj _ _ t) => jn t
  | _ => .null

def handle (req : Json) : Json :=
  let items := jarr req "items"
  match jstr req "op" with
  | "conv" =>
      jo [("out", jl (items.map fun j =>
        let c := decConv (jstr j "c")
        let n := nm (jstr j "n")
        if jstr j "k" == "f" then encName (convertFunctionName n c) else nmJ (convertParameterName n c)))]
  | "reg" =>
      jo [("out", jl (items.map fun j =>
        encName (registeredName (decConv (jstr j "c")) (optNm j "regAs") (optNm j "decl") (nm (jstr j "py")))))]
  | "alias" =>
      jo [("out", jl (items.map fun j =>
        let c := decConv (jstr j "c")
        let n := nm (jstr j "n")
        jo [("alias", match aliasUnder c (optNm j "decl") n with | some a => nmJ a | none => .null),
            ("kw", nmJ (keywordName c (optNm j "decl") n))]))]
  | "kw" =>
      jo [("out", jl (items.map fun j => jb (isKeyword (nm (asStr j)))))]
  | "filter" =>
      jo [("out", jl (items.map fun j =>
        let nargs := jnat j "nargs"
        let args : List Val := (List.range nargs).map fun i => .obj 0 [] (1000 + i)
        let (a, kw) := callHandOver args (decKwargs (jget j "kw"))
        jo [("args", jl (a.map valTag)), ("kw", jl (kw.map fun p => jl [nmJ p.1, valTag p.2]))]))]
  | "split" =>
      -- {"c": conv, "decl": [[python name, declared alias | null] ..], "kw": [written keyword ..]} ->
      -- {"bound": [names bound to a parameter], "starstar": [names handed to **kwargs]}
      jo [("out", jl (items.map fun j =>
        let c := decConv (jstr j "c")
        let decl : List (Yaql.Types.Name × Option Yaql.Types.Name) := (jarr j "decl").map fun d =>
          match asArr d with
          | [n, a] => (nm (asStr n), if jisNull a then none else some (nm (asStr a)))
          | _ => ([], none)
        let kw : List (Yaql.Types.Name × Nat) := ((jarr j "kw").map fun k => nm (asStr k)).zipIdx
        let (b, s) := splitKeywords c decl kw
        jo [("bound", jl (b.map fun p => nmJ p.1)), ("starstar", jl (s.map fun p => jl [nmJ p.1, jn p.2]))]))]
  | o => jerr ("C12: unknown op " ++ o)

end Yaql.Drv.C12
