import Yaql.Drv.Util
import Yaql.Drv.ValueJson
import Yaql.Drv.C04
import Yaql.Model.EvalLimits
import Yaql.Gen.EvalSizes
/-! Driver for the evaluator part of C08: runs `Yaql.EvalLimits.runL` (the C04 reference interpreter with the
iterator limit and the memory quota) over the size constants of the running CPython (`Gen.EvalSizes.ecfg`).
request  {"p":"C08Eval","fuel":n,"cases":[{"doc":<value>,"e":<ast>,"lims":[[N|null, Q], ...]}, ...]}
reply    {"res":[[{"ok":<value>} | {"ctx":true} | {"err":"<class>"}, ... one per entry of lims], ...]}
(ASTs as in Drv/C04; `N = null` is "no limit", `Q <= 0` is "no quota").
`{"p":"C08Eval","sizes":[<value>..]}` -> the modelled `sys.getsizeof` of each value (null = not modelled). -/
namespace Yaql.Drv.C08Eval
open Lean Yaql Yaql.Drv Yaql.Eval Yaql.EvalLimits

def errName : LErr → String
  | .quota => "Quota"
  | .tooLarge => "TooLarge"
  | .base e => Yaql.Drv.C04.errName e

def limOf (j : Json) : Lim :=
  match asArr j with
  | [n, q] => { N := if jisNull n then none else some (asNat n), Q := asInt q }
  | _ => Lim.off

def runCase (fuel : Nat) (c : Json) : Json :=
  let lims := (jarr c "lims").map limOf
  match Yaql.Drv.C04.exprOfJson (jget c "e") with
  | none => jl (lims.map fun _ => jo [("err", js "OOD")])
  | some e =>
    let doc := valOfJson (jget c "doc")
    jl (lims.map fun L =>
      match runL Yaql.Gen.EvalSizes.ecfg L fuel doc e with
      | .ok (.data v) => jo [("ok", valToJson v)]
      | .ok .context => jo [("ctx", jb true)]
      | .error er => jo [("err", js (errName er))])

def handle (req : Json) : Json :=
  if jhas req "sizes" then
    jo [("res", jl ((jarr req "sizes").map fun v =>
      match sizeofV Yaql.Gen.EvalSizes.ecfg (valOfJson v) with
      | some n => if n.lo == n.hi then jn n.lo else jl [jn n.lo, jn n.hi]
      | none => Json.null))]
  else
    let fuel := if jhas req "fuel" then jnat req "fuel" else 200
    jo [("res", jl ((jarr req "cases").map (runCase fuel)))]

end Yaql.Drv.C08Eval
