import Yaql.Drv.Util
import Yaql.Gen.SrcDrv
/-! Driver for the source-level differential (harness/srcobl.py): runs the definitions the translator
(`harness/py2lean.py`) produced from the CURRENT yaql source, and the hand-written model expression
of the equivalence theorem, on the same decoded arguments.
request  {"p":"Src","cases":[{"f":"<Area>.<name>","a":[args]}]}
reply    {"r":[{"src":x,"model":y} | {"untranslated":true} | {"err":..}]} -/
namespace Yaql.Drv.Src
open Lean Yaql.Drv

def handle (req : Json) : Json :=
  jo [("r", jl ((jarr req "cases").map fun c => Yaql.Gen.SrcDrv.call (jstr c "f") (jarr c "a")))]

end Yaql.Drv.Src
