import Yaql.Drv.Util
import Yaql.Drv.ValueJson
import Yaql.Model.Scalar
/-! Driver for C15: evaluates every unary / binary scalar operator of the model on a corpus of
values.  Request `{"p":"C15","vals":[v..],"cap":n,"bin":[op..],"un":[op..]}` with either
`"pairs":[[i,j]..]` or all pairs (`lim`: see `gray`); reply `{"bin":[[r..]..],"un":[[r..]..]}`: per operator, per pair (row
major over the corpus when no pairs are given) `{"v":value}` or `{"e":"ErrorClass"}`.
The four IEEE operations are the machine's doubles (Lean `Float`), as in CPython. -/
namespace Yaql.Drv.C15
open Lean Yaql Yaql.Drv Yaql.Scalar

def machineOps : FloatOps where
  add x y := (Float.ofBits x + Float.ofBits y).toBits
  sub x y := (Float.ofBits x - Float.ofBits y).toBits
  mul x y := (Float.ofBits x * Float.ofBits y).toBits
  div x y := (Float.ofBits x / Float.ofBits y).toBits

def errName : Err → String
  | .noMatching => "NoMatchingFunctionException"
  | .ambiguous => "AmbiguousFunctionException"
  | .zeroDivision => "ZeroDivisionError"
  | .overflow => "OverflowError"
  | .memory => "MemoryError"
  | .internal => "model-internal"

def resJ : Except Err SVal → Json
  | .ok v => jo [("v", valToJson v.toValue)]
  | .error e => jo [("e", js (errName e))]

def binOf : String → Option BinOp
  | "*" => some .mul | "/" => some .div | "mod" => some .mod | "+" => some .add | "-" => some .sub
  | ">" => some .gt | "<" => some .lt | ">=" => some .ge | "<=" => some .le
  | "!=" => some .ne | "=" => some .eq | "in" => some .isIn | "and" => some .and | "or" => some .or
  | _ => none

def unOf : String → Option UnOp
  | "+" => some .pos | "-" => some .neg | "not" => some .not
  | _ => none

def kindName : Kind → String
  | .null => "null" | .bool => "bool" | .int => "int" | .float => "float" | .str => "str"

def kindsJ (ks : List Kind) : Json := jl (ks.map fun k => js (kindName k))

/-- the overload table the model dispatches over (for diagnostics when the generated table differs) -/
def tableJ : Json :=
  jl (overloads.map fun o => jo [("name", js (String.ofList o.name)), ("payload", js (String.ofList o.payload)),
    ("params", jl (o.params.map kindsJ)), ("star", match o.star with | some k => kindsJ k | none => .null)])

/-- string repetition whose result would have more than `lim` characters but could be allocated: the
    harness does not exercise it (on either side) -/
def gray (lim cap : Nat) (op : BinOp) (a b : SVal) : Bool :=
  match op, a, b with
  | .mul, .str s, .int n => n > 0 && s.length * n.toNat > lim && s.length * n.toNat ≤ cap
  | .mul, .int n, .str s => n > 0 && s.length * n.toNat > lim && s.length * n.toNat ≤ cap
  | _, _, _ => false

def handle (req : Json) : Json :=
  if jhas req "table" then jo [("table", tableJ)] else
  let vals : Array SVal := ((jarr req "vals").map fun j => (ofValue? (valOfJson j)).getD .null).toArray
  let cap := jnat req "cap"
  let lim := jnat req "lim"
  let pairs : List (Nat × Nat) :=
    if jhas req "pairs" then
      (jarr req "pairs").map fun p => match asArr p with | [i, j] => (asNat i, asNat j) | _ => (0, 0)
    else
      (List.range vals.size).flatMap fun i => (List.range vals.size).map fun j => (i, j)
  let singles : List Nat :=
    if jhas req "singles" then (jarr req "singles").map asNat else List.range vals.size
  let bins := (jarr req "bin").map fun o =>
    match binOf (asStr o) with
    | some op => jl (pairs.map fun (i, j) =>
        let a := vals[i]?.getD .null
        let b := vals[j]?.getD .null
        if gray lim cap op a b then jo [("e", js "not-exercised")] else resJ (evalBin machineOps cap op a b))
    | none => jerr ("unknown binary operator " ++ asStr o)
  let uns := (jarr req "un").map fun o =>
    match unOf (asStr o) with
    | some op => jl (singles.map fun i => resJ (evalUn machineOps cap op (vals[i]?.getD .null)))
    | none => jerr ("unknown unary operator " ++ asStr o)
  jo [("bin", jl bins), ("un", jl uns)]

end Yaql.Drv.C15
