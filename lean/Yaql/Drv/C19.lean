import Yaql.Drv.Util
import Yaql.Drv.ValueJson
import Yaql.Model.Strings
import Yaql.Model.Regex
import Yaql.Gen.StrTables
/-! Driver for C19: runs one string / regex function of the model per case.
request  {"p":"C19","cases":[{"f":name,"a":[values]} | {"f":"re.*",...}]}
reply    {"r":[{"v":value} | {"e":error class}]} -/
namespace Yaql.Drv.C19
open Lean Yaql Yaql.Drv Yaql.Strings Yaql.Regex

/-! ### the parameters of the model, from the generated tables -/

def tabLookup (c : Char) : List (Nat × List Nat × List Nat × Nat) → Option (List Nat × List Nat × Nat)
  | [] => none
  | (k, v) :: r => if k == c.toNat then some v else tabLookup c r

def chars (l : List Nat) : Str := l.map Char.ofNat

def cfg : Cfg :=
  { isSpace := fun c => Gen.StrTables.spaceCodes.contains c.toNat
    upper := fun c => match tabLookup c Gen.StrTables.caseTable with
      | some (u, _, _) => chars u
      | none => [asciiUpper c]
    lower := fun c => match tabLookup c Gen.StrTables.caseTable with
      | some (_, l, _) => chars l
      | none => [asciiLower c] }

/-- simple lower-casing (`_sre.unicode_tolower`) -/
def fold (c : Char) : Char :=
  match tabLookup c Gen.StrTables.caseTable with
  | some (_, _, l) => Char.ofNat l
  | none => asciiLower c

def tables : CharTables :=
  { digits := chars Gen.StrTables.digits, hexdigits := chars Gen.StrTables.hexdigits,
    asciiLowercase := chars Gen.StrTables.asciiLowercase, asciiUppercase := chars Gen.StrTables.asciiUppercase,
    asciiLetters := chars Gen.StrTables.asciiLetters, octdigits := chars Gen.StrTables.octdigits,
    punctuation := chars Gen.StrTables.punctuation, printable := chars Gen.StrTables.printable,
    whitespace := chars Gen.StrTables.whitespace }

/-! ### values -/

def errName : Err → String
  | .valueError => "ValueError"
  | .typeError => "TypeError"
  | .noMatch => "NoMatching"
  | .reError => "ReError"
  | .unsupported => "Unsupported"

def outV (v : Value) : Json := jo [("v", valToJson v)]
def outE (e : Err) : Json := jo [("e", js (errName e))]

def strs (l : List Str) : Value := .list (l.map Value.str)

def atomOf : Value → Option Atom
  | .null => some .null
  | .bool b => some (.bool b)
  | .int i => some (.int i)
  | .str s => some (.str s)
  | _ => none

def atomsOf : List Value → Option (List Atom)
  | [] => some []
  | v :: r => match atomOf v, atomsOf r with
    | some a, some as => some (a :: as)
    | _, _ => none

def pairsOf : List (Value × Value) → Option (List (Atom × Atom))
  | [] => some []
  | (k, v) :: r => match atomOf k, atomOf v, pairsOf r with
    | some a, some b, some as => some ((a, b) :: as)
    | _, _, _ => none

def seqOf : Value → Option (List Value)
  | .list l => some l
  | .tuple l => some l
  | .iter l => some l
  | _ => none

def optStr : Value → Option (Option Str)
  | .null => some none
  | .str s => some (some s)
  | _ => none

def allStrs : List Value → Option (List Str)
  | [] => some []
  | .str s :: r => (allStrs r).map (s :: ·)
  | _ :: _ => none

def flagsOf (l : List Value) : CharFlags :=
  let b (i : Nat) : Bool := match l[i]? with | some (.bool true) => true | _ => false
  { digits := b 0, hexdigits := b 1, asciiLowercase := b 2, asciiUppercase := b 3, asciiLetters := b 4,
    letters := b 5, octdigits := b 6, punctuation := b 7, printable := b 8, lowercase := b 9,
    uppercase := b 10, whitespace := b 11 }

def okL (r : Except Err (List Str)) : Except Err Value := r.map strs

/-- one function of strings.py on positional arguments (receiver first, trailing optional
    arguments may be missing: the model's defaults apply) -/
def callStr (f : String) (args : List Value) : Except Err Value :=
  match f, args with
  | "toUpper", [.str s] => .ok (.str (toUpper cfg s))
  | "toLower", [.str s] => .ok (.str (toLower cfg s))
  | "len", [.str s] => .ok (.int (len s))
  | "toCharArray", [.str s] => .ok (strs (toCharArray s))
  | "split", [.str s] => okL (split cfg s)
  | "split", [.str s, sep] => match optStr sep with
    | some sep => okL (split cfg s sep)
    | none => .error .noMatch
  | "split", [.str s, sep, .int m] => match optStr sep with
    | some sep => okL (split cfg s sep m)
    | none => .error .noMatch
  | "rightSplit", [.str s] => okL (rightSplit cfg s)
  | "rightSplit", [.str s, sep] => match optStr sep with
    | some sep => okL (rightSplit cfg s sep)
    | none => .error .noMatch
  | "rightSplit", [.str s, sep, .int m] => match optStr sep with
    | some sep => okL (rightSplit cfg s sep m)
    | none => .error .noMatch
  | "join", [seq, .str sep] => match (seqOf seq).bind atomsOf with
    | some as => .ok (.str (joinAtoms as sep))
    | none => .error .unsupported
  | "join_", [.str sep, seq] => match (seqOf seq).bind atomsOf with
    | some as => .ok (.str (joinAtoms as sep))
    | none => .error .unsupported
  | "str", [v] => match atomOf v with
    | some a => .ok (.str (strOf a))
    | none => .error .unsupported
  | "hex", [.int i] => .ok (.str (hexOf i))
  | "hex", [.null] => .error .typeError
  | "concat", l => match allStrs l with
    | some ss => .ok (.str (concat ss))
    | none => .error .noMatch
  | "trim", [.str s] => .ok (.str (trim cfg s))
  | "trim", [.str s, c] => match optStr c with
    | some c => .ok (.str (trim cfg s c))
    | none => .error .noMatch
  | "trimLeft", [.str s] => .ok (.str (trimLeft cfg s))
  | "trimLeft", [.str s, c] => match optStr c with
    | some c => .ok (.str (trimLeft cfg s c))
    | none => .error .noMatch
  | "trimRight", [.str s] => .ok (.str (trimRight cfg s))
  | "trimRight", [.str s, c] => match optStr c with
    | some c => .ok (.str (trimRight cfg s c))
    | none => .error .noMatch
  | "norm", [s] => match optStr s with
    | some s => .ok (match norm cfg s with | some v => .str v | none => .null)
    | none => .error .noMatch
  | "norm", [s, c] => match optStr s, optStr c with
    | some s, some c => .ok (match norm cfg s c with | some v => .str v | none => .null)
    | _, _ => .error .noMatch
  | "isEmpty", [s] => match optStr s with
    | some s => .ok (.bool (isEmpty cfg s))
    | none => .error .noMatch
  | "isEmpty", [s, .bool t] => match optStr s with
    | some s => .ok (.bool (isEmpty cfg s t))
    | none => .error .noMatch
  | "isEmpty", [s, .bool t, c] => match optStr s, optStr c with
    | some s, some c => .ok (.bool (isEmpty cfg s t c))
    | _, _ => .error .noMatch
  | "replace", [.str s, .str o, .str n] => .ok (.str (replace s o n))
  | "replace", [.str s, .str o, .str n, .int c] => .ok (.str (replace s o n c))
  | "replaceDict", [.str s, .dict d] => match pairsOf d with
    | some ps => .ok (.str (replaceDict s ps))
    | none => .error .unsupported
  | "replaceDict", [.str s, .dict d, .int c] => match pairsOf d with
    | some ps => .ok (.str (replaceDict s ps c))
    | none => .error .unsupported
  | "*", [.str s, .int n] => .ok (.str (repeatStr s n))
  | "*", [.int n, .str s] => .ok (.str (repeatStr s n))
  | "in", [.str l, .str r] => .ok (.bool (isIn l r))
  | "substring", [.str s, .int a] => .ok (.str (substring s a))
  | "substring", [.str s, .int a, .int l] => .ok (.str (substring s a l))
  | "indexOf", [.str s, .str sub] => .ok (.int (indexOf s sub))
  | "indexOf", [.str s, .str sub, .int a] => .ok (.int (indexOf s sub a))
  | "indexOf", [.str s, .str sub, .int a, .int l] => .ok (.int (indexOf4 s sub a l))
  | "lastIndexOf", [.str s, .str sub] => .ok (.int (lastIndexOf s sub))
  | "lastIndexOf", [.str s, .str sub, .int a] => .ok (.int (lastIndexOf s sub a))
  | "lastIndexOf", [.str s, .str sub, .int a, .int l] => .ok (.int (lastIndexOf4 s sub a l))
  | "characters", l => .ok (.set ((characters tables (flagsOf l)).map fun c => .str [c]))
  | "startsWith", .str s :: ps => match allStrs ps with
    | some ps => .ok (.bool (startsWith s ps))
    | none => .error .noMatch
  | "endsWith", .str s :: ps => match allStrs ps with
    | some ps => .ok (.bool (endsWith s ps))
    | none => .error .noMatch
  | "isString", [.str _] => .ok (.bool true)
  | "isString", [_] => .ok (.bool false)
  | "<", [.str a, .str b] => .ok (.bool (ltStr a b))
  | ">", [.str a, .str b] => .ok (.bool (ltStr b a))
  | "<=", [.str a, .str b] => .ok (.bool (!ltStr b a))
  | ">=", [.str a, .str b] => .ok (.bool (!ltStr a b))
  | "escapeRegex", [.str s] => .ok (.str (escapeRegex (chars Gen.StrTables.reSpecial) s))
  | _, _ => .error .noMatch

/-! ### regex cases -/

def strJ (j : Json) : Str := (asArr j).map fun c => Char.ofNat (asNat c)

partial def reOfJson (j : Json) : Re :=
  match jstr j "t" with
  | "lit" => .lit (Char.ofNat (jnat j "c"))
  | "cls" => .cls (jbool j "neg") ((jarr j "cs").map fun c => Char.ofNat (asNat c))
  | "dot" => .dot
  | "bol" => .bol
  | "eol" => .eol
  | "seq" => .seq (reOfJson (jget j "a")) (reOfJson (jget j "b"))
  | "alt" => .alt (reOfJson (jget j "a")) (reOfJson (jget j "b"))
  | "star" => .star (jbool j "g") (reOfJson (jget j "r"))
  | "plus" => .plus (jbool j "g") (reOfJson (jget j "r"))
  | "opt" => .opt (jbool j "g") (reOfJson (jget j "r"))
  | "grp" => .grp (jnat j "i") (reOfJson (jget j "r"))
  | _ => .eps

def keyOfJson (j : Json) : Key :=
  if jhas j "n" then .num (jnat j "n") else .name (strJ (jget j "name"))

def fldOf : String → Fld
  | "start" => .start
  | "end" => .stop
  | _ => .value

def atomOfJson (j : Json) : SelAtom :=
  match jstr j "t" with
  | "var" => .var (keyOfJson j)
  | "field" => .field (keyOfJson j) (fldOf (jstr j "f"))
  | "strField" => .strField (keyOfJson j) (fldOf (jstr j "f"))
  | _ => .lit (strJ (jget j "s"))

def selOfJson (j : Json) : Option Sel :=
  match jstr j "t" with
  | "one" => some (.one (atomOfJson (jget j "a")))
  | "list" => some (.list ((jarr j "l").map atomOfJson))
  | "concat" => some (.concat ((jarr j "l").map atomOfJson))
  | _ => none

def titemOfJson (j : Json) : TItem :=
  match jstr j "t" with
  | "num" => .num (jnat j "n")
  | "name" => .name (strJ (jget j "s"))
  | _ => .lit (strJ (jget j "s"))

def recV (r : Rec) : Value :=
  .dict [(.str "value".toList, match r.value with | some v => .str v | none => .null),
         (.str "start".toList, .int r.start), (.str "end".toList, .int r.stop)]

def ratomV : RAtom → Value
  | .null => .null
  | .int i => .int i
  | .str s => .str s
  | .record r => recV r

def rvalV : RVal → Value
  | .atom a => ratomV a
  | .list l => .list (l.map ratomV)

def callRe (f : String) (c : Json) : Except Err Value :=
  let pat : Pattern :=
    { re := reOfJson (jget c "pat"), ngroups := jnat c "ng",
      names := (jarr c "names").map fun p => match asArr p with
        | [n, i] => (strJ n, asNat i)
        | _ => ([], 0) }
  let fl : Flags := { ignoreCase := jbool c "i", multiLine := jbool c "m", dotAll := jbool c "d" }
  let s := strJ (jget c "s")
  let sel := selOfJson (jget c "sel")
  let count := jint c "count"
  let M := execMatcher fold
  match f with
  | "re.matches" => .ok (.bool (reMatches M pat fl s))
  | "re.notMatches" => .ok (.bool (reNotMatches M pat fl s))
  | "re.search" => (search M pat fl s sel).map rvalV
  | "re.searchAll" => (searchAll M pat fl s sel).map fun l => .list (l.map rvalV)
  | "re.split" => .ok (.list ((reSplit M pat fl s count).map fun
      | some t => .str t
      | none => .null))
  | "re.replace" => (reReplace M pat fl s ((jarr c "repl").map titemOfJson) count).map .str
  | "re.replaceBy" => match sel with
    | some sel => (reReplaceBy M pat fl s sel count).map .str
    | none => .error .unsupported
  | _ => .error .unsupported

def runCase (c : Json) : Json :=
  let f := jstr c "f"
  let r := if f.startsWith "re." then callRe f c else callStr f ((jarr c "a").map valOfJson)
  match r with
  | .ok v => outV v
  | .error e => outE e

def handle (req : Json) : Json :=
  jo [("r", jl ((jarr req "cases").map runCase))]

end Yaql.Drv.C19
