import Yaql.Drv.LexJson
import Yaql.Drv.C02
import Yaql.Model.Parse
/-! Driver for C03 (and the text-level part of C01): `engine(text)` on the assembled model.
request `{"p":"C03","cfg":<LexJson config>,"base":[..],"inserts":[..],"delegates":bool,"texts":[[cp..]..]}`
reply   `{"results":[{"ok":tree} | {"lexical":pos,"v":[cp..]} | {"grammar":pos|null} | {"surr":pos}, ..]}` -/
namespace Yaql.Drv.C03
open Lean Yaql.Drv Yaql.Syntax Yaql.OpTable Yaql.Parse

def outcomeJ : Outcome → Json
  | .ok t => jo [("ok", Yaql.Drv.C02.astJ t)]
  | .lexical v p => jo [("lexical", jn p), ("v", LexJson.cpsJ v)]
  | .grammar none => jo [("grammar", .null)]
  | .grammar (some p) => jo [("grammar", jn p)]
  | .surrogate p => jo [("surr", jn p)]

def handle (req : Json) : Json :=
  match Yaql.Drv.C02.opListOfReq req with
  | none => jerr "bad operator record"
  | some (base, ins) =>
    let (ops, _) := Yaql.Drv.C02.replay base ins
    match buildOperatorTable ops with
    | .error (.invalidOperatorTable sym) => jo [("invalid_operator_table", Yaql.Drv.C02.strJ sym)]
    | .ok t =>
      let pc := Cfg.ofTable t (jbool req "delegates")
      let lc := LexJson.cfgOfJson (jget req "cfg")
      jo [("results", jl ((jarr req "texts").map fun tj => outcomeJ (parseText lc pc (LexJson.cps tj))))]

end Yaql.Drv.C03
