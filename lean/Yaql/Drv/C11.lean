import Yaql.Drv.Util
import Yaql.Model.EvalOrder
/-! Driver for C11: predicted probe traces of expression shapes. -/
namespace Yaql.Drv.C11
open Lean Yaql.Drv Yaql.EvalOrder

partial def decX (j : Json) : X :=
  let kids (k : String) := (jarr j k).map decX
  let flags (k : String) := (jarr j k).map asBool
  match jstr j "k" with
  | "tick" => .tick (jnat j "id") (decX (jget j "a"))
  | "eager" => .eager (kids "ks")
  | "and" => .and_ (decX (jget j "a")) (decX (jget j "b")) (jbool j "t")
  | "or" => .or_ (decX (jget j "a")) (decX (jget j "b")) (jbool j "t")
  | "elvis" => .elvis (decX (jget j "r")) (jbool j "null") (kids "ks")
  | "switch" => .switch (kids "cs") (flags "ts") (kids "vs")
  | "selectCase" => .selectCase (kids "ps") (flags "ts")
  | "allCases" => .allCases (kids "ps")
  | "switchCase" => .switchCase (decX (jget j "c")) (jnatOpt j "sel") (kids "as")
  | "coalesce" => .coalesce (kids "as") (flags "nulls")
  | _ => .leaf

/-- `{"xs":[X...]}` -> `{"traces":[[ids]...]}` -/
def handle (req : Json) : Json :=
  jo [("traces", jl ((jarr req "xs").map fun x => jl ((trace (decX x)).map jn)))]

end Yaql.Drv.C11
