import Yaql.Drv.Util
import Yaql.Model.EvalOrder
import Yaql.Model.PerElem
/-! Driver for C11: predicted probe traces of expression shapes, and of pipelines of streaming operators with
per-element lambdas.
pipe  := {"src":{"n":number of elements,"x":X of the source expression (its eager arguments),
                 "lazy":bool,"outs":[[X fired when that element is pulled..]..],"fin":[X fired when the end is found..]},
          "stages":[stage..]}    ("lazy": a generating source such as generate / generateMany; otherwise a list literal)
stage := {"op":"select"|"filter"|"takeWhile"|"skipWhile"|"selectMany"|"search"|"each"|"accumulate"|"take"|"skip"|"pass"|
          "zip"|"concat"|"join", "eager":[X of the eagerly evaluated arguments..], "bodies":[X per input element..],
          "flags":[bool..], "counts":[n..], "nout":n, "k":n, "seeded":bool, "other":pipe (the secondary collection),
          "preds":[[X..]..], "pflags":[[bool..]..], "sels":[[X..]..]} -/
namespace Yaql.Drv.C11
open Lean Yaql.Drv Yaql.EvalOrder Yaql.PerElem

partial def decX (j : Json) : X :=
  let kids (k : String) := (jarr j k).map decX
  let flags (k : String) := (jarr j k).map asBool
  match jstr j "k" with
  | "tick" => .tick (jnat j "id") (decX (jget j "a"))
  | "eager" => .eager (kids "ks")
  | "and" => .and_ (decX (jget j "a")) (decX (jget j "b")) (jbool j "t")
  | "or" => .or_ (decX (jget j "a")) (decX (jget j "b")) (jbool j "t")
  | "elvis" => .elvis (decX (jget j "r")) (jbool j "null") (kids "ks")
  | "switch" => .switch (kids "cs") (flags "ts") (kids "vs")
  | "selectCase" => .selectCase (kids "ps") (flags "ts")
  | "allCases" => .allCases (kids "ps")
  | "switchCase" => .switchCase (decX (jget j "c")) (jnatOpt j "sel") (kids "as")
  | "coalesce" => .coalesce (kids "as") (flags "nulls")
  | "defCalls" => .defCalls (decX (jget j "b")) (flags "sl") (kids "os")
  | "raise" => .raise_ (kids "ks")
  | "lazy" => .lazy (kids "b") (kids "d")
  | _ => .leaf

def xsJ (j : Json) (k : String) : List X := (jarr j k).map decX
def xssJ (j : Json) (k : String) : List (List X) := (jarr j k).map fun a => (asArr a).map decX
def flagsJ (j : Json) (k : String) : List Bool := (jarr j k).map asBool
def flagssJ (j : Json) (k : String) : List (List Bool) := (jarr j k).map fun a => (asArr a).map asBool

/-- a pipeline: the probes fired while the expression is built (eager arguments, in source order) and the
    lazy stream it denotes -/
partial def evalPipe (j : Json) : List Nat × PerElem.Strm :=
  let s := jget j "src"
  let go (acc : List Nat × PerElem.Strm) (st : Json) : List Nat × PerElem.Strm :=
    let other : List Nat × PerElem.Strm :=
      if jhas st "other" && !jisNull (jget st "other") then evalPipe (jget st "other") else ([], {})
    let eager := other.1 ++ ((xsJ st "eager").map trace).flatten
    let op : Option Op :=
      match jstr st "op" with
      | "select" => some (.select (xsJ st "bodies"))
      | "filter" => some (.filter (xsJ st "bodies") (flagsJ st "flags"))
      | "takeWhile" => some (.takeWhile (xsJ st "bodies") (flagsJ st "flags"))
      | "skipWhile" => some (.skipWhile (xsJ st "bodies") (flagsJ st "flags"))
      | "selectMany" => some (.selectMany (xsJ st "bodies") ((jarr st "counts").map asNat))
      | "search" => some (.search (xsJ st "bodies") (flagsJ st "flags"))
      | "each" => some (.each (xsJ st "bodies") (jnat st "nout"))
      | "accumulate" => some (.accumulate (xsJ st "bodies") (jbool st "seeded"))
      | "take" => some (.take (jnat st "k"))
      | "skip" => some (.skip (jnat st "k"))
      | "pass" => some .pass
      | "zip" => some (.zip other.2)
      | "concat" => some (.concat other.2)
      | "join" => some (.join other.2 (xssJ st "preds") (flagssJ st "pflags") (xssJ st "sels"))
      | _ => none
    match op with
    | some o => (acc.1 ++ eager, runOn (stageOf o) acc.2)
    | none => (acc.1 ++ [0], acc.2)         -- an unknown operator shows up as the impossible probe 0
  let src : PerElem.Strm :=
    if jhas s "lazy" then ⟨(xssJ s "outs").map fun xs => (xs.map trace).flatten, ((xsJ s "fin").map trace).flatten⟩
    else listSrc (jnat s "n")
  (jarr j "stages").foldl go (trace (decX (jget s "x")), src)

/-- `{"xs":[X...],"pipes":[pipe...]}` -> `{"traces":[[ids]...],"runs":[{"log":[ids],"failed":bool}...],"plogs":[[ids]...]}`
    (`traces`: the log if no call failed; `runs`: the log up to the first failing call that is reached) -/
def handle (req : Json) : Json :=
  jo [("traces", jl ((jarr req "xs").map fun x => jl ((trace (decX x)).map jn))),
      ("runs", jl ((jarr req "xs").map fun x => let r := run (decX x); jo [("log", jl (r.1.map jn)), ("failed", jb r.2)])),
      ("plogs", jl ((if jhas req "pipes" then jarr req "pipes" else []).map fun p =>
        let r := evalPipe p
        jl ((r.1 ++ r.2.log).map jn)))]

end Yaql.Drv.C11
