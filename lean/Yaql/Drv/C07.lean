import Yaql.Drv.Util
import Yaql.Model.Yaqlized
/-! Driver for C07: builds yaqlization settings from the arguments of `yaqlize(..)` and reports, for
every probe name, what each of the three access forms does to the host object.

request  {"p":"C07","cases":[{"yaqlized":bool,"attrs":b,"methods":b,"indexer":b,"auto":b,
           "whitelist":[entry],"blacklist":[entry],"remap":[[key,{"n":target,"tuple":b,"argmap":null|[[a,b]]}]],
           "names":[name],"kws":[name]}]}
entry    {"k":"str","s":name} | {"k":"rx","start":b,"end":b,"atoms":[char|null]} | {"k":"table","acc":[name]}
reply    {"cases":[{"child":r,"rows":[{"allowed":b,"attr":r,"method":r,"index":r}]}]},  r = {"ok":kind,"m":member,"am":[[a,b]]} | {"err":class}
-/
namespace Yaql.Drv.C07
open Lean Yaql.Drv Yaql.Yaqlized
abbrev Nm := Yaql.Yaqlized.Name

def nameOf (j : Json) : Nm := (asStr j).toList

def entryOf (j : Json) : Entry :=
  match jstr j "k" with
  | "str" => .str (jstr j "s").toList
  | "rx" =>
      .regex { anchorStart := jbool j "start", anchorEnd := jbool j "end",
               atoms := (jarr j "atoms").map fun a =>
                 match a with
                 | .str s => match s.toList with
                   | c :: _ => RxAtom.ch c
                   | [] => RxAtom.any
                 | _ => RxAtom.any }
  | _ => .table ((jarr j "acc").map nameOf)

def pairOf (j : Json) : Nm × Nm :=
  match asArr j with
  | [a, b] => (nameOf a, nameOf b)
  | _ => ([], [])

def remapOf (j : Json) : Nm × RemapTarget :=
  match asArr j with
  | [k, v] =>
      let n := (jstr v "n").toList
      if jbool v "tuple" then
        (nameOf k, .tuple n (if jisNull (jget v "argmap") then none else some ((jarr v "argmap").map pairOf)))
      else (nameOf k, .name n)
  | _ => ([], .name [])

def hostOf (c : Json) : Host Entry :=
  if jbool c "yaqlized" then
    some (buildSettings (jbool c "attrs") (jbool c "methods") (jbool c "indexer") (jbool c "auto")
      ((jarr c "whitelist").map entryOf) ((jarr c "blacklist").map entryOf) ((jarr c "remap").map remapOf))
  else none

def errJ : Err → String
  | .attributeError => "AttributeError"
  | .keyError => "KeyError"
  | .typeError => "TypeError"
  | .indexError => "IndexError"
  | .notYaqlized => "NotYaqlized"

def str (n : Nm) : Json := js (String.ofList n)

def resJ : Except Err Access → Json
  | .error e => jo [("err", js (errJ e))]
  | .ok (.getattr n) => jo [("ok", js "getattr"), ("m", str n)]
  | .ok (.callattr n am) => jo [("ok", js "call"), ("m", str n), ("am", jl (am.map fun p => jl [str p.1, str p.2]))]
  | .ok (.getitem n) => jo [("ok", js "getitem"), ("m", str n)]
  | .ok (.attrThenRaise n) => jo [("ok", js "attrThenRaise"), ("m", str n)]

/-- `.secret` of a non-builtin, settable, not yet yaqlized object returned by a member of `h` -/
def childJ (h : Host Entry) : Json :=
  match h with
  | none => resJ (.error .notYaqlized)
  | some s =>
    let r := autoYaqlize s { builtin := false, settable := true, settings := none }
    resJ (access .attr r.settings "secret".toList)

def caseJ (c : Json) : Json :=
  let h := hostOf c
  jo [("child", childJ h), ("rows", jl ((jarr c "names").map fun nj =>
    let n := nameOf nj
    jo [ ("allowed", jb (match h with | some s => allowed s n | none => false)),
         ("attr", resJ (access .attr h n)),
         ("method", resJ (access .method h n ((jarr c "kws").map nameOf))),
         ("index", resJ (access .index h n)) ]))]

def handle (req : Json) : Json :=
  jo [("cases", jl ((jarr req "cases").map caseJ))]

end Yaql.Drv.C07
