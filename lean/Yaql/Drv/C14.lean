import Yaql.Drv.Util
import Yaql.Drv.ValueJson
import Yaql.Drv.C13
import Yaql.Model.Stream
/-! Driver for C14: cost of the first k results of a pipeline of streaming operators over an endless source.
request  {"p":"C14","cases":[{"base":[ints],"delta":d,"dict":bool,"n":prefix length,"k":k,"ops":[...as C13...]}]}
         source element i = base[i mod |base|] + (i div |base|) * delta   (wrapped as {"a": .} when "dict")
         optional "sec": the pipeline "ops" feeds a SECONDARY collection argument of the operator described by
         "sec" ({"kind":"join","prim":[..],"f2":..,"g2":..} | {"kind":"zip"|"zipLongest"|"concat","before":[[..]..],
         "after":[[..]..]} | {"kind":"insertMany"|"replaceMany"|"defaultIfEmpty"|"selectMany","prim":[..],"n":..,"m":..}),
         followed by the stages "post"; optional "len": the source is finite (closed after "len" elements)
reply    {"res":[{"outs":[{"v":<value>|"err":cls,"pulls":p,"apps":a}...],"enough":bool} | {"err":"not-streaming"}]} -/
namespace Yaql.Drv.C14
open Lean Yaql Yaql.Drv Yaql.Seq Yaql.Stream

def sourceFn (base : List Int) (delta : Int) (asDict : Bool) (i : Nat) : Value :=
  let p := base.length
  let v : Int := if p = 0 then (i : Int) else base.getD (i % p) 0 + ((i / p : Nat) : Int) * delta
  if asDict then .dict [(.str ['a'], .int v)] else .int v

def outJ (o : Out) : Json :=
  match o.item with
  | .ok v => jo [("v", valToJson v), ("pulls", jn o.pulls), ("apps", jn o.apps)]
  | .error e => jo [("err", js (C13.errName e)), ("pulls", jn o.pulls), ("apps", jn o.apps)]

/-- the machine of an operator seen from its secondary lazy collection argument -/
def secMachine (j : Json) : Option Machine :=
  let prim := C13.valsJ j "prim"
  let before := C13.valssJ j "before"
  let after := C13.valssJ j "after"
  let splice (p : VL × Option VL) : Option Machine := some (mSplice p.1 p.2)
  match jstr j "kind" with
  | "join" => some (mJoinInner prim (C13.lam2OfJson (jget j "f2")) (C13.lam2OfJson (jget j "g2")))
  | "zip" => some (mZipAt before after)
  | "zipLongest" => some (mZipLongestAt before after ((C13.optValJ j "v").getD .null))
  | "concat" => splice (spliceConcat before after)
  | "insertMany" => splice (spliceInsertMany prim (jint j "n"))
  | "replaceMany" => splice (spliceReplaceMany (jint j "n") ((C13.optIntJ j "m").getD 1) 0 prim)
  | "defaultIfEmpty" => splice (spliceDefault prim)
  | "selectMany" => some (mSelectManyInner (!prim.isEmpty))
  | _ => none

def runCase (c : Json) : Json :=
  let base := (jarr c "base").map asInt
  let ops := (jarr c "ops").map C13.opOfJson
  let post := if jhas c "post" then (jarr c "post").map C13.opOfJson else []
  if ops.any Option.isNone || post.any Option.isNone then jerr "bad-op"
  else
    let sec : List (Option Machine) := if jhas c "sec" && !jisNull (jget c "sec") then [secMachine (jget c "sec")] else []
    let ms := (ops.filterMap id).map machineOf ++ sec ++ (post.filterMap id).map machineOf
    if ms.any Option.isNone then jerr "not-streaming"
    else
      let xs := prefixOf (sourceFn base (jint c "delta") (jbool c "dict")) (jnat c "n")
      let closed := jhas c "len" && !jisNull (jget c "len")
      let st := Stream.runPipe (ms.filterMap id) (if closed then srcClosed (xs.take (jnat c "len")) else src xs)
      let o := st.outs
      let k := jnat c "k"
      -- `fin`: the pipeline is known to end (stamps of the end) although fewer than k results exist
      jo [("outs", jl ((o.take k).map outJ)), ("enough", jb (decide (k ≤ o.length))), ("total", jn o.length),
          ("fin", match st.fin with | some (p, a) => jl [jn p, jn a] | none => Json.null)]

def handle (req : Json) : Json :=
  jo [("res", jl ((jarr req "cases").map runCase))]

end Yaql.Drv.C14
