import Yaql.Drv.Util
import Yaql.Drv.ValueJson
import Yaql.Model.Eval
/-! Driver for C04: runs the reference interpreter `Yaql.Eval.run` on programs sent as ASTs.
request  {"p":"C04","fuel":n,"cases":[{"doc":<value>,"e":<ast>}, ...]}
reply    {"res":[{"ok":<value>} | {"ctx":true} | {"err":"<class>"}, ...]}

ast ::= ["lit",<value>] | ["kw","name"] | ["var","$x"] | ["list",[ast..]] | ["map",[[ast,ast]..]]
      | ["index",ast,[ast..]] | ["un","not"|"neg",ast] | ["bin",<op>,ast,ast] | ["arrow",ast,ast]
      | ["member",ast,"name"] | ["call","f",[ast..],[[ast,ast]..]] | ["method",ast,"f",[ast..],[[ast,ast]..]]
A function name that is no builtin of the fragment becomes `ucall` / `umethod`; a `def` of a
builtin's name is outside the model ("OOD").  Names cross the wire as JSON strings and become
`List Char` verbatim (`String.toList`): nothing on this path looks at the characters of a
variable / keyword / key name.  Function names are looked up modulo trailing underscores
(`Eval.fnKey`), so `len_(..)` is the builtin `len`. -/
namespace Yaql.Drv.C04
open Lean Yaql Yaql.Drv Yaql.Eval

def errName : Err → String
  | .fuel => "OOD"
  | .outOfDomain => "OOD"
  | .noFunction => "NoMatchingFunctionException"
  | .noMethod => "NoMatchingMethodException"
  | .unknownFunction => "NoFunctionRegisteredException"
  | .unknownMethod => "NoMethodRegisteredException"
  | .mapping => "MappingTranslationException"
  | .key => "KeyError"
  | .index => "IndexError"
  | .type => "TypeError"
  | .value => "ValueError"
  | .stopIteration => "StopIteration"
  | .zeroDiv => "ZeroDivisionError"

def fnOfName0 : String → Option Fn
  | "let" => some .let_ | "with" => some .with_ | "def" => some .def_ | "list" => some .list
  | "dict" => some .dict | "unpack" => some .unpack | "select" => some .select | "where" => some .where_
  | "selectMany" => some .selectMany | "orderBy" => some .orderBy
  | "orderByDescending" => some .orderByDescending | "takeWhile" => some .takeWhile
  | "skipWhile" => some .skipWhile | "indexWhere" => some .indexWhere | "toDict" => some .toDict
  | "aggregate" => some .aggregate | "sum" => some .sum | "first" => some .first | "toList" => some .toList
  | "take" => some .take | "skip" => some .skip | "get" => some .get | "len" => some .len
  | "any" => some .any | "all" => some .all
  | _ => none

/-- builtins are found under their name with any number of trailing underscores -/
def fnOfName (s : String) : Option Fn := fnOfName0 (String.ofList (fnKey s.toList))

def binOfName : String → Option BinOp
  | "add" => some .add | "sub" => some .sub | "mul" => some .mul | "eq" => some .eq | "ne" => some .ne
  | "lt" => some .lt | "le" => some .le | "gt" => some .gt | "ge" => some .ge | "and" => some .and
  | "or" => some .or
  | _ => none

/-- `none` = not an AST of the fragment -/
partial def exprOfJson (j : Json) : Option Expr :=
  let list (js : List Json) : Option (List Expr) := js.mapM exprOfJson
  let pairs (js : List Json) : Option (List (Expr × Expr)) := js.mapM fun p =>
    match asArr p with
    | [k, v] => do let a ← exprOfJson k; let b ← exprOfJson v; pure (a, b)
    | _ => none
  match asArr j with
  | [t, a] =>
    match asStr t with
    | "lit" => some (.lit (valOfJson a))
    | "kw" => some (.kw (asStr a).toList)
    | "var" => some (.var (asStr a).toList)
    | "list" => do let es ← list (asArr a); pure (.list es)
    | "map" => do let ps ← pairs (asArr a); pure (.map ps)
    | _ => none
  | [t, a, b] =>
    match asStr t with
    | "index" => do let e ← exprOfJson a; let es ← list (asArr b); pure (.index e es)
    | "un" => do
      let e ← exprOfJson b
      match asStr a with
      | "not" => pure (.un .not e)
      | "neg" => pure (.un .neg e)
      | _ => none
    | "arrow" => do let l ← exprOfJson a; let r ← exprOfJson b; pure (.arrow l r)
    | "member" => do let e ← exprOfJson a; pure (.member e (asStr b).toList)
    | _ => none
  | [t, a, b, c] =>
    match asStr t with
    | "bin" => do let op ← binOfName (asStr a); let x ← exprOfJson b; let y ← exprOfJson c; pure (.bin op x y)
    | "call" => do
      let args ← list (asArr b)
      let kw ← pairs (asArr c)
      match fnOfName (asStr a) with
      | some .def_ =>
        -- a `def` of a builtin's name would shadow it: not modelled
        match args with
        | (.kw n) :: _ | (.lit (.str n)) :: _ =>
          if (fnOfName (String.ofList n)).isSome then none else pure (.call .def_ args kw)
        | _ => pure (.call .def_ args kw)
      | some f => pure (.call f args kw)
      | none => pure (.ucall (asStr a).toList args kw)
    | _ => none
  | [t, a, b, c, d] =>
    match asStr t with
    | "method" => do
      let e ← exprOfJson a
      let args ← list (asArr c)
      let kw ← pairs (asArr d)
      match fnOfName (asStr b) with
      | some f => pure (.method e f args kw)
      | none => pure (.umethod e (asStr b).toList)
    | _ => none
  | _ => none

/-- `{"layers": [[[name, value]..]..], "at": n}`: the host's context chain from the root upwards -/
def layersOfJson (h : Json) : List (List (List Char × Value)) :=
  (jarr h "layers").map fun layer =>
    (asArr layer).map fun p =>
      match asArr p with
      | [n, v] => ((asStr n).toList, valOfJson v)
      | _ => ([], .null)

def runCase (fuel : Nat) (c : Json) : Json :=
  match exprOfJson (jget c "e") with
  | none => jo [("err", js "OOD")]
  | some e =>
    match (if jhas c "host" then runKw fuel (layersOfJson (jget c "host")) (jnat (jget c "host") "at") (valOfJson (jget c "doc")) e
           else runKw fuel [] 0 (valOfJson (jget c "doc")) e) with
    | .ok (.data v) => jo [("ok", valToJson v)]
    | .ok .context => jo [("ctx", jb true)]
    | .error er => jo [("err", js (errName er))]

def handle (req : Json) : Json :=
  let fuel := if jhas req "fuel" then jnat req "fuel" else 200
  jo [("res", jl ((jarr req "cases").map (runCase fuel)))]

end Yaql.Drv.C04
