import Yaql.Drv.Util
import Yaql.Drv.ValueJson
import Yaql.Model.PyPrelude
import Yaql.Model.Strings
import Yaql.Model.Scalar
/-! JSON codecs of the translator's type universe (protocol of harness/srcobl.py):
int -> decimal string | bool | str -> [code points] | T? -> null / {"some": x} | [T] -> array |
(A, B, ..) -> array | {K: V} -> array of [k, v] | Except -> {"ok": x} / {"err": "<class>"} -/
namespace Yaql.Drv.SrcCodec
open Lean Yaql.Drv

def decInt (j : Json) : Int := match j with | .str s => s.toInt?.getD 0 | _ => asInt j
def encInt (i : Int) : Json := js (toString i)
def decNat (j : Json) : Nat := (decInt j).toNat
def encNat (n : Nat) : Json := js (toString n)
def decBool (j : Json) : Bool := asBool j
def encBool (b : Bool) : Json := jb b
def decChar (j : Json) : Char := Char.ofNat (asNat j)
def encChar (c : Char) : Json := jn c.toNat
def decStr (j : Json) : List Char := (asArr j).map decChar
def encStr (s : List Char) : Json := jl (s.map encChar)
def decUnit (_ : Json) : Unit := ()
def encUnit (_ : Unit) : Json := .null
def decOpt {α : Type} (d : Json → α) (j : Json) : Option α := if jisNull j then none else some (d (jget j "some"))
def encOpt {α : Type} (e : α → Json) : Option α → Json
  | none => .null
  | some v => jo [("some", e v)]
def decList {α : Type} (d : Json → α) (j : Json) : List α := (asArr j).map d
def encList {α : Type} (e : α → Json) (l : List α) : Json := jl (l.map e)
def nth (j : Json) (i : Nat) : Json := (asArr j).getD i .null
def decPair {α β : Type} (da : Json → α) (db : Json → β) (j : Json) : α × β := (da (nth j 0), db (nth j 1))
def encPair {α β : Type} (ea : α → Json) (eb : β → Json) (p : α × β) : Json := jl [ea p.1, eb p.2]

def errName : Yaql.Py.Err → String
  | .valueError => "ValueError" | .typeError => "TypeError" | .indexError => "IndexError"
  | .keyError => "KeyError" | .zeroDivision => "ZeroDivisionError" | .overflowError => "OverflowError"
  | .stopIteration => "StopIteration" | .attributeError => "AttributeError"
  | .notImplemented => "NotImplementedError" | .fuel => "fuel" | .other n => "other" ++ toString n

def encExcept {α : Type} (e : α → Json) : Except Yaql.Py.Err α → Json
  | .ok v => jo [("ok", e v)]
  | .error c => jo [("err", js (errName c))]

def decAtom (j : Json) : Yaql.Strings.Atom :=
  match j with
  | .null => .null
  | .bool b => .bool b
  | _ => if jhas j "i" then .int (decInt (jget j "i")) else .str (decStr (jget j "s"))

def encAtom : Yaql.Strings.Atom → Json
  | .null => .null
  | .bool b => .bool b
  | .int i => jo [("i", encInt i)]
  | .str s => jo [("s", encStr s)]

def decSVal (j : Json) : Yaql.Scalar.SVal := (Yaql.Scalar.ofValue? (valOfJson j)).getD .null
def encSVal (v : Yaql.Scalar.SVal) : Json := valToJson v.toValue
def decNum (j : Json) : Yaql.Scalar.Num := (Yaql.Scalar.asNum (decSVal j)).getD (.int 0)
def encNum (n : Yaql.Scalar.Num) : Json := encSVal n.toSVal

/-! closed families of total callables the differential instantiates callable parameters with
(harness/srcgen_targets.py `FN_FAMILIES` holds the python twins, same order) -/

/-- predicates on values -/
def decPredV (j : Json) : Yaql.Value → Bool :=
  match decNat j with
  | 0 => fun _ => false
  | 1 => fun _ => true
  | 2 => fun v => match v with | .int _ => true | _ => false
  | 3 => fun v => match v with | .int i => decide (i > 1) | _ => false
  | 4 => fun v => match v with | .null => true | _ => false
  | _ => fun v => match v with | .str _ => true | _ => false

end Yaql.Drv.SrcCodec
