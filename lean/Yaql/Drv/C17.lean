import Yaql.Drv.Util
import Yaql.Model.Context
/-! Driver for C17: replays a context history on the model and reports, after
every step, what each context handle answers. -/
namespace Yaql.Drv.C17
open Lean Yaql.Drv Yaql.Context

structure St where
  cells : Cells := []
  hs : Array Shape := #[]

def valJ : Val → Json
  | none => .null
  | some i => ji i

def sortN (l : List Nat) : List Nat := l.mergeSort (· ≤ ·)

def observe (st : St) (names fnames : List Context.Name) : Json :=
  jl <| st.hs.toList.map fun s =>
    jo [ ("get", jl (names.map fun n => valJ (getData st.cells s n))),
         ("has", jl (names.map fun n => jb (containsName st.cells s n))),
         ("keys", jl ((keys st.cells s).map fun k => js (String.ofList k))),
         ("col", jl (fnames.map fun f =>
            jl ((collectFunctions st.cells s f).map fun l => jl ((sortN l).map jn)))),
         ("gf", jl (fnames.map fun f =>
            let (l, e) := getFunctions st.cells (rstripUnderscore f) s
            jl [jl ((sortN l).map jn), jb e])) ]

def optShape (st : St) (j : Json) (k : String) : Option Shape :=
  match jnatOpt j k with
  | some h => st.hs[h]?
  | none => none

def step (st : St) (op : Json) : St × String :=
  let h := jnat op "h"
  let s := st.hs[h]?.getD default
  match jstr op "o" with
  | "plain" =>
      ({ cells := st.cells ++ [{}],
         hs := st.hs.push (.plain st.cells.length (optShape st op "parent")) }, "ok")
  | "multi" =>
      let ms := (jarr op "members").filterMap fun m => st.hs[asNat m]?
      ({ st with hs := st.hs.push (mkMulti ms) }, "ok")
  | "linked" =>
      let t := st.hs[jnat op "target"]?.getD default
      ({ st with hs := st.hs.push (mkLinked (optShape st op "parent") t) }, "ok")
  | "child" =>
      match createChild st.cells.length s with
      | .ok c true => ({ cells := st.cells ++ [{}], hs := st.hs.push c }, "ok")
      | .ok c false => ({ st with hs := st.hs.push c }, "ok")
      | .typeError => (st, "PyError")
  | "set" => ({ st with cells := setData st.cells s (jstr op "n").toList (jintOpt op "v") }, "ok")
  | "del" =>
      match delData st.cells s (jstr op "n").toList with
      | some cs => ({ st with cells := cs }, "ok")
      | none => (st, "KeyError")
  | "reg" => ({ st with cells := register st.cells s (jstr op "f").toList (jnat op "id") (jbool op "x") }, "ok")
  | "delf" => ({ st with cells := deleteFunction st.cells s (jstr op "f").toList (jnat op "id") }, "ok")
  | o => (st, "bad-op:" ++ o)

def handle (req : Json) : Json :=
  let names := (jarr req "names").map fun j => (asStr j).toList
  let fnames := (jarr req "fnames").map fun j => (asStr j).toList
  let (_, out) := (jarr req "ops").foldl (init := (({} : St), ([] : List Json)))
    fun (st, acc) op =>
      let (st', r) := step st op
      (st', jo [("r", js r), ("obs", observe st' names fnames)] :: acc)
  jo [("steps", jl out.reverse)]

end Yaql.Drv.C17
