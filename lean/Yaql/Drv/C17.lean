import Yaql.Drv.Util
import Yaql.Model.ContextHist
import Yaql.Model.RegistryRow
/-! Driver for C17: replays a context history on the model (`Yaql.Context.hstep`) and reports, after
every step, what each context handle answers (`Yaql.Context.answer`) - function lookups for both
values of `use_convention`. -/
namespace Yaql.Drv.C17
open Lean Yaql.Drv Yaql.Context

def valJ : Val → Json
  | none => .null
  | some i => ji i

def sortN (l : List Nat) : List Nat := l.mergeSort (· ≤ ·)

/-- the convention objects the harness uses -/
def convOf (j : Json) (k : String) : Option Conv :=
  match jstr j k with
  | "camel" => some Yaql.Registry.toCamel          -- conventions.CamelCaseConvention
  | "python" => some id                            -- conventions.PythonConvention
  | "upper" => some (·.map Char.toUpper)           -- a host-defined convention: str.upper (ASCII names)
  | _ => none

def ansJ : Answer → Json
  | .val v => valJ v
  | .bool b => jb b
  | .names l => jl (l.map fun k => js (String.ofList k))
  | .funcs l e => jl [jl ((sortN l).map jn), jb e]
  | .layers ls => jl (ls.map fun l => jl ((sortN l).map jn))
  | .noContext => js "no-context"

def observeH (st : HSt) (names fnames : List Context.Name) : Json :=
  jl <| (List.range st.ctxs.length).map fun i =>
    jo [ ("get", jl (names.map fun n => ansJ (answer st (.getData i n)))),
         ("has", jl (names.map fun n => ansJ (answer st (.contains i n)))),
         ("keys", ansJ (answer st (.keys i))),
         ("col", jl ([false, true].map fun uc => jl (fnames.map fun f => ansJ (answer st (.collect i f uc))))),
         ("gf", jl ([false, true].map fun uc => jl (fnames.map fun f => ansJ (answer st (.getFunctions i f uc))))) ]

def opOf (op : Json) : Option HOp :=
  let h := jnat op "h"
  match jstr op "o" with
  | "plain" => some (.plain (jnatOpt op "parent") (convOf op "conv"))
  | "multi" => some (.multi ((jarr op "members").map asNat) (convOf op "conv"))
  | "linked" => some (.linked (jnatOpt op "parent") (jnat op "target") (convOf op "conv"))
  | "child" => some (.child h)
  | "set" => some (.set h (jstr op "n").toList (jintOpt op "v"))
  | "del" => some (.del h (jstr op "n").toList)
  | "reg" => some (.reg h (jstr op "f").toList (jnat op "id") (jbool op "x"))
  | "delf" => some (.delf h (jstr op "f").toList (jnat op "id"))
  | _ => none

/-! ### the convention-free state and step that `Drv.C09` builds on (cells + shapes only) -/

structure St where
  cells : Cells := []
  hs : Array Shape := #[]

def observe (st : St) (names fnames : List Context.Name) : Json :=
  jl <| st.hs.toList.map fun s =>
    jo [ ("get", jl (names.map fun n => valJ (getData st.cells s n))),
         ("has", jl (names.map fun n => jb (containsName st.cells s n))),
         ("keys", jl ((keys st.cells s).map fun k => js (String.ofList k))),
         ("col", jl (fnames.map fun f =>
            jl ((collectFunctions st.cells s f).map fun l => jl ((sortN l).map jn)))),
         ("gf", jl (fnames.map fun f =>
            let (l, e) := getFunctions st.cells (rstripUnderscore f) s
            jl [jl ((sortN l).map jn), jb e])) ]

def optShape (st : St) (j : Json) (k : String) : Option Shape :=
  match jnatOpt j k with
  | some h => st.hs[h]?
  | none => none

def step (st : St) (op : Json) : St × String :=
  let h := jnat op "h"
  let s := st.hs[h]?.getD default
  match jstr op "o" with
  | "plain" =>
      ({ cells := st.cells ++ [{}],
         hs := st.hs.push (.plain st.cells.length (optShape st op "parent")) }, "ok")
  | "multi" =>
      let ms := (jarr op "members").filterMap fun m => st.hs[asNat m]?
      ({ st with hs := st.hs.push (mkMulti ms) }, "ok")
  | "linked" =>
      let t := st.hs[jnat op "target"]?.getD default
      ({ st with hs := st.hs.push (mkLinked (optShape st op "parent") t) }, "ok")
  | "child" =>
      match createChild st.cells.length s with
      | .ok c true => ({ cells := st.cells ++ [{}], hs := st.hs.push c }, "ok")
      | .ok c false => ({ st with hs := st.hs.push c }, "ok")
      | .typeError => (st, "PyError")
  | "set" => ({ st with cells := setData st.cells s (jstr op "n").toList (jintOpt op "v") }, "ok")
  | "del" =>
      match delData st.cells s (jstr op "n").toList with
      | some cs => ({ st with cells := cs }, "ok")
      | none => (st, "KeyError")
  | "reg" => ({ st with cells := register st.cells s (jstr op "f").toList (jnat op "id") (jbool op "x") }, "ok")
  | "delf" => ({ st with cells := deleteFunction st.cells s (jstr op "f").toList (jnat op "id") }, "ok")
  | o => (st, "bad-op:" ++ o)

def resJ : Res → String
  | .ok => "ok"
  | .keyError => "KeyError"
  | .pyError => "PyError"
  | .noContext => "no-context"

def handle (req : Json) : Json :=
  let names := (jarr req "names").map fun j => (asStr j).toList
  let fnames := (jarr req "fnames").map fun j => (asStr j).toList
  let (_, out) := (jarr req "ops").foldl (init := (({} : HSt), ([] : List Json)))
    fun (st, acc) op =>
      match opOf op with
      | some o =>
          let (st', r) := hstep st o
          (st', jo [("r", js (resJ r)), ("obs", observeH st' names fnames)] :: acc)
      | none => (st, jo [("r", js ("bad-op:" ++ jstr op "o")), ("obs", observeH st names fnames)] :: acc)
  jo [("steps", jl out.reverse)]

end Yaql.Drv.C17
