import Yaql.Drv.Util
import Yaql.Model.Resolve
import Yaql.Model.ResolveCtx
import Yaql.Model.Interface
import Yaql.Model.Invoke
import Yaql.Model.Signature
/-! Driver for the overload-resolution model (C05, C06, C11, C12): decodes overload
families, class graphs and calls, runs `Yaql.Resolve.resolve` (or `resolveOld`-free
binding functions) and encodes the outcome. -/
namespace Yaql.Drv.Resolve
open Lean Yaql.Drv Yaql.Types Yaql.Resolve
abbrev Name := Yaql.Types.Name

def nm (s : String) : Name := s.toList
def nmJ (n : Name) : Json := js (String.ofList n)

def decVal (j : Json) : Val :=
  if jisNull j then .none
  else .obj (jnat j "c") ((jarr j "p").map asNat) (jnat j "t")

def encVal : Val → Json
  | .none => .null
  | .obj c _ t => jo [("c", jn c), ("t", jn t)]

def decLit (s : String) : Lit :=
  match s with
  | "null" => .null | "str" => .str | "bool" => .bool | "num" => .num | _ => .other

def optName (j : Json) (k : String) : Option Name :=
  match j.getObjVal? k with
  | .ok (.str s) => some (nm s)
  | _ => none

partial def decArg (j : Json) : Arg :=
  match jstr j "k" with
  | "nv" => .noValue
  | "c" => .const (decVal (jget j "v")) (decLit (jstr j "lit")) (optName j "kw") (jnat j "ek")
  | "e" => .expr (jnat j "ek") (jnat j "probe") (jbool j "ur") (decVal (jget j "r"))
  | "m" => .mapRule (decArg (jget j "s")) (decArg (jget j "d")) (decVal (jget j "r")) (jnat j "ek")
  | _ => .value (decVal (jget j "v"))

def encArg : Arg → Json
  | .noValue => jo [("k", js "nv")]
  | .const v _ kw _ => jo [("k", js "c"), ("v", encVal v), ("kw", match kw with | some n => nmJ n | none => .null)]
  | .expr _ p _ _ => jo [("k", js "e"), ("probe", jn p)]
  | .mapRule s d _ _ => jo [("k", js "m"), ("s", encArg s), ("d", encArg d)]
  | .value v => jo [("k", js "v"), ("v", encVal v)]

def decHKind (s : String) : HKind :=
  match s with
  | "context" => .context | "engine" => .engine | "receiver" => .receiver | "super" => .super
  | "delegate" => .delegate | "fdef" => .fdef | _ => .yaqlInterface

def encHKind : HKind → String
  | .context => "context" | .engine => "engine" | .receiver => "receiver" | .super => "super"
  | .delegate => "delegate" | .fdef => "fdef" | .yaqlInterface => "yaqlInterface"

def decCKind (s : String) : CKind :=
  match s with
  | "string" => .string | "boolean" => .boolean | "numeric" => .numeric | _ => .any

def decTy (j : Json) : PTy :=
  match jstr j "t" with
  | "py" =>
      let pc := if jhas j "many" then PyCls.many ((jarr j "many").map asNat) else PyCls.one (jnat j "one")
      .py pc (jbool j "n") ((jarr j "vs").map asNat)
  | "lambda" => .lambda (jbool j "m")
  | "mr" => .mappingRule
  | "ye" => .yaqlExpr ((jarr j "ks").map asNat)
  | "const" => .constant (jbool j "n") (decCKind (jstr j "kind"))
  | "kw" => .keyword
  | _ => .hidden (decHKind (jstr j "h"))

def decKey (s : String) : Key :=
  match s with
  | "*" => .star | "**" => .starstar | _ => .name (nm s)

def decParam (j : Json) : Param :=
  { key := decKey (jstr j "key"), name := nm (jstr j "name"), alias := optName j "alias",
    position := jnatOpt j "pos",
    default := if jisNull (jget j "def") then none else some (decArg (jget j "def")),
    ty := decTy (jget j "ty") }

def decFDef (j : Json) : FDef :=
  { id := jnat j "id", isFunction := jbool j "fn", isMethod := jbool j "me", noKwargs := jbool j "nk",
    params := (jarr j "ps").map decParam }

def decLayer (j : Json) : Layer := { fns := (jarr j "fs").map decFDef, exclusive := jbool j "x" }

def decKw (j : Json) (k : String) : KwArgs :=
  (jarr j k).map fun p => match asArr p with
    | [n, a] => (nm (asStr n), decArg a)
    | _ => ([], .noValue)

def decCall (j : Json) : Call :=
  { receiver := if jhas j "recv" then some (decVal (jget j "recv")) else none,
    args := (jarr j "args").map decArg, kwargs := decKw j "kw" }

def decLattice (j : Json) : Lattice :=
  let pairs : List (Nat × Nat) := (jarr j "sub").map fun p => match asArr p with
    | [a, b] => (asNat a, asNat b)
    | _ => (0, 0)
  { sub := fun a b => pairs.contains (a, b), marker := decVal (jget j "marker") }

def encSlot : Slot → Json
  | .hid (.hidden h) => jo [("k", js "hid"), ("h", js (encHKind h))]
  | .hid _ => jo [("k", js "hid")]
  | .arg a => encArg a

def encErr : Err → String
  | .unknown => "Unknown" | .noMatching => "NoMatching" | .ambiguous => "Ambiguous"
  | .argument => "ArgumentException" | .mappingTranslation => "MappingTranslation"

def encBound (b : Bound) : List (String × Json) :=
  [("pos", jl (b.pos.map fun s => match s with | some s => encSlot s | none => .null)),
   ("extra", jl (b.extra.map encArg)),
   ("kw", jl (b.kw.map fun p => jl [nmJ p.1, encSlot p.2]))]

def encOutcome (o : Outcome) : Json :=
  match o.res with
  | .error e => jo [("log", jl (o.log.map jn)), ("err", js (encErr e))]
  | .ok (id, b) => jo ([("log", jl (o.log.map jn)), ("id", jn id)] ++ encBound b)

def encMapping (m : Mapping) : Json :=
  jo [("pos", jl (m.pos.map fun p => nmJ p.name)), ("kwd", jl (m.kwd.map fun p => jl [nmJ p.1, nmJ p.2.name]))]

/-- one history on live contexts: `{"defs":[fd…], "steps":[{"k":"root"} | {"k":"child","i":n} |
    {"k":"reg","i":n,"name":s,"fid":n,"x":b} | {"k":"del","i":n,"name":s,"fid":n} |
    {"k":"multi","ms":[n…]} | {"k":"linked","p":n|null,"t":n} |
    {"k":"call","i":n,"name":s,"call":{…}} |
    {"k":"yi","i":n,"recv"?:v} | {"k":"inject","i":n,"recv"?:v} | {"k":"on","y":k,"recv":v} |
    {"k":"ycall","y":k,"name":s,"call":{args, kw}}]}` -> the outcome of every call / ycall step, made in the state
    of its moment (`Yaql.ResolveCtx.run` / `resolveIn`; `Yaql.Interface.istep` for the interface steps) -/
def runHist (L : Lattice) (h : Json) : Json :=
  let fds := (jarr h "defs").map decFDef
  let defs : Yaql.ResolveCtx.Defs := fun i => (fds.find? (·.id == i)).getD default
  let recvOf := fun (j : Json) => if jhas j "recv" then some (decVal (jget j "recv")) else none
  let go := fun (acc : Yaql.Interface.ISt × List Json) (stp : Json) =>
    let (s, outs) := acc
    let ctxOp := fun (op : Yaql.ResolveCtx.Op) => ((Yaql.Interface.istep L defs s (.ctx op)).1, outs)
    match jstr stp "k" with
    | "root" => ctxOp .root
    | "child" => ctxOp (.child (jnat stp "i"))
    | "reg" => ctxOp (.register (jnat stp "i") (nm (jstr stp "name")) (jnat stp "fid") (jbool stp "x"))
    | "del" => ctxOp (.delete (jnat stp "i") (nm (jstr stp "name")) (jnat stp "fid"))
    | "multi" => ctxOp (.multi ((jarr stp "ms").map asNat))
    | "linked" => ctxOp (.linked (jnatOpt stp "p") (jnat stp "t"))
    | "call" =>
        (s, encOutcome (Yaql.ResolveCtx.resolveIn L defs s.st (jnat stp "i") (nm (jstr stp "name"))
                          (decCall (jget stp "call"))) :: outs)
    -- the host entry point (Yaql.Interface): interfaces are handles in order of creation
    | "yi" => ((Yaql.Interface.istep L defs s (.mk (jnat stp "i") (recvOf stp))).1, outs)
    | "inject" => ((Yaql.Interface.istep L defs s (.inject (jnat stp "i") (recvOf stp))).1, outs)
    | "on" => ((Yaql.Interface.istep L defs s (.on (jnat stp "y") (decVal (jget stp "recv")))).1, outs)
    | "ycall" =>
        let c := decCall (jget stp "call")
        match (Yaql.Interface.istep L defs s (.call (jnat stp "y") (nm (jstr stp "name")) c.args c.kwargs)).2 with
        | some o => (s, encOutcome o :: outs)
        | none => (s, jerr "no such interface" :: outs)
    | _ => (s, outs)
  jl ((jarr h "steps").foldl go ({}, [])).2.reverse

/-! ### `specs.get_function_definition`: Python signature + decorators -> parameter table -/

def encCKind : CKind → String
  | .string => "string" | .boolean => "boolean" | .numeric => "numeric" | .any => "any"

def encTy : PTy → Json
  | .py (.one c) n vs => jo [("t", js "py"), ("n", .bool n), ("vs", jl (vs.map jn)), ("one", jn c)]
  | .py (.many cs) n vs => jo [("t", js "py"), ("n", .bool n), ("vs", jl (vs.map jn)), ("many", jl (cs.map jn))]
  | .lambda m => jo [("t", js "lambda"), ("m", .bool m)]
  | .mappingRule => jo [("t", js "mr")]
  | .yaqlExpr ks => jo [("t", js "ye"), ("ks", jl (ks.map jn))]
  | .constant n kind => jo [("t", js "const"), ("n", .bool n), ("kind", js (encCKind kind))]
  | .keyword => jo [("t", js "kw")]
  | .hidden h => jo [("t", js "hid"), ("h", js (encHKind h))]

def encKey : Key → Json
  | .name n => nmJ n
  | .star => js "*"
  | .starstar => js "**"

def encParam (p : Param) : Json :=
  jo [("key", encKey p.key), ("name", nmJ p.name),
      ("alias", match p.alias with | some a => nmJ a | none => .null),
      ("pos", match p.position with | some i => jn i | none => .null),
      ("def", match p.default with | some a => encArg a | none => .null),
      ("ty", encTy p.ty)]

def optBool (j : Json) (k : String) : Option Bool :=
  match j.getObjVal? k with
  | .ok (.bool b) => some b
  | _ => none

open Yaql.Signature in
def decSig (j : Json) : PySig :=
  { args := (jarr j "args").map fun a => nm (asStr a),
    defaults := (jarr j "defaults").map decArg,
    varargs := optName j "varargs",
    kwonly := (jarr j "kwonly").map fun a => nm (asStr a),
    kwdefaults := decKw j "kwdefaults",
    varkw := optName j "varkw" }

open Yaql.Signature in
/-- a decorator: `{"name":s | "index":n, "ty": null | {"smart":type} | {"cls":n}, "nullable":b|null, "alias":s|null}`;
    `none` = IndexError of a positional reference -/
def decDecl (sig : PySig) (j : Json) : Option Decl :=
  let name : Option Name := match jnatOpt j "index" with
    | some i => byIndex sig i
    | none => some (nm (jstr j "name"))
  let tyj := jget j "ty"
  let ty : DType :=
    if jisNull tyj then .absent
    else if jhas tyj "smart" then .smart (decTy (jget tyj "smart"))
    else .pyclass (jnat tyj "cls")
  name.map fun n => { name := n, ty := ty, nullable := optBool j "nullable", alias := optName j "alias" }

def allSome : List (Option α) → Option (List α)
  | [] => some []
  | none :: _ => none
  | some a :: r => (allSome r).map (a :: ·)

open Yaql.Signature in
/-- `{"args":…,"defaults":…,"varargs":…,"kwonly":…,"kwdefaults":…,"varkw":…,"decls":[…],"conv":[[name,converted]…]|null}`
    -> `{"ps":[parameter…]}` in dict order | `{"err":…}` -/
def runSig (k : Consts) (j : Json) : Json :=
  let sig := decSig j
  match allSome ((jarr j "decls").map (decDecl sig)) with
  | none => jo [("err", js "index")]
  | some decls =>
      let conv : Option (Name → Name) :=
        if jisNull (jget j "conv") then none
        else
          let table : List (Name × Name) := (jarr j "conv").map fun p => match asArr p with
            | [a, b] => (nm (asStr a), nm (asStr b))
            | _ => ([], [])
          some fun n => (alookup n table).getD n
      match define k inferByName conv sig decls with
      | .ok ps => jo [("ps", jl (ps.map encParam))]
      | .error .duplicate => jo [("err", js "duplicate")]
      | .error .noParameterFound => jo [("err", js "noParameterFound")]

/-- the tag of the value an argument slot carries, if it is an evaluated value or a constant -/
def argTag : Arg → Option Nat
  | .value (.obj _ _ t) => some t
  | .const (.obj _ _ t) _ _ _ => some t
  | _ => none

def slotTag : Slot → Option Nat
  | .arg a => argTag a
  | .hid _ => none

/-- `picky`: per overload `[fid, [positions], [keyword keys], star]` - the parameters whose smart type validates the
    value in `convert`; `rejected`: the tags it turns down -/
def convOf (picky : List Json) (rejected : List Nat) : Conv := fun i b =>
  let bad := fun (t : Option Nat) => match t with | some t => rejected.contains t | none => false
  picky.all fun row =>
    match asArr row with
    | [fid, ps, ks, star] =>
        if asNat fid != i then true
        else
          (asArr ps).all (fun p => !bad ((b.pos.getD (asNat p) none).bind slotTag)) &&
          (asArr ks).all (fun k => !bad ((b.kw.find? (·.1 == nm (asStr k))).bind (slotTag ·.2))) &&
          (!(asBool star) || b.extra.all (fun a => !bad (argTag a)))
    | _ => true

/-- `{"lat":…, "fams":[{"layers":[…], "calls":[…]}]}` -> `{"out":[[outcome per call] per family]}`;
    a family with `"picky"` / `"rejected"` also gets `"final"` (ran / conversion-failed / error) per call;
    with `"op":"sig"`: `{"consts":{"object":n,"vTrue":n}, "sigs":[signature + decorators]}` -> the parameter table
    `Yaql.Signature.define` makes of each;
    with `"op":"hist"`: `{"lat":…, "hists":[history]}` -> `{"out":[[outcome per call step] per history]}`;
    with `"op":"bind"`: `{"lat":…, "defs":[{"fd":…, "calls":[…]}]}` -> per call the result of
    `map_args` and `get_delegate` alone (no evaluation) -/
def handle (req : Json) : Json :=
  let L := decLattice (jget req "lat")
  match jstr req "op" with
  | "bind" =>
      jo [("out", jl ((jarr req "defs").map fun d =>
        let fd := decFDef (jget d "fd")
        jl ((jarr d "calls").map fun cj =>
          let c := decCall cj
          jo [("map", match mapArgs L fd.params c.args c.kwargs with
                       | some m => encMapping m | none => .null),
              ("del", match getDelegate L fd.params c.args c.kwargs with
                       | some b => jo (encBound b) | none => .null)])))]
  | "hist" => jo [("out", jl ((jarr req "hists").map (runHist L)))]
  | "sig" =>
      let k : Yaql.Signature.Consts :=
        { object := jnat (jget req "consts") "object", vTrue := jnat (jget req "consts") "vTrue" }
      jo [("out", jl ((jarr req "sigs").map (runSig k)))]
  | _ =>
      jo [("out", jl ((jarr req "fams").map fun f =>
        let layers := (jarr f "layers").map decLayer
        if jhas f "picky" then
          -- the phase after choose_overload (`Yaql.Resolve.callFinal`): `convert` of the listed parameters turns the
          -- values with the listed tags down
          let conv := convOf (jarr f "picky") ((jarr f "rejected").map asNat)
          jl ((jarr f "calls").map fun cj =>
            let o := resolve L layers (decCall cj)
            let fin := match (callFinal L conv layers (decCall cj)).2 with
              | .ran _ _ => "ran" | .conversionFailed _ => "conversion-failed" | .error _ => "error"
            match encOutcome o with
            | .obj kvs => .obj (kvs.insert "final" (js fin))
            | j => j)
        else
          jl ((jarr f "calls").map fun cj => encOutcome (resolve L layers (decCall cj)))))]

end Yaql.Drv.Resolve
