import Yaql.Drv.ValueJson
namespace Yaql.Drv.Echo
open Lean Yaql.Drv
/-- `{"p":"echo","v":<value>}` -> the value decoded and re-encoded (codec self-test) -/
def handle (req : Json) : Json := jo [("v", valToJson (valOfJson (jget req "v")))]
end Yaql.Drv.Echo
