import Yaql.Drv.LexJson
/-! Driver for C16 (and the lexer half of C03): lex texts under a configuration.
`{"p":"C16","op":"lex","cfg":CFG,"texts":[[cp..]..]}`            -> `{"r":[RESULT..]}`   (`lexAll`)
`{"p":"C16","op":"next","cfg":CFG,"cases":[[[cp..],pos]..]}`     -> `{"r":[STEP..]}`     (`nextTok`)
`{"p":"C16","op":"iter","cfg":CFG,"texts":[[cp..]..]}`           -> `{"r":[RESULT..]}`   (`nextTok` iterated)
see `Yaql/Drv/LexJson.lean` for CFG / RESULT / STEP. -/
namespace Yaql.Drv.C16
open Lean Yaql.Drv Yaql.Drv.LexJson Yaql.Lexer Yaql.Syntax

/-- `nextTok` iterated the way the parser pulls tokens (fuel = length + 1 calls at most) -/
def iter (cfg : LexCfg) (text : List Char) : Nat → Nat → List Token → Except LexErr (List Token)
  | 0, _, acc => .ok acc.reverse
  | f + 1, pos, acc =>
      match nextTok cfg text pos with
      | .eof => .ok acc.reverse
      | .tok t n => iter cfg text f n (t :: acc)
      | .err e => .error e

def handle (req : Json) : Json :=
  let cfg := cfgOfJson (jget req "cfg")
  match jstr req "op" with
  | "lex" => jo [("r", jl ((jarr req "texts").map fun t => resultJ (lexAll cfg (cps t))))]
  | "iter" => jo [("r", jl ((jarr req "texts").map fun t =>
      let s := cps t
      resultJ (iter cfg s (s.length + 1) 0 [])))]
  | "next" => jo [("r", jl ((jarr req "cases").map fun c =>
      match asArr c with
      | [t, p] => stepJ (nextTok cfg (cps t) (asNat p))
      | _ => jerr "bad case"))]
  | o => jerr ("C16: unknown op " ++ o)

end Yaql.Drv.C16
