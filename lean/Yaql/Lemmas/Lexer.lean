import Yaql.Model.Lexer
/-! Helper lemmas about the lexer model shared by `Props/C16.lean` and `Props/C03Lex.lean`. -/
namespace Yaql.Lexer
open Yaql.Syntax

/-! ### character classes -/

theorem nonword_not_digit (cc : CharCfg) {c : Char} (h : cc.isWord c = false) : cc.isDigit c = false := by
  cases hd : cc.isDigit c with
  | false => rfl
  | true => rw [cc.digit_word c hd] at h; cases h

theorem isWord_of_mem (cc : CharCfg) {c : Char} (h : c ∈ nonWordChars) : cc.isWord c = false := cc.nonword c h

theorem word_ne_of_nonword (cc : CharCfg) {c d : Char} (hc : cc.isWord c = true) (hd : d ∈ nonWordChars) : c ≠ d := by
  intro e; subst e; rw [cc.nonword c hd] at hc; cases hc

theorem ignored_nonword (cc : CharCfg) {c : Char} (h : isIgnored c = true) : cc.isWord c = false := by
  apply cc.nonword
  simp only [isIgnored, Bool.or_eq_true, beq_iff_eq] at h
  rcases h with ((h | h) | h) | h <;> subst h <;> decide

theorem word_not_ignored (cc : CharCfg) {c : Char} (h : cc.isWord c = true) : isIgnored c = false := by
  cases hi : isIgnored c with
  | false => rfl
  | true => rw [ignored_nonword cc hi] at h; cases h

/-! ### takeWhile / dropWhile -/

theorem takeWhile_all {p : Char → Bool} : ∀ {l : List Char}, (∀ c ∈ l, p c = true) → l.takeWhile p = l
  | [], _ => rfl
  | c :: r, h => by
      have hc : p c = true := h c (by simp)
      simp only [List.takeWhile_cons, hc, if_true]
      rw [takeWhile_all (fun d hd => h d (by simp [hd]))]

theorem dropWhile_all {p : Char → Bool} : ∀ {l : List Char}, (∀ c ∈ l, p c = true) → l.dropWhile p = []
  | [], _ => rfl
  | c :: r, h => by
      have hc : p c = true := h c (by simp)
      simp only [List.dropWhile_cons, hc, if_true]
      exact dropWhile_all (fun d hd => h d (by simp [hd]))

theorem takeWhile_append_stop {p : Char → Bool} {l : List Char} {x : Char} {t : List Char}
    (h : ∀ c ∈ l, p c = true) (hx : p x = false) : (l ++ x :: t).takeWhile p = l := by
  induction l with
  | nil => simp [hx]
  | cons c r ih =>
      have hc : p c = true := h c (by simp)
      simp only [List.cons_append, List.takeWhile_cons, hc, if_true]
      rw [ih (fun d hd => h d (by simp [hd]))]

theorem dropWhile_append_stop {p : Char → Bool} {l : List Char} {x : Char} {t : List Char}
    (h : ∀ c ∈ l, p c = true) (hx : p x = false) : (l ++ x :: t).dropWhile p = x :: t := by
  induction l with
  | nil => simp [hx]
  | cons c r ih =>
      have hc : p c = true := h c (by simp)
      simp only [List.cons_append, List.dropWhile_cons, hc, if_true]
      exact ih (fun d hd => h d (by simp [hd]))

theorem mem_takeWhile_true {p : Char → Bool} {x : Char} : ∀ {l : List Char}, x ∈ l.takeWhile p → p x = true
  | [], h => by simp at h
  | c :: r, h => by
      simp only [List.takeWhile_cons] at h
      split at h
      · rcases List.mem_cons.mp h with rfl | h'
        · assumption
        · exact mem_takeWhile_true h'
      · simp at h

theorem takeWhile_length_le (p : Char → Bool) (l : List Char) : (l.takeWhile p).length ≤ l.length := by
  induction l with
  | nil => simp
  | cons c r ih => simp only [List.takeWhile_cons]; split <;> simp <;> omega

theorem take_drop_while (p : Char → Bool) (l : List Char) : l.takeWhile p ++ l.dropWhile p = l :=
  List.takeWhile_append_dropWhile

theorem length_take_drop_while (p : Char → Bool) (l : List Char) :
    (l.takeWhile p).length + (l.dropWhile p).length = l.length := by
  have := congrArg List.length (take_drop_while p l)
  rw [List.length_append] at this
  exact this

/-! ### unfolding `scanStr` by one character -/

theorem scanStr_cons (q c : Char) (r : List Char) :
    scanStr q (c :: r) =
      (if c = q then some []
       else if c = '\\' then
         match r with
         | [] => none
         | e :: r' => if e = '\n' then none else (scanStr q r').map (fun s => c :: e :: s)
       else (scanStr q r).map (fun s => c :: s)) := by
  cases r <;> simp [scanStr]

/-- the contents the string rule with quote `q` accepts: characters other than the quote and the
backslash, and pairs of a backslash and any character but a newline -/
def wfQ (q : Char) : List Char → Bool
  | [] => true
  | c :: r =>
      if c = q then false
      else if c = '\\' then
        match r with
        | [] => false
        | e :: r' => e != '\n' && wfQ q r'
      else wfQ q r

theorem wfQ_cons (q c : Char) (r : List Char) :
    wfQ q (c :: r) =
      (if c = q then false
       else if c = '\\' then
         match r with
         | [] => false
         | e :: r' => e != '\n' && wfQ q r'
       else wfQ q r) := by
  cases r <;> simp [wfQ]

/-- what `scanStr` returns is a well-formed content followed in the text by the closing quote -/
theorem scanStr_spec (q : Char) : ∀ (l c : List Char), scanStr q l = some c →
    wfQ q c = true ∧ ∃ tail, l = c ++ q :: tail
  | [], c, h => by simp [scanStr] at h
  | [x], c, h => by
      rw [scanStr_cons] at h
      by_cases hx : x = q
      · simp only [hx, if_true, Option.some.injEq] at h
        subst h; subst hx
        exact ⟨rfl, [], rfl⟩
      · by_cases hb : x = '\\'
        · subst hb; simp [hx] at h
        · simp [hx, hb, scanStr] at h
  | x :: e :: r', c, h => by
      rw [scanStr_cons] at h
      by_cases hx : x = q
      · simp only [hx, if_true, Option.some.injEq] at h
        subst h; subst hx
        exact ⟨rfl, e :: r', rfl⟩
      · by_cases hb : x = '\\'
        · subst hb
          simp only [hx, if_false, if_true] at h
          by_cases he : e = '\n'
          · simp [he] at h
          · simp only [he, if_false, Option.map_eq_some_iff] at h
            obtain ⟨c', hc', rfl⟩ := h
            obtain ⟨hw, tail, ht⟩ := scanStr_spec q r' c' hc'
            refine ⟨?_, tail, ?_⟩
            · simp [wfQ_cons, hx, he, hw]
            · simp [ht]
        · simp only [hx, hb, if_false, Option.map_eq_some_iff] at h
          obtain ⟨c', hc', rfl⟩ := h
          obtain ⟨hw, tail, ht⟩ := scanStr_spec q (e :: r') c' hc'
          refine ⟨?_, tail, ?_⟩
          · simp [wfQ_cons, hx, hb, hw]
          · simp [ht]

/-- conversely a well-formed content followed by the quote is scanned exactly -/
theorem scanStr_wf (q : Char) (tail : List Char) : ∀ (c : List Char), wfQ q c = true →
    scanStr q (c ++ q :: tail) = some c
  | [], _ => by simp [scanStr_cons]
  | [x], h => by
      rw [wfQ_cons] at h
      by_cases hx : x = q
      · simp [hx] at h
      · by_cases hb : x = '\\'
        · subst hb; simp [hx] at h
        · simp [scanStr_cons, hx, hb]
  | x :: e :: r', h => by
      rw [wfQ_cons] at h
      by_cases hx : x = q
      · simp [hx] at h
      · by_cases hb : x = '\\'
        · subst hb
          simp only [hx, if_false, if_true, Bool.and_eq_true, bne_iff_ne, ne_eq] at h
          have ih := scanStr_wf q tail r' h.2
          simp [scanStr_cons, hx, h.1, ih]
        · simp only [hx, hb, if_false] at h
          have ih := scanStr_wf q tail (e :: r') h
          simp only [List.cons_append] at ih
          simp [scanStr_cons, hx, hb, ih]

/-! ### `lexGo` on a text that is one token -/

theorem lexGo_skip_all (cfg : LexCfg) : ∀ (l : List Char) (k : Nat) (pw : Bool) (pos : Nat),
    l.length ≤ k → lexGo cfg k pw l pos = .ok []
  | [], _, _, _, _ => by simp [lexGo]
  | c :: r, 0, _, _, h => by simp at h
  | c :: r, k + 1, pw, pos, h => by
      simp only [lexGo]
      exact lexGo_skip_all cfg r k _ _ (by simp at h; omega)

theorem lexAll_cons (cfg : LexCfg) {c : Char} {r : List Char} (hi : isIgnored c = false) :
    lexAll cfg (c :: r) =
      match ruleAt cfg false (c :: r) 0 with
      | .tok t len => consTok t (lexGo cfg (len - 1) (cfg.chars.isWord c) r 1)
      | .err e => .error e := by
  simp only [lexAll, lexGo, hi, Bool.false_eq_true, if_false]
  rfl

/-- a text that the rules match as ONE token, whole -/
theorem lexAll_single (cfg : LexCfg) {c : Char} {r : List Char} {t : Token}
    (hi : isIgnored c = false) (h : ruleAt cfg false (c :: r) 0 = .tok t (r.length + 1)) :
    lexAll cfg (c :: r) = .ok [t] := by
  simp only [lexAll, lexGo, hi, h, Bool.false_eq_true, if_false, Nat.add_sub_cancel]
  rw [lexGo_skip_all cfg r r.length _ _ (Nat.le_refl _)]
  rfl

theorem lexAll_error (cfg : LexCfg) {c : Char} {r : List Char} {e : LexErr}
    (hi : isIgnored c = false) (h : ruleAt cfg false (c :: r) 0 = .err e) :
    lexAll cfg (c :: r) = .error e := by
  simp only [lexAll, lexGo, hi, h, Bool.false_eq_true, if_false]

/-- if nothing at all is produced, everything that was not skipped is an ignored character -/
theorem lexGo_ok_nil (cfg : LexCfg) : ∀ (l : List Char) (k : Nat) (pw : Bool) (pos : Nat),
    lexGo cfg k pw l pos = .ok [] → ∀ c ∈ l.drop k, isIgnored c = true
  | [], _, _, _, _ => by simp
  | c :: r, k + 1, pw, pos, h => by
      simp only [lexGo] at h
      simpa using lexGo_ok_nil cfg r k _ _ h
  | c :: r, 0, pw, pos, h => by
      simp only [lexGo] at h
      by_cases hi : isIgnored c = true
      · simp only [hi, if_true] at h
        have := lexGo_ok_nil cfg r 0 _ _ h
        intro d hd
        simp only [List.drop_zero, List.mem_cons] at hd this
        rcases hd with rfl | hd
        · exact hi
        · exact this d hd
      · simp only [hi, if_false] at h
        cases hr : ruleAt cfg pw (c :: r) pos with
        | tok t len =>
            simp only [hr] at h
            cases hg : lexGo cfg (len - 1) (cfg.chars.isWord c) r (pos + 1) <;> simp [hg, consTok] at h
        | err e => simp [hr] at h

/-! ### `re.escape` lengths (ply sorts the string rules by them) -/

theorem escLen_append : ∀ (a b : List Char), escLen (a ++ b) = escLen a + escLen b
  | [], b => by simp [escLen]
  | c :: a, b => by simp [escLen, escLen_append a b, Nat.add_assoc]

theorem escLen_pos {b : List Char} (h : b ≠ []) : 0 < escLen b := by
  cases b with
  | nil => exact absurd rfl h
  | cons c r => simp only [escLen]; split <;> omega

/-- a symbol that properly extends another one has the longer regex, so ply tries it first -/
theorem escLen_lt_of_proper_prefix (a : List Char) {b : List Char} (h : b ≠ []) : escLen a < escLen (a ++ b) := by
  rw [escLen_append]; have := escLen_pos h; omega

/-! ### a concrete configuration: ASCII classes, the default operator table (for examples) -/

def asciiChars : CharCfg :=
  { isWord := fun c => c.isAlphanum || c == '_',
    isDigit := fun c => c.isDigit,
    digitVal := fun c => (c.toNat - 48) % 10,
    digit_word := by intro c h; simp [Char.isAlphanum, h],
    digit_lt := by intro c _; exact Nat.mod_lt _ (by decide),
    underscore_word := by decide,
    underscore_nondigit := by decide,
    nonword := by
      intro c h
      simp only [nonWordChars, List.mem_cons, List.not_mem_nil, or_false] at h
      rcases h with h | h | h | h | h | h | h | h | h | h | h | h | h | h | h | h | h <;> subst h <;> decide }

def defaultOps : List (List Char) :=
  [['.'], ['?', '.'], ['+'], ['-'], ['=', '~'], ['!', '~'], ['*'], ['/'], ['m', 'o', 'd'], ['>'], ['<'], ['>', '='],
   ['<', '='], ['!', '='], ['='], ['i', 'n'], ['n', 'o', 't'], ['a', 'n', 'd'], ['o', 'r'], ['-', '>']]

def asciiCfg : LexCfg :=
  LexCfg.ofTable asciiChars defaultOps true true (some ['=', '>']) (fun _ => none) 4300

end Yaql.Lexer
