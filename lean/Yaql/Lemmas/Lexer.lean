import Yaql.Model.Lexer
/-! Helper lemmas about the lexer model shared by `Props/C16.lean` and `Props/C03Lex.lean`. -/
namespace Yaql.Lexer
open Yaql.Syntax

/-! ### character classes -/

theorem nonword_not_digit (cc : CharCfg) {c : Char} (h : cc.isWord c = false) : cc.isDigit c = false := by
  cases hd : cc.isDigit c with
  | false => rfl
  | true => rw [cc.digit_word c hd] at h; cases h

theorem isWord_of_mem (cc : CharCfg) {c : Char} (h : c ∈ nonWordChars) : cc.isWord c = false := cc.nonword c h

theorem word_ne_of_nonword (cc : CharCfg) {c d : Char} (hc : cc.isWord c = true) (hd : d ∈ nonWordChars) : c ≠ d := by
  intro e; subst e; rw [cc.nonword c hd] at hc; cases hc

theorem ignored_nonword (cc : CharCfg) {c : Char} (h : isIgnored c = true) : cc.isWord c = false := by
  apply cc.nonword
  simp only [isIgnored, Bool.or_eq_true, beq_iff_eq] at h
  rcases h with ((h | h) | h) | h <;> subst h <;> decide

theorem word_not_ignored (cc : CharCfg) {c : Char} (h : cc.isWord c = true) : isIgnored c = false := by
  cases hi : isIgnored c with
  | false => rfl
  | true => rw [ignored_nonword cc hi] at h; cases h

/-! ### takeWhile / dropWhile -/

theorem takeWhile_all {p : Char → Bool} : ∀ {l : List Char}, (∀ c ∈ l, p c = true) → l.takeWhile p = l
  | [], _ => rfl
  | c :: r, h => by
      have hc : p c = true := h c (by simp)
      simp only [List.takeWhile_cons, hc, if_true]
      rw [takeWhile_all (fun d hd => h d (by simp [hd]))]

theorem dropWhile_all {p : Char → Bool} : ∀ {l : List Char}, (∀ c ∈ l, p c = true) → l.dropWhile p = []
  | [], _ => rfl
  | c :: r, h => by
      have hc : p c = true := h c (by simp)
      simp only [List.dropWhile_cons, hc, if_true]
      exact dropWhile_all (fun d hd => h d (by simp [hd]))

theorem takeWhile_append_stop {p : Char → Bool} {l : List Char} {x : Char} {t : List Char}
    (h : ∀ c ∈ l, p c = true) (hx : p x = false) : (l ++ x :: t).takeWhile p = l := by
  induction l with
  | nil => simp [hx]
  | cons c r ih =>
      have hc : p c = true := h c (by simp)
      simp only [List.cons_append, List.takeWhile_cons, hc, if_true]
      rw [ih (fun d hd => h d (by simp [hd]))]

theorem dropWhile_append_stop {p : Char → Bool} {l : List Char} {x : Char} {t : List Char}
    (h : ∀ c ∈ l, p c = true) (hx : p x = false) : (l ++ x :: t).dropWhile p = x :: t := by
  induction l with
  | nil => simp [hx]
  | cons c r ih =>
      have hc : p c = true := h c (by simp)
      simp only [List.cons_append, List.dropWhile_cons, hc, if_true]
      exact ih (fun d hd => h d (by simp [hd]))

theorem takeWhile_length_le (p : Char → Bool) (l : List Char) : (l.takeWhile p).length ≤ l.length := by
  induction l with
  | nil => simp
  | cons c r ih => simp only [List.takeWhile_cons]; split <;> simp <;> omega

theorem take_drop_while (p : Char → Bool) (l : List Char) : l.takeWhile p ++ l.dropWhile p = l :=
  List.takeWhile_append_dropWhile

theorem length_take_drop_while (p : Char → Bool) (l : List Char) :
    (l.takeWhile p).length + (l.dropWhile p).length = l.length := by
  have := congrArg List.length (take_drop_while p l)
  rw [List.length_append] at this
  exact this

/-! ### unfolding `scanStr` by one character -/

theorem scanStr_cons (q c : Char) (r : List Char) :
    scanStr q (c :: r) =
      (if c = q then some []
       else if c = '\\' then
         match r with
         | [] => none
         | e :: r' => if e = '\n' then none else (scanStr q r').map (fun s => c :: e :: s)
       else (scanStr q r).map (fun s => c :: s)) := by
  cases r <;> simp [scanStr]

/-! ### `lexGo` on a text that is one token -/

theorem lexGo_skip_all (cfg : LexCfg) : ∀ (l : List Char) (k : Nat) (pw : Bool) (pos : Nat),
    l.length ≤ k → lexGo cfg k pw l pos = .ok []
  | [], _, _, _, _ => by simp [lexGo]
  | c :: r, 0, _, _, h => by simp at h
  | c :: r, k + 1, pw, pos, h => by
      simp only [lexGo]
      exact lexGo_skip_all cfg r k _ _ (by simp at h; omega)

/-- a text that the rules match as ONE token, whole -/
theorem lexAll_single (cfg : LexCfg) {c : Char} {r : List Char} {t : Token}
    (hi : isIgnored c = false) (h : ruleAt cfg false (c :: r) 0 = .tok t (r.length + 1)) :
    lexAll cfg (c :: r) = .ok [t] := by
  simp only [lexAll, lexGo, hi, h, Bool.false_eq_true, if_false, Nat.add_sub_cancel]
  rw [lexGo_skip_all cfg r r.length _ _ (Nat.le_refl _)]
  rfl

theorem lexAll_error (cfg : LexCfg) {c : Char} {r : List Char} {e : LexErr}
    (hi : isIgnored c = false) (h : ruleAt cfg false (c :: r) 0 = .err e) :
    lexAll cfg (c :: r) = .error e := by
  simp only [lexAll, lexGo, hi, h, Bool.false_eq_true, if_false]

end Yaql.Lexer
