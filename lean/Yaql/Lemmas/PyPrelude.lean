import Yaql.Model.PyPrelude
import Yaql.Model.Strings
/-!
Lemmas about the Python primitives of `Yaql/Model/PyPrelude.lean`: what each primitive is in terms of
the `List`/`Int` vocabulary the hand-written models use.
-/
namespace Yaql.Lemmas.PyPrelude
open Yaql

/-! ## truthiness -/

/-- `not xs` -/
theorem decide_eq_nil [DecidableEq α] (l : List α) : decide (l = []) = l.isEmpty := by
  cases l <;> simp

/-! ## slices -/

theorem clampIdx_eq_strings (len : Nat) (i : Int) : Py.clampIdx len i = Strings.clampIdx len i := rfl

/-- `xs[a:b]` of the prelude is the `pySlice` of the string model -/
theorem slice_some_some (s : List Char) (a b : Int) :
    Py.slice s (some a) (some b) = Strings.pySlice s a b := rfl

theorem slice_none_none (xs : List α) : Py.slice xs none none = xs := by
  simp [Py.slice, Py.hiBound, Py.loBound]

theorem clampIdx_le (len : Nat) (i : Int) : Py.clampIdx len i ≤ len := by
  unfold Py.clampIdx
  split <;> omega

theorem clampIdx_of_nonneg (len : Nat) (i : Int) (h : 0 ≤ i) : Py.clampIdx len i = min i.toNat len := by
  unfold Py.clampIdx
  split
  · omega
  · rfl

theorem slice_length_le (xs : List α) (a b : Option Int) : (Py.slice xs a b).length ≤ xs.length := by
  simp only [Py.slice, List.length_drop, List.length_take]
  omega

/-! ## integers -/

theorem floordiv_pos (a b : Int) (h : 0 < b) : Py.floordiv a b = a / b := by
  unfold Py.floordiv
  exact Int.fdiv_eq_ediv_of_nonneg a (Int.le_of_lt h)

theorem mod_pos (a b : Int) (h : 0 < b) : Py.mod a b = a % b := by
  unfold Py.mod
  exact Int.fmod_eq_emod_of_nonneg a (Int.le_of_lt h)

theorem imin_eq (a b : Int) : Py.imin a b = min a b := by
  unfold Py.imin
  split <;> omega

theorem imax_eq (a b : Int) : Py.imax a b = max a b := by
  unfold Py.imax
  split <;> omega

/-! ## range / enumerate -/

theorem rangeFrom_length (a : Int) (n : Nat) : (Py.rangeFrom a n).length = n := by
  induction n generalizing a with
  | zero => rfl
  | succ n ih => simp [Py.rangeFrom, ih]

theorem range_length (a b : Int) : (Py.range a b).length = (b - a).toNat := by
  simp [Py.range, rangeFrom_length]

theorem enumFrom_length (i : Int) (xs : List α) : (Py.enumFrom i xs).length = xs.length := by
  induction xs generalizing i with
  | nil => rfl
  | cons x xs ih => simp [Py.enumFrom, ih]

theorem enumFrom_map_snd (i : Int) (xs : List α) : (Py.enumFrom i xs).map (·.2) = xs := by
  induction xs generalizing i with
  | nil => rfl
  | cons x xs ih => simp [Py.enumFrom, ih]

/-! ## loops -/

@[simp] theorem forLoop_nil (s : σ) (f : σ → α → Py.Step σ ρ) : Py.forLoop [] s f = .done s := rfl

theorem forLoop_cons (x : α) (xs : List α) (s : σ) (f : σ → α → Py.Step σ ρ) :
    Py.forLoop (x :: xs) s f =
      match f s x with
      | .next s' => Py.forLoop xs s' f
      | .brk s' => .done s'
      | .ret r => .ret r := rfl

/-- a loop whose body never breaks or returns is a fold -/
theorem forLoop_next_eq_foldl (xs : List α) (s : σ) (g : σ → α → σ) :
    Py.forLoop (ρ := ρ) xs s (fun s x => .next (g s x)) = .done (xs.foldl g s) := by
  induction xs generalizing s with
  | nil => rfl
  | cons x xs ih => simp [Py.forLoop, ih]

/-- "return r at the first element satisfying p": the loop returns iff some element satisfies p -/
theorem forLoop_ret_if (xs : List α) (p : α → Bool) (r : ρ) :
    Py.forLoop xs () (fun (_ : Unit) x => if p x = true then Py.Step.ret r else Py.Step.next ())
      = if xs.any p then .ret r else .done () := by
  induction xs with
  | nil => rfl
  | cons x xs ih =>
    rw [forLoop_cons]
    by_cases h : p x = true
    · simp [h]
    · simp [h, ih]

/-! ## dictionaries -/

theorem dictGet?_cons [BEq κ] (k : κ) (p : κ × ν) (d : List (κ × ν)) :
    Py.dictGet? (p :: d) k = if p.1 == k then some p.2 else Py.dictGet? d k := by
  unfold Py.dictGet?
  simp only [List.find?_cons]
  cases p.1 == k <;> simp

end Yaql.Lemmas.PyPrelude
