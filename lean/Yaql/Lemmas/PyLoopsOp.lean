import Yaql.Model.PyPrelude
import Yaql.Lemmas.PyPrelude
import Yaql.Lemmas.PyLoops
/-!
General lemmas about the Python primitives of `Yaql/Model/PyPrelude.lean` used by `Props/SrcOpTable.lean`:
indexing / `list.insert` at a natural-number position, the index search
`for i, x in enumerate(xs): if p(x): pos = i; break`, and the scan
`while pos < len(xs) and p(xs[pos]): pos += 1`.

As in `Lemmas/PyLoops.lean` the loop lemmas are stated for an abstract body `f` with a pointwise description.
-/
namespace Yaql.Lemmas.PyLoopsOp
open Yaql

/-! ## `xs[k]`, `xs.insert(k, v)` for `0 <= k <= len(xs)` -/

theorem index_nat (xs : List α) (i : Int) (k : Nat) (hi : i = (k : Int)) (hk : k < xs.length) :
    Py.index xs i = .ok xs[k] := by
  subst hi
  have h1 : ¬ ((k : Int) < 0) := by omega
  simp [Py.index, h1, hk]

theorem listInsert_nat (xs : List α) (i : Int) (k : Nat) (v : α) (hi : i = (k : Int)) (hk : k ≤ xs.length) :
    Py.listInsert xs i v = xs.take k ++ v :: xs.drop k := by
  subst hi
  have h : Py.clampIdx xs.length (k : Int) = k := by
    unfold Py.clampIdx; split <;> omega
  simp only [Py.listInsert, h]

/-- `xs.insert(k, v)` does not raise for a position inside the list when the list is shorter than `2 ** 63` -/
theorem listInsert?_nat (xs : List α) (i : Int) (k : Nat) (v : α) (hi : i = (k : Int)) (hk : k ≤ xs.length)
    (hlen : (xs.length : Int) < 2 ^ 63) :
    Py.listInsert? xs i v = .ok (xs.take k ++ v :: xs.drop k) := by
  have h : Py.ssizeOk i = true := by
    simp only [Py.ssizeOk, decide_eq_true_eq]
    omega
  simp only [Py.listInsert?, h, if_true, listInsert_nat xs i k v hi hk]

/-! ## `for i, x in enumerate(xs, start): if p(x): pos = i; break` -/

theorem forLoop_enum_findIdx (p : α → Bool) (f : Int → Int × α → Py.Step Int ρ)
    (hf : ∀ s i x, f s (i, x) = if p x = true then .brk i else .next s)
    (xs : List α) (i s : Int) :
    Py.forLoop (Py.enumFrom i xs) s f = .done (((xs.findIdx? p).map (fun (j : Nat) => i + (j : Int))).getD s) := by
  induction xs generalizing i with
  | nil => rfl
  | cons x xs ih =>
    rw [PyLoops.enumFrom_cons, Lemmas.PyPrelude.forLoop_cons, hf, List.findIdx?_cons]
    by_cases hp : p x = true
    · simp [hp]
    · have hp' : p x = false := by simpa using hp
      simp only [hp', Bool.false_eq_true, if_false, ih]
      cases List.findIdx? p xs with
      | none => rfl
      | some j => simp only [Option.map_some, Option.getD_some, Int.natCast_add, Int.natCast_one]; congr 1; omega

/-! ## `while pos < len(xs) and p(xs[pos]): pos += 1` -/

/-- the scan stops at `pos + (number of leading elements of xs[pos:] satisfying p)`; it needs one unit of fuel per
    step plus one for the final test -/
theorem whileLoop_scan (xs : List α) (p : α → Bool) (c : Int → Bool) (f : Int → Py.Step Int ρ)
    (hc : ∀ s, c s = true)
    (hf : ∀ (k : Nat) (v : α), k < xs.length → Py.index xs (k : Int) = .ok v →
      f (k : Int) = if p v = true then .next ((k : Int) + 1) else .brk (k : Int))
    (hf' : ∀ (k : Nat), xs.length ≤ k → f (k : Int) = .brk (k : Int))
    (fuel : Nat) (pos : Nat) (hfuel : xs.length - pos + 1 ≤ fuel) :
    Py.whileLoop fuel (pos : Int) c f
      = some (.done (((pos + ((xs.drop pos).takeWhile p).length : Nat) : Int))) := by
  induction fuel generalizing pos with
  | zero => omega
  | succ n ih =>
    rw [Py.whileLoop, if_pos (hc _)]
    by_cases hlt : pos < xs.length
    · have hd : xs.drop pos = xs[pos] :: xs.drop (pos + 1) := by simp
      rw [hf pos _ hlt (index_nat xs _ pos rfl hlt), hd, List.takeWhile_cons]
      by_cases hp : p xs[pos] = true
      · simp only [hp, if_true]
        have h := ih (pos + 1) (by omega)
        rw [Int.natCast_add, Int.natCast_one] at h
        rw [h]
        simp only [List.length_cons]
        congr 3
        omega
      · simp [hp]
    · rw [hf' pos (by omega), List.drop_of_length_le (by omega)]
      simp

theorem takeWhile_drop_length_le (xs : List α) (p : α → Bool) (pos : Nat) (h : pos ≤ xs.length) :
    pos + ((xs.drop pos).takeWhile p).length ≤ xs.length := by
  have h1 : ((xs.drop pos).takeWhile p).length ≤ (xs.drop pos).length :=
    (List.takeWhile_sublist p).length_le
  rw [List.length_drop] at h1
  omega

end Yaql.Lemmas.PyLoopsOp
