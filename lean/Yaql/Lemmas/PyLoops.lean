import Yaql.Model.PyPrelude
import Yaql.Lemmas.PyPrelude
/-!
General lemmas about the loop primitives of `Yaql/Model/PyPrelude.lean` (`forLoop`, `whileLoop`, `enumFrom`,
folds with an accumulator) used by the source-equivalence proofs `Props/SrcSeq.lean` / `Props/SrcLimits.lean`.

Style of those proofs: a helper lemma is stated for an *abstract* loop body `f` together with a pointwise
description `hf` of it written with `if` only; the main theorem unfolds the generated definition and
discharges `hf` for the generated lambda with the tactic `py_body` (so that harmless rewrites of the
Python source still go through).
-/
namespace Yaql.Lemmas.PyLoops
open Yaql

/-- discharge the pointwise description of a generated loop body -/
macro "py_body" : tactic =>
  `(tactic| (intros; first | rfl | (simp; done) | (simp only []; grind) | grind))

theorem enumerate_eq (xs : List α) : Py.enumerate xs = Py.enumFrom 0 xs := rfl

@[simp] theorem enumFrom_nil (i : Int) : Py.enumFrom i ([] : List α) = [] := rfl

@[simp] theorem enumFrom_cons (i : Int) (x : α) (xs : List α) :
    Py.enumFrom i (x :: xs) = (i, x) :: Py.enumFrom (i + 1) xs := rfl

/-- two loop bodies that agree pointwise give the same fold -/
theorem foldl_congr_fun {f g : σ → α → σ} (h : ∀ s x, f s x = g s x) (xs : List α) (s : σ) :
    xs.foldl f s = xs.foldl g s := by
  have : f = g := funext fun s => funext fun x => h s x
  rw [this]

theorem forLoop_congr_fun {f g : σ → α → Py.Step σ ρ} (h : ∀ s x, f s x = g s x) (xs : List α) (s : σ) :
    Py.forLoop xs s f = Py.forLoop xs s g := by
  have : f = g := funext fun s => funext fun x => h s x
  rw [this]

/-- a generator that yields every element: `for x in xs: yield x` -/
@[simp] theorem foldl_append_singleton (xs acc : List α) :
    xs.foldl (fun s x => s ++ [x]) acc = acc ++ xs := by
  induction xs generalizing acc with
  | nil => simp
  | cons x xs ih => simp [ih]

/-- the form `simp` gives the previous fold -/
@[simp] theorem flatten_map_singleton (xs : List α) : (xs.map (fun x => [x])).flatten = xs := by
  induction xs with
  | nil => rfl
  | cons x xs ih => simp [ih]

/-- a generator that yields the image of every element: `for x in xs: yield g(x)` -/
theorem foldl_append_map (g : α → β) (xs : List α) (acc : List β) :
    xs.foldl (fun s x => s ++ [g x]) acc = acc ++ xs.map g := by
  induction xs generalizing acc with
  | nil => simp
  | cons x xs ih => simp [ih]

/-- a search loop: `for x in xs: if c(x): return r(x)` with no state -/
theorem forLoop_find (f : Unit → α → Py.Step Unit ρ) (c : α → Bool) (r : α → ρ)
    (hf : ∀ x, f () x = if c x then .ret (r x) else .next ()) (xs : List α) :
    Py.forLoop xs () f = match xs.find? c with
      | some x => .ret (r x)
      | none => .done () := by
  induction xs with
  | nil => rfl
  | cons x xs ih =>
    rw [Lemmas.PyPrelude.forLoop_cons, hf]
    cases h : c x <;> simp [h, ih]

end Yaql.Lemmas.PyLoops
