import Yaql.Model.Seq
/-! `Value.beq` decides equality; hence Python's `==` as modelled by `pyEq`
(structural equality of canonical forms) is an equivalence relation. -/
namespace Yaql
namespace Value

mutual
theorem beq_eq : ∀ (a b : Value), beq a b = true → a = b
  | null, null, _ => rfl
  | bool a, bool b, h => by simp [beq] at h; simp [h]
  | int a, int b, h => by simp [beq] at h; simp [h]
  | flt a, flt b, h => by simp [beq] at h; simp [h]
  | str a, str b, h => by simp [beq] at h; simp [h]
  | tuple a, tuple b, h => by simp [beq] at h; rw [beqL_eq a b h]
  | list a, list b, h => by simp [beq] at h; rw [beqL_eq a b h]
  | dict a, dict b, h => by simp [beq] at h; rw [beqP_eq a b h]
  | set a, set b, h => by simp [beq] at h; rw [beqL_eq a b h]
  | iter a, iter b, h => by simp [beq] at h; rw [beqL_eq a b h]
  | host a, host b, h => by simp [beq] at h; simp [h]
  | null, bool _, h | null, int _, h | null, flt _, h | null, str _, h | null, tuple _, h | null, list _, h
  | null, dict _, h | null, set _, h | null, iter _, h | null, host _, h => by simp [beq] at h
  | bool _, null, h | bool _, int _, h | bool _, flt _, h | bool _, str _, h | bool _, tuple _, h | bool _, list _, h
  | bool _, dict _, h | bool _, set _, h | bool _, iter _, h | bool _, host _, h => by simp [beq] at h
  | int _, null, h | int _, bool _, h | int _, flt _, h | int _, str _, h | int _, tuple _, h | int _, list _, h
  | int _, dict _, h | int _, set _, h | int _, iter _, h | int _, host _, h => by simp [beq] at h
  | flt _, null, h | flt _, bool _, h | flt _, int _, h | flt _, str _, h | flt _, tuple _, h | flt _, list _, h
  | flt _, dict _, h | flt _, set _, h | flt _, iter _, h | flt _, host _, h => by simp [beq] at h
  | str _, null, h | str _, bool _, h | str _, int _, h | str _, flt _, h | str _, tuple _, h | str _, list _, h
  | str _, dict _, h | str _, set _, h | str _, iter _, h | str _, host _, h => by simp [beq] at h
  | tuple _, null, h | tuple _, bool _, h | tuple _, int _, h | tuple _, flt _, h | tuple _, str _, h | tuple _, list _, h
  | tuple _, dict _, h | tuple _, set _, h | tuple _, iter _, h | tuple _, host _, h => by simp [beq] at h
  | list _, null, h | list _, bool _, h | list _, int _, h | list _, flt _, h | list _, str _, h | list _, tuple _, h
  | list _, dict _, h | list _, set _, h | list _, iter _, h | list _, host _, h => by simp [beq] at h
  | dict _, null, h | dict _, bool _, h | dict _, int _, h | dict _, flt _, h | dict _, str _, h | dict _, tuple _, h
  | dict _, list _, h | dict _, set _, h | dict _, iter _, h | dict _, host _, h => by simp [beq] at h
  | set _, null, h | set _, bool _, h | set _, int _, h | set _, flt _, h | set _, str _, h | set _, tuple _, h
  | set _, list _, h | set _, dict _, h | set _, iter _, h | set _, host _, h => by simp [beq] at h
  | iter _, null, h | iter _, bool _, h | iter _, int _, h | iter _, flt _, h | iter _, str _, h | iter _, tuple _, h
  | iter _, list _, h | iter _, dict _, h | iter _, set _, h | iter _, host _, h => by simp [beq] at h
  | host _, null, h | host _, bool _, h | host _, int _, h | host _, flt _, h | host _, str _, h | host _, tuple _, h
  | host _, list _, h | host _, dict _, h | host _, set _, h | host _, iter _, h => by simp [beq] at h
theorem beqL_eq : ∀ (a b : List Value), beqL a b = true → a = b
  | [], [], _ => rfl
  | x :: xs, y :: ys, h => by
    simp [beqL] at h
    rw [beq_eq x y h.1, beqL_eq xs ys h.2]
  | [], _ :: _, h => by simp [beqL] at h
  | _ :: _, [], h => by simp [beqL] at h
theorem beqP_eq : ∀ (a b : List (Value × Value)), beqP a b = true → a = b
  | [], [], _ => rfl
  | (k, v) :: xs, (k', v') :: ys, h => by
    simp [beqP] at h
    rw [beq_eq k k' h.1.1, beq_eq v v' h.1.2, beqP_eq xs ys h.2]
  | [], _ :: _, h => by simp [beqP] at h
  | _ :: _, [], h => by simp [beqP] at h
end

mutual
theorem beq_refl : ∀ (a : Value), beq a a = true
  | null => rfl
  | bool _ | int _ | flt _ | str _ | host _ => by simp [beq]
  | tuple a | list a | set a | iter a => by simp [beq, beqL_refl a]
  | dict a => by simp [beq, beqP_refl a]
theorem beqL_refl : ∀ (a : List Value), beqL a a = true
  | [] => rfl
  | x :: xs => by simp [beqL, beq_refl x, beqL_refl xs]
theorem beqP_refl : ∀ (a : List (Value × Value)), beqP a a = true
  | [] => rfl
  | (k, v) :: xs => by simp [beqP, beq_refl k, beq_refl v, beqP_refl xs]
end

instance : LawfulBEq Value where
  eq_of_beq {a b} h := beq_eq a b h
  rfl {a} := beq_refl a

instance : DecidableEq Value := fun a b =>
  if h : (a == b) = true then isTrue (eq_of_beq h) else isFalse (fun e => h (e ▸ beq_self_eq_true a))

theorem pyEq_iff (a b : Value) : pyEq a b = true ↔ canon a = canon b := by
  simp [pyEq]

theorem pyEq_refl (a : Value) : pyEq a a = true := by simp [pyEq]
theorem pyEq_symm (a b : Value) : pyEq a b = pyEq b a := by
  simp only [pyEq]; exact Bool.eq_iff_iff.mpr ⟨fun h => by simp [eq_of_beq h], fun h => by simp [eq_of_beq h]⟩
theorem pyEq_trans {a b c : Value} (h₁ : pyEq a b = true) (h₂ : pyEq b c = true) : pyEq a c = true := by
  rw [pyEq_iff] at *; exact h₁.trans h₂

/-- `==` depends only on the class of each side -/
theorem pyEq_congr_left {a b : Value} (h : pyEq a b = true) (c : Value) : pyEq a c = pyEq b c := by
  simp only [pyEq]; rw [(pyEq_iff a b).mp h]
theorem pyEq_congr_right {a b : Value} (h : pyEq a b = true) (c : Value) : pyEq c a = pyEq c b := by
  simp only [pyEq]; rw [(pyEq_iff a b).mp h]

end Value
end Yaql
