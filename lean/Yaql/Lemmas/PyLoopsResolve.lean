import Yaql.Model.PyPrelude
import Yaql.Lemmas.PyPrelude
/-!
General lemmas about dictionary lookups (`Py.dictGet?` / `Py.dictIndex`) inside loops, used by
`Props/SrcResolve.lean`: a loop over one association list that looks every key up in a second
association list with the same key sequence (no duplicates) sees the values of the second list
positionally, i.e. it is a loop over the `zip` of the two.
-/
namespace Yaql.Lemmas.PyLoopsResolve
open Yaql

/-- an entry of a dictionary with pairwise distinct keys is what the lookup of its key finds -/
theorem dictGet?_of_mem [BEq κ] [LawfulBEq κ] (d : List (κ × ν)) (hd : (d.map (·.1)).Nodup)
    (p : κ × ν) (hp : p ∈ d) : Py.dictGet? d p.1 = some p.2 := by
  induction d with
  | nil => cases hp
  | cons q d ih =>
    rw [Lemmas.PyPrelude.dictGet?_cons]
    simp only [List.map_cons, List.nodup_cons] at hd
    rcases List.mem_cons.1 hp with rfl | h
    · simp
    · have hne : ¬ ((q.1 == p.1) = true) := by
        intro e
        apply hd.1
        rw [eq_of_beq e]
        exact List.mem_map_of_mem h
      simp [hne, ih hd.2 h]

theorem dictIndex_of_mem [BEq κ] [LawfulBEq κ] (d : List (κ × ν)) (hd : (d.map (·.1)).Nodup)
    (p : κ × ν) (hp : p ∈ d) : Py.dictIndex d p.1 = .ok p.2 := by
  unfold Py.dictIndex
  rw [dictGet?_of_mem d hd p hp]

/-- looking the keys of `d1` up in `d2`, when both have the same key sequence without duplicates, gives
    the values of `d2` in order -/
theorem map_dictGet?_of_keys_eq [BEq κ] [LawfulBEq κ] (d1 : List (κ × ν₁)) (d2 : List (κ × ν))
    (hk : d1.map (·.1) = d2.map (·.1)) (hd : (d2.map (·.1)).Nodup) :
    d1.map (fun x => Py.dictGet? d2 x.1) = d2.map (fun y => some y.2) := by
  have h1 : d1.map (fun x => Py.dictGet? d2 x.1) = (d1.map (·.1)).map (Py.dictGet? d2) := by
    simp [List.map_map, Function.comp_def]
  rw [h1, hk, List.map_map]
  apply List.map_congr_left
  intro y hy
  exact dictGet?_of_mem d2 hd y hy

/-- every key of `d1` is found in `d2` when the key sequences agree -/
theorem dictGet?_isSome_of_keys_eq [BEq κ] [LawfulBEq κ] (d1 : List (κ × ν₁)) (d2 : List (κ × ν))
    (hk : d1.map (·.1) = d2.map (·.1)) (hd : (d2.map (·.1)).Nodup) (x : κ × ν₁) (hx : x ∈ d1) :
    ∃ v, Py.dictGet? d2 x.1 = some v := by
  have hm : x.1 ∈ d2.map (·.1) := by
    rw [← hk]
    exact List.mem_map_of_mem hx
  obtain ⟨y, hy, hyx⟩ := List.mem_map.1 hm
  exact ⟨y.2, by rw [← hyx]; exact dictGet?_of_mem d2 hd y hy⟩

/-- a map over `l1` that consults a per-element lookup `g` is the same map over `zip l1 l2` once the
    lookups are known to be `l2.map h` -/
theorem map_zip_of_map_eq (g : α → γ) (h : β → γ) (F : α → γ → δ) (l1 : List α) (l2 : List β)
    (hgh : l1.map g = l2.map h) :
    (l1.zip l2).map (fun p => F p.1 (h p.2)) = l1.map (fun x => F x (g x)) := by
  induction l1 generalizing l2 with
  | nil => simp
  | cons x l1 ih =>
    cases l2 with
    | nil => simp at hgh
    | cons y l2 =>
      simp only [List.map_cons, List.cons.injEq] at hgh
      simp only [List.zip_cons_cons, List.map_cons, ih l2 hgh.2, hgh.1]

end Yaql.Lemmas.PyLoopsResolve
