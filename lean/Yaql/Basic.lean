def hello := "world"
