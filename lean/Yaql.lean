import Yaql.Model.Context
import Yaql.Props.C17
