import Yaql.Model.FloatRound
import Yaql.Model.Scalar
open Yaql.FloatRound

def lcg (s : Nat) : Nat := (s * 6364136223846793005 + 1442695040888963407) % 2^64

def hw (n d : Nat) : UInt64 := (Float.ofNat n / Float.ofNat d).toBits

def run (cnt : Nat) : IO Unit := do
  let mut s := 12345
  let mut bad := 0
  for _ in [0:cnt] do
    s := lcg s
    let nb := s % 53 + 1
    s := lcg s
    let n := s % 2^nb
    s := lcg s
    let db := s % 53 + 1
    s := lcg s
    let d := s % 2^db + 1
    match roundRat n d with
    | .ok w => if w != hw n d then bad := bad + 1; IO.println s!"BAD {n} {d} {w} {hw n d}"
    | _ => bad := bad + 1
  IO.println s!"quot bad={bad}"
  -- float(int) vs old
  let mut bad2 := 0
  for _ in [0:cnt] do
    s := lcg s
    let nb := s % 1100 + 1
    let mut n := 0
    for _ in [0:18] do
      s := lcg s
      n := n * 2^64 + s
    n := n % 2^nb
    s := lcg s
    if s % 4 == 0 then n := 2^nb - 1 - (s / 4 % 3)
    if s % 4 == 1 then n := 2^nb + 2^(nb-53) 
    if s % 4 == 2 then n := 2^nb + 2^(nb-54) + (s/4 % 3) - 1
    let i : Int := if s % 8 < 4 then n else -n
    let o := Yaql.Scalar.toFloat i
    let r := roundRat i 1
    match o, r with
    | .ok a, .ok b => if a != b then bad2 := bad2 + 1; IO.println s!"BAD2 {i}"
    | .error _, .overflow _ => pure ()
    | _, _ => bad2 := bad2 + 1; IO.println s!"BAD2 {i}"
  IO.println s!"toFloat bad={bad2}"

#eval run 20000
#eval roundRat 1 10
#eval (0.1 : Float).toBits
#eval roundRat (-1) (10^400)
#eval roundRat (10^400) 1
#eval roundRat 5 0
#eval roundRat 1 (2^1075)
#eval roundRat 3 (2^1075)
#eval roundRat (2^1024 - 2^970) 1
#eval roundRat (2^1024 - 2^970 - 1) 1
#eval divBits (1.0:Float).toBits (3.0:Float).toBits == ((1.0:Float)/3.0).toBits
