#!/bin/sh
# Offline build of the framework: regenerate the Gen tables from /repo, build all Lean modules and the driver.
set -e
cd "$(dirname "$0")"
/venv/bin/python -W ignore harness/pyfacts.py all
/venv/bin/python -W ignore harness/gendriver.py
cd lean
lake build Yaql yaqlmodel
