"""Generators of overload families and calls (JSON-able specs) for C05/C06/C11."""
from resolvelib import SILENT

LATTICE_NAMES = ['Base', 'L', 'R', 'D', 'object', 'int', 'str', 'NoneType']
# corpus indices by class (see resolvelib.CORPUS)
INSTANCES = {'Base': [0, 1, 2, 3, 4], 'L': [1, 3, 4], 'R': [2, 3, 4], 'D': [3, 4], 'int': [5, 6, 7], 'str': [8, 9],
             'object': list(range(12)), 'NoneType': [], 'bool': [7], 'float': [10]}
LITERAL = {5: 0, 6: 7, 7: True, 8: 'a', 9: 'bb', 10: 2.5}


def gen_type(rng, bias_lattice=0.6):
    r = rng.random()
    if r < bias_lattice:
        return ['py', rng.choice(['Base', 'L', 'R', 'D', 'D', 'object', 'Base']), rng.random() < 0.3]
    if r < bias_lattice + 0.1:
        return ['py', rng.choice(['int', 'str', 'NoneType', 'object']), rng.random() < 0.3]
    if r < bias_lattice + 0.17:
        return None
    if r < bias_lattice + 0.24:
        return rng.choice(['String', 'Integer', 'StringN', 'Integer'])
    if r < bias_lattice + 0.30:
        return rng.choice(['Lambda', 'Lambda', 'Lambda', 'LambdaM', 'YaqlExpression', 'YaqlExpressionF'])
    if r < bias_lattice + 0.37:
        return rng.choice(['Constant', 'ConstantN', 'StringConstant', 'NumericConstant', 'BooleanConstant', 'Keyword'])
    if r < bias_lattice + 0.39:
        return 'MappingRule'
    if r < bias_lattice + 0.395:
        return 'Number'
    return ['py', 'D', False]


def gen_default(rng, ty):
    r = rng.random()
    if r < 0.35:
        return ['none']
    if r < 0.6:
        return ['lit', rng.choice([5, 'dflt', True])]
    if r < 0.9:
        return ['corpus', rng.choice([0, 3, 4, 5, 8])]
    return ['novalue']


def gen_overload(rng, fid, arity, kindmix, nk, names=('a', 'b', 'c', 'd', 'e'), gen_type=gen_type):
    n = max(0, arity + rng.choice([-1, 0, 0, 0, 0, 1]))
    n = min(n, len(names))
    params = []
    for i in range(n):
        p = dict(name=names[i], kind='pos', ty=gen_type(rng))
        if rng.random() < 0.08:
            p['alias'] = names[i] + 'x'
        params.append(p)
    # trailing defaults
    nd = rng.choice([0, 0, 0, 1, 1, 2])
    for p in params[max(0, n - nd):]:
        p['default'] = gen_default(rng, p['ty'])
    # hidden positional parameters at random positions
    if rng.random() < 0.35:
        for j in range(rng.choice([1, 1, 2])):
            at = rng.randrange(len(params) + 1)
            params.insert(at, dict(name='h%d' % j, kind='pos', ty=rng.choice(['Context', 'Engine', 'Receiver'])))
    seen = False
    for p in params:            # python: no non-default positional after a default one
        if 'default' in p:
            seen = True
        elif seen:
            p['default'] = ['none']
    if rng.random() < 0.2:
        params.append(dict(name='rest', kind='star', ty=gen_type(rng, 0.75)))
    if rng.random() < 0.25:
        for j in range(rng.choice([1, 1, 2])):
            p = dict(name='k%d' % j, kind='kwonly', ty=gen_type(rng))
            if rng.random() < 0.6:
                p['default'] = gen_default(rng, p['ty'])
            params.append(p)
    if rng.random() < 0.05:
        params.append(dict(name='hk', kind='kwonly', ty=rng.choice(['Context', 'Engine']), default=['none']))
    if rng.random() < 0.15:
        params.append(dict(name='kws', kind='starstar', ty=gen_type(rng, 0.75)))
    return dict(id=fid, kind=rng.choice(kindmix), nk=nk(), params=params)


def gen_family(rng, max_layers=4):
    nlayers = rng.choice([1, 1, 2, 2, 3, 4][:max(1, max_layers + 2)])
    nlayers = min(nlayers, max_layers)
    arity = rng.choice([0, 1, 1, 2, 2, 2, 3])
    kindmix = rng.choice([['function'], ['function'], ['function', 'extension'], ['extension'], ['method', 'extension'],
                          ['function', 'method', 'extension'], ['method']])
    r = rng.random()
    if r < 0.85:
        nk = lambda: False
    elif r < 0.92:
        nk = lambda: True
    else:
        nk = lambda: rng.random() < 0.5
    fid = [0]
    layers = []
    for _ in range(nlayers):
        fns = []
        for _ in range(rng.choice([0, 1, 1, 2, 2, 3, 4])):
            fns.append(gen_overload(rng, fid[0], arity, kindmix, nk))
            fid[0] += 1
        layers.append(dict(fns=fns, x=rng.random() < 0.2))
    return layers


def is_hidden(p):
    return p.get('ty') in ('Context', 'Engine', 'Receiver')


def value_for(rng, ty):
    """corpus index (or None for Python None) that probably satisfies the type spec"""
    if rng.random() < 0.15:
        return rng.choice([None] + list(range(12)))
    if isinstance(ty, list):
        inst = INSTANCES.get(ty[1], [])
        if ty[1] in ('Base', 'L', 'R', 'object') and rng.random() < 0.6:
            return rng.choice([3, 4])           # D instances satisfy every lattice type at once
        return rng.choice(inst) if inst else None
    if ty in ('String', 'StringN', 'StringConstant'):
        return rng.choice([8, 9])
    if ty in ('Integer', 'Number', 'NumericConstant'):
        return rng.choice([5, 6])
    if ty == 'BooleanConstant':
        return 7
    return rng.choice(list(range(12)))


class ProbeCounter:
    def __init__(self):
        self.n = 0

    def next(self):
        self.n += 1
        return self.n


def arg_for(rng, ty, pc, forms=None):
    """an argument spec for a parameter of type spec `ty`"""
    v = value_for(rng, ty)
    if ty in ('Constant', 'ConstantN', 'StringConstant', 'NumericConstant', 'BooleanConstant', 'Keyword') \
            and rng.random() < 0.8:
        if ty == 'Keyword' or rng.random() < 0.15:
            return ['kwc', rng.choice(['abc', 'a', 'k'])]
        if v is None or v not in LITERAL:
            return ['c', rng.choice([None, 1, 'a', True])]
        return ['c', LITERAL[v]]
    if ty == 'MappingRule' and rng.random() < 0.8:
        return ['m', rng.choice([['c', 1], ['kwc', 'a'], ['tick', pc.next(), 5]]), ['tick', pc.next(), 3]]
    if v is None:
        return rng.choice([['c', None], ['v', ['none']]])
    r = rng.random()
    if forms == 'expr':
        r = r * 0.6
    if r < 0.45:
        return ['tick', pc.next(), v]
    if r < 0.5:
        return ['wrap', pc.next(), v]
    if r < 0.6:
        return ['var', SILENT + pc.next(), v]
    if r < 0.75 or v not in LITERAL:
        return ['v', ['corpus', v]]
    return ['c', LITERAL[v]]


def gen_call(rng, layers, pc=None):
    pc = pc or ProbeCounter()
    allo = [o for layer in layers for o in layer['fns']]
    if not allo:
        return dict(args=[], kw=[])
    o = rng.choice(allo)
    method = {'method': True, 'extension': rng.random() < 0.5, 'function': False}[o['kind']]
    if rng.random() < 0.06:
        method = not method
    vis = [p for p in o['params'] if p['kind'] == 'pos' and not is_hidden(p)]
    call = {}
    if method:
        v = value_for(rng, vis[0]['ty'] if vis else None)
        call['recv'] = ['none'] if v is None else ['corpus', v]
        vis = vis[1:]
    modes = []
    for p in vis:
        r = rng.random()
        if 'default' in p and r < 0.3:
            modes.append('omit')
        elif r < 0.75:
            modes.append('pos')
        else:
            modes.append('kw')
    last = max([i for i, m in enumerate(modes) if m == 'pos'], default=-1)
    args, kw = [], []
    for i, (p, m) in enumerate(zip(vis, modes)):
        if m == 'pos':
            args.append(arg_for(rng, p.get('ty'), pc))
        else:
            if i < last:
                args.append(['nv'])
            if m == 'kw':
                kw.append([p.get('alias', p['name']), arg_for(rng, p.get('ty'), pc)])
    star = [p for p in o['params'] if p['kind'] == 'star']
    if (star and last == len(vis) - 1 and rng.random() < 0.7) or rng.random() < 0.04:
        for _ in range(rng.choice([1, 1, 2])):
            args.append(arg_for(rng, star[0].get('ty') if star else None, pc) if rng.random() < 0.9 else ['nv'])
    for p in o['params']:
        if p['kind'] == 'kwonly' and not is_hidden(p) and ('default' not in p or rng.random() < 0.5):
            kw.append([p['name'], arg_for(rng, p.get('ty'), pc)])
    ss = [p for p in o['params'] if p['kind'] == 'starstar']
    if (ss and rng.random() < 0.7) or rng.random() < 0.03:
        kw.append([rng.choice(['zz', 'yy', 'a']), arg_for(rng, ss[0].get('ty') if ss else None, pc)])
    # mutations
    r = rng.random()
    if r < 0.04 and args:
        args.pop(rng.randrange(len(args)))
    elif r < 0.08:
        args.insert(rng.randrange(len(args) + 1), arg_for(rng, None, pc))
    elif r < 0.10 and kw:
        kw.append([kw[0][0], arg_for(rng, None, pc)])
    elif r < 0.12 and kw:
        kw[rng.randrange(len(kw))][0] = 'nope'
    elif r < 0.14:
        args.insert(rng.randrange(len(args) + 1), ['m', ['c', 1], ['tick', pc.next(), 3]])
    # keywords: as `name => value` arguments or as Python-level keywords
    pykw = []
    for n, a in kw:
        if rng.random() < 0.65 and a[0] not in ('v', 'nv'):
            args.insert(rng.randrange(len(args) + 1) if rng.random() < 0.3 else len(args), ['m', ['kwc', n], a])
        else:
            pykw.append([n, a])
    call['args'] = args
    call['kw'] = pykw
    seen = set()
    call['kw'] = [x for x in pykw if not (x[0] in seen or seen.add(x[0]))]    # Python keywords are unique
    return call


# ---------------------------------------------------------------- call histories (C05)

def lattice_type(rng, bias_lattice=None):
    """plain class types over Base > L, R > D: a D instance satisfies all of them at once"""
    return ['py', rng.choice(['Base', 'L', 'R', 'D', 'object', 'Base']), rng.random() < 0.1]


def gen_pool(rng):
    """the overloads a history draws from: {fid: ospec}, one arity, mostly one name"""
    arity = rng.choice([0, 1, 1, 2, 2, 2, 3])
    kindmix = rng.choice([['function'], ['function'], ['function'], ['function', 'extension'], ['extension'],
                          ['method', 'extension'], ['function', 'method', 'extension'], ['method']])
    r = rng.random()
    if r < 0.9:
        nk = lambda: False
    elif r < 0.95:
        nk = lambda: True
    else:
        nk = lambda: rng.random() < 0.5
    style = rng.choice(['general', 'lattice', 'lattice', 'lattice'])
    two_names = rng.random() < 0.15
    defs = {}
    for fid in range(rng.choice([2, 3, 3, 4, 4, 5, 6])):
        o = gen_overload(rng, fid, arity, kindmix, nk, gen_type=gen_type if style == 'general' else lattice_type)
        if two_names and rng.random() < 0.4:
            o['fname'] = 'g'
        defs[fid] = o
    return style, defs


def gen_history(rng, max_ctx=7):
    """-> dict(defs, steps): contexts are created, overloads registered (some exclusively, some twice, some in
    several contexts) and deleted, and calls are made in between from old and new contexts"""
    style, defs = gen_pool(rng)
    fids = sorted(defs)
    pc = ProbeCounter()
    steps = [['root']]
    parent = [None]
    for _ in range(rng.choice([0, 1, 1, 2, 2, 3])):
        steps.append(['child', len(parent) - 1])
        parent.append(len(parent) - 1)
    placed = []             # (context, fid) pairs registered so far
    calls = []              # call steps made so far

    def fname(f):
        return defs[f].get('fname', 'f')

    def a_call():
        i = max(rng.randrange(len(parent)), rng.randrange(len(parent)))
        if calls and rng.random() < 0.4:
            old = rng.choice(calls)
            return ['call', i if rng.random() < 0.6 else old[1], old[2], old[3]]
        known = sorted({f for _, f in placed}) if placed and rng.random() < 0.8 else fids
        name = fname(rng.choice(known))
        fns = [defs[f] for f in known if fname(f) == name]
        return ['call', i, gen_call(rng, [dict(fns=fns)], pc), name]

    for _ in range(rng.randrange(6, 16)):
        r = rng.random()
        if r < 0.42:
            fresh = [f for f in fids if f not in {g for _, g in placed}]
            f = rng.choice(fresh) if fresh and rng.random() < 0.85 else rng.choice(fids)
            i = rng.randrange(len(parent))
            steps.append(['reg', i, f, rng.random() < 0.15])
            placed.append((i, f))
        elif r < 0.82:
            st = a_call()
            steps.append(st)
            calls.append(st)
        elif r < 0.91:
            if len(parent) < max_ctx:
                i = rng.randrange(len(parent))
                steps.append(['child', i])
                parent.append(i)
        else:
            if placed and rng.random() < 0.8:
                i, f = rng.choice(placed)
            else:
                i, f = rng.randrange(len(parent)), rng.choice(fids)
            steps.append(['del', i, f])
    for _ in range(rng.choice([1, 2])):
        steps.append(a_call())
    return dict(style=style, defs={str(k): v for k, v in defs.items()}, steps=steps)
