"""Generators of overload families and calls (JSON-able specs) for C05/C06/C11."""
import json

from resolvelib import SILENT

LATTICE_NAMES = ['Base', 'L', 'R', 'D', 'object', 'int', 'str', 'NoneType']
# corpus indices by class (see resolvelib.CORPUS)
INSTANCES = {'Base': [0, 1, 2, 3, 4], 'L': [1, 3, 4], 'R': [2, 3, 4], 'D': [3, 4], 'int': [5, 6, 7], 'str': [8, 9],
             'object': list(range(12)), 'NoneType': [], 'bool': [7], 'float': [10],
             'LL': [12, 14], 'E': [12], 'U': [13, 15], 'G': [13]}
LITERAL = {5: 0, 6: 7, 7: True, 8: 'a', 9: 'bb', 10: 2.5}


def gen_type(rng, bias_lattice=0.6):
    r = rng.random()
    if r < bias_lattice:
        return ['py', rng.choice(['Base', 'L', 'R', 'D', 'D', 'object', 'Base']), rng.random() < 0.3]
    if r < bias_lattice + 0.1:
        return ['py', rng.choice(['int', 'str', 'NoneType', 'object']), rng.random() < 0.3]
    if r < bias_lattice + 0.17:
        return None
    if r < bias_lattice + 0.24:
        return rng.choice(['String', 'Integer', 'StringN', 'Integer'])
    if r < bias_lattice + 0.30:
        return rng.choice(['Lambda', 'Lambda', 'Lambda', 'LambdaM', 'YaqlExpression', 'YaqlExpressionF'])
    if r < bias_lattice + 0.37:
        return rng.choice(['Constant', 'ConstantN', 'StringConstant', 'NumericConstant', 'BooleanConstant', 'Keyword'])
    if r < bias_lattice + 0.39:
        return 'MappingRule'
    if r < bias_lattice + 0.395:
        return 'Number'
    if rng.random() < 0.5:
        # a PythonType subclass whose convert() turns some VALUES down after check() passed (resolvelib.Picky)
        return ['picky', rng.choice(['D', 'L', 'Base', 'object']), False]
    return ['py', 'D', False]


def gen_default(rng, ty):
    r = rng.random()
    if r < 0.35:
        return ['none']
    if r < 0.6:
        return ['lit', rng.choice([5, 'dflt', True])]
    if r < 0.9:
        return ['corpus', rng.choice([0, 3, 4, 5, 8])]
    return ['novalue']


def gen_overload(rng, fid, arity, kindmix, nk, names=('a', 'b', 'c', 'd', 'e'), gen_type=gen_type):
    n = max(0, arity + rng.choice([-1, 0, 0, 0, 0, 1]))
    n = min(n, len(names))
    params = []
    for i in range(n):
        p = dict(name=names[i], kind='pos', ty=gen_type(rng))
        if rng.random() < 0.08:
            p['alias'] = names[i] + 'x'
        params.append(p)
    # trailing defaults
    nd = rng.choice([0, 0, 0, 1, 1, 2])
    for p in params[max(0, n - nd):]:
        p['default'] = gen_default(rng, p['ty'])
    # hidden positional parameters at random positions
    if rng.random() < 0.35:
        for j in range(rng.choice([1, 1, 2])):
            at = rng.randrange(len(params) + 1)
            params.insert(at, dict(name='h%d' % j, kind='pos', ty=rng.choice(['Context', 'Engine', 'Receiver'])))
    seen = False
    for p in params:            # python: no non-default positional after a default one
        if 'default' in p:
            seen = True
        elif seen:
            p['default'] = ['none']
    if rng.random() < 0.2:
        params.append(dict(name='rest', kind='star', ty=gen_type(rng, 0.75)))
    if rng.random() < 0.25:
        for j in range(rng.choice([1, 1, 2])):
            p = dict(name='k%d' % j, kind='kwonly', ty=gen_type(rng))
            if rng.random() < 0.6:
                p['default'] = gen_default(rng, p['ty'])
            params.append(p)
    if rng.random() < 0.05:
        params.append(dict(name='hk', kind='kwonly', ty=rng.choice(['Context', 'Engine']), default=['none']))
    if rng.random() < 0.15:
        params.append(dict(name='kws', kind='starstar', ty=gen_type(rng, 0.75)))
    return dict(id=fid, kind=rng.choice(kindmix), nk=nk(), params=params)


def gen_family(rng, max_layers=4):
    nlayers = rng.choice([1, 1, 2, 2, 3, 4][:max(1, max_layers + 2)])
    nlayers = min(nlayers, max_layers)
    arity = rng.choice([0, 1, 1, 2, 2, 2, 3])
    kindmix = rng.choice([['function'], ['function'], ['function', 'extension'], ['extension'], ['method', 'extension'],
                          ['function', 'method', 'extension'], ['method']])
    r = rng.random()
    if r < 0.85:
        nk = lambda: False
    elif r < 0.92:
        nk = lambda: True
    else:
        nk = lambda: rng.random() < 0.5
    fid = [0]
    layers = []
    for _ in range(nlayers):
        fns = []
        for _ in range(rng.choice([0, 1, 1, 2, 2, 3, 4])):
            o = gen_overload(rng, fid[0], arity, kindmix, nk)
            if rng.random() < 0.5:
                pyify(rng, o)
            fns.append(o)
            fid[0] += 1
        layers.append(dict(fns=fns, x=rng.random() < 0.2))
    return layers


def is_hidden(p):
    return p.get('ty') in ('Context', 'Engine', 'Receiver', 'YaqlInterface')


def camel(name):
    out, i = [], 0
    while i < len(name):
        if name[i] == '_' and i > 0 and i + 1 < len(name):
            out.append(name[i + 1].upper())
            i += 2
        else:
            out.append(name[i])
            i += 1
    return ''.join(out)


def kwname(o, p):
    """the keyword a caller uses for parameter p of overload o: the alias, else the Python name - translated by
    the context's CamelCase convention when the definition is made with it"""
    if 'alias' in p:
        return p['alias']
    if (o.get('py') or {}).get('via') in ('callable', 'fdconv'):
        return camel(p['name'].rstrip('_'))
    return p['name']


STYLES = ['def', 'def', 'factory', 'factory', 'lambda', 'classfn']


def pyify(rng, o, style=None, allow_callable=True):
    """turn an overload spec into a randomly written Python callable: payload style, decorators in a shuffled
    order, bare Python classes / undeclared types / `nullable=` next to the declared ones, parameters decorated by
    index, hidden parameters recognised by their NAME, Python-style parameter names (`k_0`, `b_`) that the naming
    convention translates, the name given by `name=`, by `@specs.name` or by the Python function name, and how the
    definition gets into the context (prepared with / without the convention, or the callable itself)"""
    py = dict(style=style or rng.choice(STYLES))
    if rng.random() < 0.7:
        py['dseed'] = rng.randrange(1 << 30)
    r = rng.random()
    py['via'] = 'callable' if (r < 0.45 and allow_callable) else 'fdconv' if r < 0.65 else 'fd'
    r = rng.random()
    py['nameby'] = 'arg' if r < 0.5 else 'deco' if r < 0.75 or py['style'] == 'lambda' else 'pyname'
    if py['nameby'] == 'pyname':
        py['underscores'] = rng.choice([0, 1, 1, 2])
    if rng.random() < 0.2:
        py['meta'] = rng.choice(['text', 'math', 7])
    names = {p['name'] for p in o['params']}
    for p in o['params']:
        ts = p.get('ty')
        if isinstance(ts, list) and ts[0] == 'py' and rng.random() < 0.5:
            # the bare class: nullable as given, or left to the rule "nullable iff the default is None"
            p['ty'] = ['cls', ts[1], rng.choice([None, None, ts[2], True, False])]
        elif isinstance(ts, list) and ts[0] == 'py' and rng.random() < 0.12 and p['kind'] in ('pos', 'kwonly'):
            del p['ty']                                     # undeclared: the type comes from the default
            p['ty'] = None
            if rng.random() < 0.4:
                p['nullable'] = rng.random() < 0.5
        elif isinstance(ts, str) and ts in ('String', 'Integer') and rng.random() < 0.2:
            p['nullable'] = rng.random() < 0.5              # ignored next to a smart type
        if ts in ('Context', 'Engine') and p['kind'] in ('pos', 'kwonly') and rng.random() < 0.6:
            n = rng.choice({'Context': ['context', '__context'], 'Engine': ['engine', '__engine']}[ts])
            if py['style'] == 'classfn':
                n = n.lstrip('_')                           # no name mangling games
            if n not in names and 'alias' not in p:
                names.discard(p['name'])
                names.add(n)
                p['name'] = n
                p['byname'] = True
        if p['kind'] in ('pos', 'star') and not p.get('byname') and rng.random() < 0.12:
            p['byindex'] = True
        if p['kind'] in ('pos', 'kwonly') and not p.get('byname') and 'alias' not in p and rng.random() < 0.15:
            n = p['name'][0] + '_' + p['name'][1:] if len(p['name']) > 1 and rng.random() < 0.6 else p['name'] + '_'
            if n not in names:
                names.discard(p['name'])
                names.add(n)
                p['name'] = n
    if rng.random() < 0.06 and 'yaql_interface' not in names:
        at = rng.randrange(len([p for p in o['params'] if p['kind'] == 'pos']) + 1)
        seen_default = any('default' in p for p in o['params'][:at] if p['kind'] == 'pos')
        hp = dict(name='yaql_interface', kind='pos', ty='YaqlInterface', byname=True)
        if seen_default:
            hp['default'] = ['none']
        o['params'].insert(at, hp)
    o['py'] = py
    return o


def value_for(rng, ty):
    """corpus index (or None for Python None) that probably satisfies the type spec"""
    if rng.random() < 0.15:
        return rng.choice([None] + list(range(12)))
    if isinstance(ty, list) and isinstance(ty[1], list):
        ty = ['py', rng.choice(ty[1]), ty[2]]
    if isinstance(ty, list):
        inst = INSTANCES.get(ty[1], [])
        if ty[1] in ('Base', 'L', 'R', 'object') and rng.random() < 0.6:
            return rng.choice([3, 4])           # D instances satisfy every lattice type at once
        return rng.choice(inst) if inst else None
    if ty in ('String', 'StringN', 'StringConstant'):
        return rng.choice([8, 9])
    if ty in ('Integer', 'Number', 'NumericConstant'):
        return rng.choice([5, 6])
    if ty == 'BooleanConstant':
        return 7
    return rng.choice(list(range(12)))


class ProbeCounter:
    def __init__(self):
        self.n = 0

    def next(self):
        self.n += 1
        return self.n


def arg_for(rng, ty, pc, forms=None):
    """an argument spec for a parameter of type spec `ty`"""
    v = value_for(rng, ty)
    if ty in ('Constant', 'ConstantN', 'StringConstant', 'NumericConstant', 'BooleanConstant', 'Keyword') \
            and rng.random() < 0.8:
        if ty == 'Keyword' or rng.random() < 0.15:
            return ['kwc', rng.choice(['abc', 'a', 'k'])]
        if v is None or v not in LITERAL:
            return ['c', rng.choice([None, 1, 'a', True])]
        return ['c', LITERAL[v]]
    if ty == 'MappingRule' and rng.random() < 0.8:
        return ['m', rng.choice([['c', 1], ['kwc', 'a'], ['tick', pc.next(), 5]]), ['tick', pc.next(), 3]]
    if v is None:
        return rng.choice([['c', None], ['v', ['none']]])
    r = rng.random()
    if forms == 'expr':
        r = r * 0.6
    if r < 0.45:
        return ['tick', pc.next(), v]
    if r < 0.5:
        return ['wrap', pc.next(), v]
    if r < 0.6:
        return ['var', SILENT + pc.next(), v]
    if r < 0.75 or v not in LITERAL:
        return ['v', ['corpus', v]]
    return ['c', LITERAL[v]]


def gen_call(rng, layers, pc=None):
    pc = pc or ProbeCounter()
    allo = [o for layer in layers for o in layer['fns']]
    if not allo:
        return dict(args=[], kw=[])
    o = rng.choice(allo)
    method = {'method': True, 'extension': rng.random() < 0.5, 'function': False}[o['kind']]
    if rng.random() < 0.06:
        method = not method
    vis = [p for p in o['params'] if p['kind'] == 'pos' and not is_hidden(p)]
    call = {}
    if method:
        v = value_for(rng, vis[0]['ty'] if vis else None)
        call['recv'] = ['none'] if v is None else ['corpus', v]
        vis = vis[1:]
    modes = []
    for p in vis:
        r = rng.random()
        if 'default' in p and r < 0.3:
            modes.append('omit')
        elif r < 0.75:
            modes.append('pos')
        else:
            modes.append('kw')
    last = max([i for i, m in enumerate(modes) if m == 'pos'], default=-1)
    args, kw = [], []
    for i, (p, m) in enumerate(zip(vis, modes)):
        if m == 'pos':
            args.append(arg_for(rng, p.get('ty'), pc))
        else:
            if i < last:
                args.append(['nv'])
            if m == 'kw':
                kw.append([kwname(o, p), arg_for(rng, p.get('ty'), pc)])
    star = [p for p in o['params'] if p['kind'] == 'star']
    if (star and last == len(vis) - 1 and rng.random() < 0.7) or rng.random() < 0.04:
        for _ in range(rng.choice([1, 1, 2])):
            args.append(arg_for(rng, star[0].get('ty') if star else None, pc) if rng.random() < 0.9 else ['nv'])
    for p in o['params']:
        if p['kind'] == 'kwonly' and not is_hidden(p) and ('default' not in p or rng.random() < 0.5):
            kw.append([kwname(o, p), arg_for(rng, p.get('ty'), pc)])
    ss = [p for p in o['params'] if p['kind'] == 'starstar']
    if (ss and rng.random() < 0.7) or rng.random() < 0.03:
        kw.append([rng.choice(['zz', 'yy', 'a']), arg_for(rng, ss[0].get('ty') if ss else None, pc)])
    # mutations
    r = rng.random()
    if r < 0.04 and args:
        args.pop(rng.randrange(len(args)))
    elif r < 0.08:
        args.insert(rng.randrange(len(args) + 1), arg_for(rng, None, pc))
    elif r < 0.10 and kw:
        kw.append([kw[0][0], arg_for(rng, None, pc)])
    elif r < 0.12 and kw:
        kw[rng.randrange(len(kw))][0] = 'nope'
    elif r < 0.14:
        args.insert(rng.randrange(len(args) + 1), ['m', ['c', 1], ['tick', pc.next(), 3]])
    # keywords: as `name => value` arguments or as Python-level keywords
    pykw = []
    for n, a in kw:
        if rng.random() < 0.65 and a[0] not in ('v', 'nv'):
            args.insert(rng.randrange(len(args) + 1) if rng.random() < 0.3 else len(args), ['m', ['kwc', n], a])
        else:
            pykw.append([n, a])
    call['args'] = args
    call['kw'] = pykw
    seen = set()
    call['kw'] = [x for x in pykw if not (x[0] in seen or seen.add(x[0]))]    # Python keywords are unique
    return call


# ---------------------------------------------------------------- call histories (C05)

def lattice_type(rng, bias_lattice=None):
    """plain class types over Base > L, R > D: a D instance satisfies all of them at once"""
    return ['py', rng.choice(['Base', 'L', 'R', 'D', 'object', 'Base']), rng.random() < 0.1]


def gen_pool(rng):
    """the overloads a history draws from: {fid: ospec}, one arity, mostly one name"""
    arity = rng.choice([0, 1, 1, 2, 2, 2, 3])
    kindmix = rng.choice([['function'], ['function'], ['function'], ['function', 'extension'], ['extension'],
                          ['method', 'extension'], ['function', 'method', 'extension'], ['method']])
    r = rng.random()
    if r < 0.9:
        nk = lambda: False
    elif r < 0.95:
        nk = lambda: True
    else:
        nk = lambda: rng.random() < 0.5
    style = rng.choice(['general', 'lattice', 'lattice', 'lattice'])
    two_names = rng.random() < 0.15
    defs = {}
    for fid in range(rng.choice([2, 3, 3, 4, 4, 5, 6])):
        o = gen_overload(rng, fid, arity, kindmix, nk, gen_type=gen_type if style == 'general' else lattice_type)
        if two_names and rng.random() < 0.4:
            o['fname'] = 'g'
        if rng.random() < 0.5:
            pyify(rng, o)
        defs[fid] = o
    return style, defs


def gen_history(rng, max_ctx=7):
    """-> dict(defs, steps): contexts are created (children, further roots, MultiContexts over existing contexts,
    LinkedContexts), overloads registered (some exclusively, some twice; the SAME definition object / the same
    Python callable in several contexts with different exclusive flags, in both orders) and deleted, and calls
    are made in between from old and new contexts"""
    style, defs = gen_pool(rng)
    fids = sorted(defs)
    pc = ProbeCounter()
    steps = [['root']]
    kinds = ['plain']       # per handle: plain | multi | linked (child possible) | linked* (no child)
    for _ in range(rng.choice([0, 1, 1, 2, 2, 3])):
        steps.append(['child', len(kinds) - 1])
        kinds.append('plain')
    mixed = rng.random() < 0.4          # this history also builds multi / linked contexts and further roots
    sharing = rng.random() < 0.45       # this history likes to put one definition into several contexts
    placed = []             # (context, definition id) pairs registered so far
    flags = {}              # definition id -> exclusive flags used so far
    calls = []              # call steps made so far
    next_did = [1000]
    covers = {}             # composite handle -> the handles it reads (members of a multi, target of a linked)

    def fname(d):
        return defs[d if d < 1000 else dtag[d]].get('fname', 'f')
    dtag = {}

    iface = rng.random() < 0.5          # this history makes most of its calls through YaqlInterface objects

    def a_via():
        """the host entry point of a call: the context itself, THE YaqlInterface of the context (kept for the whole
        history), an interface derived from it with on(), one made with a receiver, or the `yaql_interface` injected
        into a host function"""
        r = rng.random()
        if r > (0.85 if iface else 0.12):
            return []
        return [rng.choice(['yi', 'yi', 'yi', 'yi', 'yid', 'yir', 'inj', 'inj'])]

    def twin(cspec):
        """the same call with the receiver moved: f(x, ..) <-> x.f(..), or on another receiver"""
        c = json.loads(json.dumps(cspec))
        if 'recv' in c:
            if rng.random() < 0.5 and c['recv'][0] == 'corpus':
                c['args'] = [['v', c.pop('recv')]] + c['args']
            else:
                c['recv'] = ['corpus', rng.choice([0, 1, 2, 3, 4, 8, 5])]
        else:
            a = c['args'][0] if c['args'] else None
            if a and a[0] in ('tick', 'wrap', 'var'):
                c['recv'] = ['corpus', a[2]]
                c['args'] = c['args'][1:]
            elif a and a[0] == 'v' and a[1][0] == 'corpus':
                c['recv'] = a[1]
                c['args'] = c['args'][1:]
            else:
                c['recv'] = ['corpus', rng.choice([0, 1, 2, 3, 4, 8])]
        return c

    def a_call(i=None, via=None):
        # (not from a LinkedContext over a non-plain context: running ANY delegate there needs
        # create_child_context, which such a context does not have - outside resolution, see notes/C05.md)
        ok = [k for k in range(len(kinds)) if kinds[k] != 'linked*']
        if i is None:
            i = max(rng.choice(ok), rng.choice(ok))
        via = a_via() if via is None else via
        if calls and rng.random() < (0.55 if iface else 0.4):
            old = rng.choice(calls)
            c = twin(old[2]) if rng.random() < (0.5 if iface else 0.1) else old[2]
            return ['call', i if rng.random() < 0.6 or old[1] not in ok else old[1], c, old[3]] + via
        known = sorted({d if d < 1000 else dtag[d] for _, d in placed}) if placed and rng.random() < 0.8 else fids
        name = fname(rng.choice(known))
        fns = [defs[f] for f in known if fname(f) == name]
        return ['call', i, gen_call(rng, [dict(fns=fns)], pc), name] + via

    def a_registration():
        used = {d if d < 1000 else dtag[d] for _, d in placed}
        fresh = [f for f in fids if f not in used]
        again = placed and rng.random() < (0.55 if sharing else 0.15)
        if again:
            j, d = rng.choice(placed)
            f = d if d < 1000 else dtag[d]
            others = [k for k in range(len(kinds)) if k != j]
            i = rng.choice(others) if others and rng.random() < 0.85 else j
            seen = flags.get(f, [False])
            x = (not seen[-1]) if rng.random() < 0.6 else rng.random() < 0.3   # mostly the OTHER flag than before
        else:
            f = rng.choice(fresh) if fresh and rng.random() < 0.85 else rng.choice(fids)
            i = rng.randrange(len(kinds))
            if covers and rng.random() < 0.4:       # into a context that a MultiContext / LinkedContext reads
                i = rng.choice(rng.choice(list(covers.values())))
            x = rng.random() < (0.3 if sharing else 0.15)
        flags.setdefault(f, []).append(x)
        via = (defs[f].get('py') or {}).get('via')
        if via == 'callable' or (via is None and rng.random() < 0.1):
            did = next_did[0]
            next_did[0] += 1
            dtag[did] = f
            placed.append((i, did))
            return ['regc', i, f, x, did]
        placed.append((i, f))
        return ['reg', i, f, x]

    for _ in range(rng.randrange(6, 16)):
        r = rng.random()
        if r < 0.42:
            steps.append(a_registration())
        elif r < 0.80:
            st = a_call()
            steps.append(st)
            calls.append(st)
            # histories THROUGH one interface family: the same name again from the same context, with / without
            # receiver, on other receivers, right away
            while st[4:] and rng.random() < 0.55 and len(steps) < 40:
                st = a_call(st[1], st[4:] if st[4] == 'inj' or rng.random() < 0.6 else None)
                steps.append(st)
                calls.append(st)
        elif r < 0.91:
            if len(kinds) >= max_ctx:
                continue
            r2 = rng.random()
            if not mixed or r2 < 0.4:
                cand = [i for i, k in enumerate(kinds) if k != 'linked*']
                steps.append(['child', rng.choice(cand)])
                kinds.append('plain')
            elif r2 < 0.5:
                steps.append(['root'])
                kinds.append('plain')
            elif r2 < 0.78:
                ms = [rng.randrange(len(kinds)) for _ in range(rng.choice([1, 2, 2, 3]))]
                steps.append(['multi', ms])
                covers[len(kinds)] = list(ms)
                kinds.append('multi')
            else:
                t = rng.randrange(len(kinds))
                steps.append(['linked', rng.choice([None] + list(range(len(kinds)))), t])
                covers[len(kinds)] = [t]
                kinds.append('linked' if kinds[t] == 'plain' else 'linked*')
        else:
            if placed and rng.random() < 0.8:
                i, d = rng.choice(placed)
                through = [h for h, ms in covers.items() if i in ms]
                if through and rng.random() < 0.5:
                    i = rng.choice(through)         # delete THROUGH a MultiContext / LinkedContext that reads it
                elif rng.random() < 0.25:
                    i = rng.randrange(len(kinds))
            else:
                i, d = rng.randrange(len(kinds)), rng.choice(fids)
            steps.append(['del', i, d])
    for _ in range(rng.choice([1, 2])):
        steps.append(a_call())
    return dict(style=style, defs={str(k): v for k, v in defs.items()}, steps=steps)
