"""Plain-Python transcription of the documented meaning of the C04 fragment.

Written from doc/source/language_reference.rst and the docstrings of the standard library
(system.py: let / with / unpack / def / `->` / `.`; queries.py / collections.py for the handful
of collection functions the fragment uses).  It does NOT import yaql.  It is the second opinion
beside the Lean reference interpreter (lean/Yaql/Model/Eval.lean): lazy results are real Python
generators here, contexts are small immutable Python objects, so a slip in one of the two
independent renderings shows up as a disagreement between them.

Programs are the ASTs of harness/evalgen.py:
  ["lit", v] ["kw", name] ["var", "$x"] ["list", [e..]] ["map", [[k, v]..]] ["index", e, [a..]]
  ["un", "not"|"neg", e] ["bin", op, a, b] ["arrow", l, r] ["member", e, name]
  ["call", f, [a..], [[k, v]..]] ["method", e, f, [a..], [[k, v]..]]
"""
import functools
import itertools


class OOD(Exception):
    """outside the domain this transcription speaks about (no prediction)"""


class NoMatchingFunctionException(Exception):
    pass


class NoMatchingMethodException(Exception):
    pass


class NoFunctionRegisteredException(Exception):
    pass


class NoMethodRegisteredException(Exception):
    pass


class MappingTranslationException(Exception):
    pass


class Stop(Exception):
    """StopIteration leaving a function (a real StopIteration cannot cross a generator)"""


class FD:
    """an immutable, hashable, insertion-ordered dictionary"""

    def __init__(self, pairs=()):
        self.d = dict(pairs)

    def __hash__(self):
        return hash(tuple((k, hash(v)) for k, v in self.d.items())) if self.d else 0

    def __eq__(self, o):
        return isinstance(o, FD) and self.d == o.d

    def __repr__(self):
        return 'FD(%r)' % (self.d,)


class Lazy:
    """a one-shot iterator: may be consumed once; `iterator` says whether it is an iterator
    object (generator, map, filter, islice) or a re-sortable ordering"""

    def __init__(self, gen, iterator=True):
        self.gen = gen
        self.iterator = iterator
        self.used = False

    def __iter__(self):
        if self.used:
            raise OOD('second consumer of a one-shot iterator')
        self.used = True
        return iter(self.gen)


class Ctx:
    """a context object: its own variables / functions and the parent"""

    def __init__(self, parent, variables=None, funcs=None):
        self.parent = parent
        self.vars = dict(variables or {})
        self.funcs = dict(funcs or {})

    def lookup(self, name):
        c = self
        while c is not None:
            if name in c.vars:
                return c.vars[name]
            c = c.parent
        return None                      # "If the variable with given name is not provided, it is assumed to be null"

    def function(self, name):
        name = fn_key(name)
        c = self
        while c is not None:
            if name in c.funcs:
                return c.funcs[name], c
            c = c.parent
        return None


def norm(name):
    """`$` is an alias for `$1`; names carry their `$`"""
    if not name.startswith('$'):
        name = '$' + name
    return '$1' if name == '$' else name


def fn_key(name):
    """function names: "regardless of convention used, all trailing underscores are stripped from the names" """
    return name.rstrip('_')


def camel(name):
    out, i = [], 0
    while i < len(name):
        if i > 0 and name[i] == '_' and i + 1 < len(name) and (name[i + 1].isalnum() or name[i + 1] == '_'):
            out.append(name[i + 1].upper())
            i += 2
        else:
            out.append(name[i])
            i += 1
    return ''.join(out)


def fn_key_as_implemented(name):
    """what the CODE registers a def-ined function under (known finding def-name-translated; used to recognise that
    finding only, never as the expectation): specs.convert_function_name under CamelCaseConvention"""
    if not name:
        return name
    name = name.rstrip('_')
    if not name:
        raise IndexError('string index out of range')
    if not name[0].isalpha():
        finish = name.find(name[0], 1)
        if finish <= 1:
            return name
        return name[:finish + 1] + camel(name[finish + 1:])
    return camel(name)


def is_num(x):
    return isinstance(x, (int, float)) and not isinstance(x, bool)


def is_iterable(v):
    return isinstance(v, (tuple, Lazy))


def truth(v):
    if isinstance(v, (Lazy, Ctx)):
        return True
    if isinstance(v, FD):
        return bool(v.d)
    return bool(v)


def contains_lazy(v):
    if isinstance(v, Lazy):
        return True
    if isinstance(v, tuple):
        return any(contains_lazy(x) for x in v)
    if isinstance(v, FD):
        return any(contains_lazy(k) or contains_lazy(x) for k, x in v.d.items())
    return False


def data(v):
    """a value that is stored into a list / dict / variable"""
    if isinstance(v, Ctx):
        raise OOD('context object inside data')
    if isinstance(v, Lazy) and not v.iterator:
        raise OOD('ordering inside data')
    return v


def plain(v):
    """operand of an operator: no lazies"""
    if isinstance(v, Lazy) or contains_lazy(v):
        raise OOD('operator on a lazy sequence')
    return v


# parameters after the receiver: (name, is a lambda) - from the `:signature:` lines of the docstrings
KEYWORD_PARAMS = {
    'select': [('selector', True)], 'where': [('predicate', True)], 'selectMany': [('selector', True)],
    'orderBy': [('selector', True)], 'orderByDescending': [('selector', True)], 'takeWhile': [('predicate', True)],
    'skipWhile': [('predicate', True)], 'indexWhere': [('predicate', True)],
    'toDict': [('keySelector', True), ('valueSelector', True)], 'aggregate': [('selector', True), ('seed', False)],
    'sum': [('initial', False)], 'first': [('default', False)], 'take': [('count', False)], 'skip': [('count', False)],
    'any': [('predicate', True)], 'all': [('predicate', True)],
}
METHODS = {'unpack', 'select', 'where', 'selectMany', 'orderBy', 'orderByDescending', 'takeWhile', 'skipWhile',
           'indexWhere', 'toDict', 'aggregate', 'sum', 'first', 'toList', 'take', 'skip', 'get', 'len', 'any', 'all'}
FUNCTIONS = {'let', 'with', 'def', 'list', 'dict', 'len', 'any', 'all'}
BUILTINS = METHODS | FUNCTIONS


class Interp:
    def __init__(self, max_steps=200000, def_as_implemented=False):
        self.steps = 0
        self.max_steps = max_steps
        self.def_key = fn_key_as_implemented if def_as_implemented else fn_key

    # ------------------------------------------------------------ entry
    def run(self, doc, e, env=None):
        """env (harness/evalgen.py: gen_host_env): the host's own context chain - `layers` of variables from the root
        upwards, the document bound as `$` above the first `at` of them ("named variables resolve through the enclosing
        scopes": wherever the host bound something, the program sees it unless something nearer shadows it)"""
        if env is None:
            root = Ctx(None, {'$1': doc})
        else:
            root = None
            layers = list(env['layers'])
            for i in range(len(layers) + 1):
                if i == env['at']:
                    root = Ctx(root, {'$1': doc})
                if i < len(layers):
                    root = Ctx(root, {norm(n): v for n, v in layers[i]})
        return self.finalise(self.ev(e, root))

    def finalise(self, v):
        if isinstance(v, Ctx):
            return ('ctx',)
        out = self.fin(v)
        return ('data', out)

    def fin(self, v, key=False):
        if isinstance(v, (tuple, Lazy)):
            items = [self.fin(x) for x in v]          # (a lazy key is consumed - and may raise - before the list it
            if key:                                   # becomes turns out to be no dictionary key)
                raise TypeError('unhashable list')
            return items
        if isinstance(v, FD):
            if key:
                raise TypeError('unhashable dict')
            out = {}
            for k, x in v.d.items():
                val = self.fin(x)           # `result[rec(key)] = rec(value)`: the value is converted first
                out[self.fin(k, True)] = val
            return out
        if isinstance(v, Ctx):
            raise OOD('context inside data')
        return v

    # ------------------------------------------------------------ expressions
    def ev(self, e, c):
        self.steps += 1
        if self.steps > self.max_steps:
            raise OOD('too long')
        t = e[0]
        if t == 'lit':
            return e[1]
        if t == 'kw':
            return e[1]
        if t == 'var':
            v = c.lookup(norm(e[1]))
            if contains_lazy(v):
                raise OOD('variable holding a one-shot iterator')
            return v
        if t == 'list':
            return tuple(data(self.ev(x, c)) for x in e[1])
        if t == 'map':
            return self.make_dict([(data(self.ev(k, c)), data(self.ev(v, c))) for k, v in e[1]])
        if t == 'index':
            return self.index(e, c)
        if t == 'un':
            return self.unary(e[1], self.ev(e[2], c))
        if t == 'bin':
            return self.binary(e[1], e[2], e[3], c)
        if t == 'arrow':
            left = self.ev(e[1], c)
            if not isinstance(left, Ctx):
                raise NoMatchingFunctionException('#operator_->')
            return self.ev(e[2], left)           # "Evaluates lambda on provided context"
        if t == 'member':
            return self.member(self.ev(e[1], c), e[2])
        if t == 'call':
            return self.call(e[1], e[2], e[3], c)
        if t == 'method':
            recv = self.ev(e[1], c)
            args = e[3]
            if e[4]:
                if fn_key(e[2]) not in METHODS:
                    raise NoMethodRegisteredException(e[2])
                args = self.by_keyword(fn_key(e[2]), e[3], e[4])
            if fn_key(e[2]) not in METHODS:
                raise NoMethodRegisteredException(e[2])
            return self.method(fn_key(e[2]), recv, args, c, NoMatchingMethodException)
        raise OOD('unknown node %r' % (t,))

    def by_keyword(self, f, args, kw):
        """"`name => value` passes the argument to the parameter of that name": the positional argument list that
        says the same (signatures as the docstrings give them: `collection.toDict(keySelector, valueSelector => null)`,
        `collection.aggregate(selector, seed => NoValue)` ..).  A lambda stays a lambda however it is passed."""
        params = KEYWORD_PARAMS.get(f)
        if params is None:
            raise OOD('keyword arguments of ' + f)
        names = []
        for k, _ in kw:
            if k[0] != 'kw':
                raise OOD('a mapping rule as an argument')
            names.append(k[1])
        if len(set(names)) != len(names):
            raise OOD('repeated keyword')
        rest = params[len(args):]
        if len(args) > len(params) or any(n not in [p for p, _ in rest] for n in names):
            raise NoMatchingMethodException(f)             # no parameter of that name (left)
        given = [p for p, _ in rest if p in names]
        if [p for p, _ in rest[:len(given)]] != given:
            raise OOD('a parameter left out in between')
        if given != names and not all(lazy for p, lazy in rest if p in names):
            raise OOD('eager keyword arguments written in another order than the parameters')
        values = dict((k[1], v) for k, v in kw)
        return list(args) + [values[p] for p in given]

    def apply(self, body, defining, args, kwargs=None):
        """a lambda: `$1..$n` (and `$name`) are published into a child of the context the lambda
        was created in"""
        variables = {'$%d' % (i + 1): a for i, a in enumerate(args)}
        for k, v in (kwargs or {}).items():
            variables[norm(k)] = v
        return self.ev(body, Ctx(defining, variables))

    # ------------------------------------------------------------ operators
    def unary(self, op, v):
        if op == 'not':
            if isinstance(v, (Lazy, Ctx)):
                raise OOD('not on an object')
            return not truth(plain(v))
        if isinstance(v, Ctx):
            raise NoMatchingFunctionException('#unary_operator_-')
        v = plain(v)
        if is_num(v):
            return -v
        raise NoMatchingFunctionException('#unary_operator_-')

    def binary(self, op, ea, eb, c):
        if op == 'and':
            a = self.ev(ea, c)
            return self.ev(eb, c) if truth(a) else a
        if op == 'or':
            a = self.ev(ea, c)
            return a if truth(a) else self.ev(eb, c)
        # literal operands are type-checked when the overload is chosen, before anything is evaluated
        for x in (ea, eb):
            if x[0] in ('lit', 'kw'):
                v = x[1]
                if (v is None or isinstance(v, bool)) and op in ('add', 'sub', 'mul'):
                    raise NoMatchingFunctionException(op)
                if isinstance(v, str) and op == 'sub':
                    raise NoMatchingFunctionException(op)
        a = self.ev(ea, c)
        b = self.ev(eb, c)
        return self.binop(op, a, b)

    def binop(self, op, a, b):
        if isinstance(a, Ctx) or isinstance(b, Ctx):
            if op in ('eq', 'ne'):
                raise OOD('identity of contexts')
            if op in ('lt', 'le', 'gt', 'ge'):
                # the null overloads of common.py (`null < x`, `x < null`) take ANY object on the other side - a context too
                if isinstance(a, Ctx) and b is None:
                    return op in ('gt', 'ge')
                if isinstance(b, Ctx) and a is None:
                    return op in ('lt', 'le')
            raise NoMatchingFunctionException(op)
        a, b = plain(a), plain(b)

        is_int = is_num          # numbers: integers and floats (never booleans)
        if op == 'eq':
            return a == b
        if op == 'ne':
            return a != b
        if op in ('lt', 'le', 'gt', 'ge'):
            if a is None and b is None:
                return op in ('le', 'ge')
            if a is None:
                return op in ('lt', 'le')
            if b is None:
                return op in ('gt', 'ge')
            if (is_int(a) and is_int(b)) or (isinstance(a, str) and isinstance(b, str)):
                return {'lt': a < b, 'le': a <= b, 'gt': a > b, 'ge': a >= b}[op]
            raise NoMatchingFunctionException(op)
        if op == 'add':
            if is_int(a) and is_int(b):
                return a + b
            if isinstance(a, str) and isinstance(b, str):
                return a + b
            if isinstance(a, tuple) and isinstance(b, tuple):
                return a + b
            if isinstance(a, FD) and isinstance(b, FD):
                d = dict(a.d)
                d.update(b.d)
                return FD(d)
            raise NoMatchingFunctionException('+')
        if op == 'sub':
            if is_int(a) and is_int(b):
                return a - b
            raise NoMatchingFunctionException('-')
        if op == 'mul':
            if is_int(a) and is_int(b):
                return a * b
            if any(isinstance(x, (str, tuple)) for x in (a, b)) and not any(
                    x is None or isinstance(x, (bool, FD)) for x in (a, b)):
                raise OOD('repetition')
            raise NoMatchingFunctionException('*')
        raise OOD(op)

    # ------------------------------------------------------------ [] . {}
    def make_dict(self, pairs):
        for k, _ in pairs:
            self.hashable(k)
        return FD(pairs)

    def hashable(self, k):
        if isinstance(k, Lazy):
            return                      # an iterator object is hashed by identity (finalising it as a KEY fails later)
        if isinstance(k, tuple):
            for x in k:
                self.hashable(x)
        if isinstance(k, FD):
            for x in k.d.values():
                self.hashable(x)

    def index(self, e, c):
        args = e[2]
        if len(args) not in (1, 2) or e[1][0] in ('lit', 'kw'):
            raise NoMatchingFunctionException('#indexer')
        recv = self.ev(e[1], c)
        vals = [data(self.ev(a, c)) for a in args]
        if isinstance(recv, tuple) and len(vals) == 1 and isinstance(vals[0], int):
            return recv[vals[0]]
        if isinstance(recv, FD):
            self.hashable(vals[0])
            if len(vals) == 1:
                return recv.d[vals[0]]
            return recv.d.get(vals[0], vals[1])
        raise NoMatchingFunctionException('#indexer')

    def member(self, recv, name):
        if isinstance(recv, FD):
            return recv.d[name]
        if is_iterable(recv):
            def gen():
                for x in recv:
                    yield self.member_of_element(x, name)
            return Lazy(gen())
        raise NoFunctionRegisteredException('#property#' + name)

    def member_of_element(self, x, name):
        if isinstance(x, FD):
            return x.d[name]
        if is_iterable(x):
            # "Retrieves the value of an attribute for each element in a collection": the element is a collection itself,
            # so `element.name` is again the (lazy) projection of ITS elements - whatever kinds the neighbours are of
            return self.member(x, name)
        raise NoFunctionRegisteredException('#property#' + name)

    # ------------------------------------------------------------ functions
    def keywords(self, kw):
        names = []
        for k, _ in kw:
            if k[0] != 'kw':
                raise MappingTranslationException()
            if k[1] in names:
                raise OOD('repeated keyword')
            names.append(k[1])
        return names

    def call(self, f, args, kw, c):
        found = c.function(f)
        if found is not None:
            body, defining = found
            names = self.keywords(kw)
            vals = [data(self.ev(a, c)) for a in args]
            kvals = [data(self.ev(v, c)) for _, v in kw]
            return self.apply(body, defining, vals, dict(zip(names, kvals)))
        f = fn_key(f)
        if f not in FUNCTIONS:
            raise NoFunctionRegisteredException(f)
        if f == 'let':
            names = self.keywords(kw)
            vals = [data(self.ev(a, c)) for a in args]
            kvals = [data(self.ev(v, c)) for _, v in kw]
            variables = {'$%d' % (i + 1): v for i, v in enumerate(vals)}
            for k, v in zip(names, kvals):
                variables[norm(k)] = v
            return Ctx(c, variables)
        if f == 'with':
            if kw:
                self.keywords(kw)
                raise NoMatchingFunctionException('with')
            vals = [data(self.ev(a, c)) for a in args]
            return Ctx(c, {'$%d' % (i + 1): v for i, v in enumerate(vals)})
        if f == 'def':
            if kw:
                raise OOD('def with keywords')
            if len(args) != 2:
                raise NoMatchingFunctionException('def')
            name = self.ev(args[0], c)
            if isinstance(name, Lazy) or contains_lazy(name):
                raise OOD('def name')
            if not isinstance(name, str):
                raise NoMatchingFunctionException('def')
            if fn_key(name) in BUILTINS:
                raise OOD('def of a builtin name')
            return Ctx(c, None, {self.def_key(name): args[1]})
        if f == 'list':
            if kw:
                raise OOD('list with keywords')
            out = []

            def rec(v):
                if isinstance(v, Lazy):
                    if not v.iterator:
                        raise OOD('ordering in list()')
                    for x in v:
                        rec(x)
                elif isinstance(v, Ctx):
                    raise OOD('context in list()')
                else:
                    out.append(v)
            for a in [self.ev(a, c) for a in args]:
                rec(a)
            return tuple(out)
        if f == 'dict':
            if not args:
                return self.make_dict([(data(self.ev(k, c)), data(self.ev(v, c))) for k, v in kw])
            if len(args) == 1 and not kw:
                src = self.ev(args[0], c)
                if not is_iterable(src):
                    raise NoMatchingFunctionException('dict')
                pairs = []
                for item in list(src):
                    if not isinstance(item, tuple):
                        raise OOD('dict item')
                    if len(item) < 2:
                        raise Stop()
                    pairs.append((item[0], item[1]))
                return self.make_dict(pairs)
            raise OOD('dict form')
        # len / any / all called as functions: the collection is the first argument
        if kw:
            raise OOD('keywords')
        if not args or len(args) > (1 if f == 'len' else 2):
            raise NoMatchingFunctionException(f)
        recv = self.ev(args[0], c)
        return self.method(f, recv, args[1:], c, NoMatchingFunctionException)

    # ------------------------------------------------------------ methods
    def method(self, f, recv, args, c, bad):
        def need_iterable():
            if not is_iterable(recv):
                raise bad(f)
            return recv

        def lam(body):
            return lambda *a: self.apply(body, c, list(a))

        def lam_data(body):
            return lambda *a: data(self.apply(body, c, list(a)))

        n = len(args)
        if f == 'select' and n == 1:
            src, fn = need_iterable(), lam_data(args[0])
            return Lazy(fn(x) for x in src)
        if f == 'where' and n == 1:
            src, fn = need_iterable(), lam(args[0])
            return Lazy(x for x in src if truth(fn(x)))
        if f == 'selectMany' and n == 1:
            src, fn = need_iterable(), lam(args[0])

            def gen():
                for x in src:
                    inner = fn(x)
                    if isinstance(inner, Ctx):
                        raise OOD('context from selectMany')
                    if is_iterable(inner):
                        yield from inner
                    else:
                        yield inner
            return Lazy(gen())
        if f == 'takeWhile' and n == 1:
            src, fn = need_iterable(), lam(args[0])
            return Lazy(itertools.takewhile(lambda x: truth(fn(x)), src))
        if f == 'skipWhile' and n == 1:
            src, fn = need_iterable(), lam(args[0])
            return Lazy(itertools.dropwhile(lambda x: truth(fn(x)), src))
        if f in ('orderBy', 'orderByDescending') and n == 1:
            src, fn = need_iterable(), lam_data(args[0])
            return Lazy(self.ordering(src, fn, f == 'orderBy'), iterator=False)
        if f == 'any' and n <= 1:
            src = need_iterable()
            fn = lam(args[0]) if n else None
            for x in src:
                if fn is None or truth(fn(x)):
                    return True
            return False
        if f == 'all' and n <= 1:
            src = need_iterable()
            fn = lam(args[0]) if n else (lambda x: x)
            for x in src:
                if not truth(fn(x)):
                    return False
            return True
        if f == 'indexWhere' and n == 1:
            src, fn = need_iterable(), lam(args[0])
            for i, x in enumerate(src):
                if truth(fn(x)):
                    return i
            return -1
        if f == 'toDict' and n in (1, 2):
            src = need_iterable()
            kf = lam_data(args[0])
            vf = lam_data(args[1]) if n == 2 else (lambda x: x)
            out = {}
            for x in src:
                k = kf(x)
                v = vf(x)
                self.hashable(k)
                out[k] = v
            return FD(out)
        if f == 'aggregate' and n in (1, 2):
            src, fn = need_iterable(), lam_data(args[0])
            if n == 2:
                seed = data(self.ev(args[1], c))
                return functools.reduce(fn, src, seed)
            return functools.reduce(fn, src)
        if f == 'sum' and n <= 1:
            src = need_iterable()

            def plus(a, b):
                return self.binop('add', a, b)
            if n == 1:
                init = data(self.ev(args[0], c))
                return functools.reduce(plus, src, init)
            return functools.reduce(plus, src)
        if f == 'first' and n <= 1:
            src = need_iterable()
            default = self.ev(args[0], c) if n else None
            for x in src:
                return x
            if n:
                return default
            raise Stop()
        if f == 'toList' and n == 0:
            src = need_iterable()
            return src if isinstance(src, tuple) else tuple(src)
        if f in ('take', 'skip') and n == 1:
            src = need_iterable()
            k = self.ev(args[0], c)
            if isinstance(k, bool) or isinstance(k, Lazy) or contains_lazy(k):
                raise OOD('count')
            if not isinstance(k, int):
                raise bad(f)
            if k < 0:
                raise ValueError('islice')
            return Lazy(itertools.islice(src, k) if f == 'take' else itertools.islice(src, k, None))
        if f == 'len' and n == 0:
            if isinstance(recv, Lazy):
                if not recv.iterator:
                    raise bad(f)
                return sum(1 for _ in recv)
            if isinstance(recv, (tuple, str)):
                return len(recv)
            if isinstance(recv, FD):
                return len(recv.d)
            raise bad(f)
        if f == 'get' and n in (1, 2):
            if not isinstance(recv, FD):
                raise bad(f)
            k = data(self.ev(args[0], c))
            default = data(self.ev(args[1], c)) if n == 2 else None
            self.hashable(k)
            return recv.d.get(k, default)
        if f == 'unpack':
            src = need_iterable()
            if any(a[0] == 'lit' and not isinstance(a[1], str) for a in args):
                raise bad(f)
            names = [data(self.ev(a, c)) for a in args]
            if not all(isinstance(x, str) for x in names):
                raise bad(f)
            it = iter(src)
            first = tuple(itertools.islice(it, len(names) + 1))
            if names and len(first) != len(names):
                raise ValueError('Cannot unpack')
            variables = {}
            if names:
                for k, v in zip(names, first):
                    variables[norm(k)] = v
            else:
                for i, v in enumerate(itertools.chain(first, it), 1):
                    variables['$%d' % i] = v
            return Ctx(c, variables)
        if f in ('let', 'with', 'def', 'list', 'dict'):
            raise NoMethodRegisteredException(f)
        raise bad(f)

    def ordering(self, src, key, ascending):
        """a stable sort by the key under yaql's `<` / `>`; sorts when first iterated"""
        items = list(src)
        if len(items) <= 1:
            yield from items
            return
        errors, keys = [], []
        for x in items:
            try:
                keys.append(key(x))
            except OOD:
                raise
            except Exception as e:         # raised from inside a comparison
                errors.append(type(e).__name__)
                keys.append(errors)
        good = [k for k in keys if k is not errors and k is not None]
        if len(good) > 1 and not (all(is_num(k) for k in good) or
                                  all(isinstance(k, str) for k in good)):
            if any(contains_lazy(k) for k in good):
                raise OOD('lazy sort key')
            errors.append('NoMatchingFunctionException')
        if errors:
            if len(set(errors)) > 1:
                raise OOD('which exception comes first depends on the sort')
            raise _named(errors[0])

        def cmp(a, b):
            ka, kb = a[0], b[0]
            if self.binop('lt', ka, kb):
                r = -1
            elif self.binop('gt', ka, kb):
                r = 1
            else:
                r = 0
            return r if ascending else -r
        for _, x in sorted(zip(keys, items), key=functools.cmp_to_key(cmp)):
            yield x


_NAMED = {c.__name__: c for c in (NoMatchingFunctionException, NoMatchingMethodException,
                                  NoFunctionRegisteredException, NoMethodRegisteredException,
                                  MappingTranslationException, KeyError, IndexError, TypeError, ValueError,
                                  Stop, ZeroDivisionError)}


def _named(name):
    cls = _NAMED.get(name)
    if cls is None:
        raise OOD(name)
    return cls(name)


def run(doc, e, max_steps=200000, def_as_implemented=False, env=None):
    """-> ('ok', finalised) | ('ctx',) | ('err', class name) | ('ood', why)"""
    try:
        r = Interp(max_steps, def_as_implemented).run(doc, e, env)
        if r[0] == 'ctx':
            return ('ctx',)
        return ('ok', r[1])
    except OOD as e:
        return ('ood', str(e))
    except RecursionError:
        return ('ood', 'recursion')
    except Exception as e:
        name = type(e).__name__
        return ('err', 'StopIteration' if name == 'Stop' else name)
