"""Development aid for C11 (spelling dimension): applies each hand-written mutant to a scratch worktree of /repo, runs
yaql's own tests and `./check C11 --tier quick` against it.
usage: dev_mutants_c11.py [--notests] [names...]"""
import os
import subprocess
import sys

ROOT = os.path.dirname(os.path.dirname(os.path.abspath(__file__)))
WT = '/tmp/wr-c11r3'
R = 'yaql/language/runner.py'
T = 'yaql/language/yaqltypes.py'
KW_LOOP = ("            for key, value in kwd.items():\n"
           "                if isinstance(value.value_type, yaqltypes.LazyParameterType):\n"
           "                    lazy.add(key)\n")
EVAL = ("    args = tuple(arg_evaluator(i, arg) for i, arg in enumerate(args))\n"
        "    for key, value in kwargs.items():\n"
        "        kwargs[key] = arg_evaluator(key, value)\n")
MUTANTS = {
    # the lazy set is computed from the positional part of the mapping only
    'K1-lazy-set-positional-only': [(R, KW_LOOP, "")],
    # ... the same, but keyword arguments of OPTIONAL lazy parameters are still recognised (yaql's tests pass
    # `aggregator => ..` by keyword)
    'K1b-lazy-set-keyword-optional-only': [(R, KW_LOOP,
                                            "            for key, value in kwd.items():\n"
                                            "                if isinstance(value.value_type, yaqltypes.LazyParameterType) \\\n"
                                            "                        and value.default is not specs.NO_DEFAULT:\n"
                                            "                    lazy.add(key)\n"),
                                           (R, "from yaql.language import exceptions\n",
                                            "from yaql.language import exceptions\nfrom yaql.language import specs\n")],
    # keyword arguments are evaluated in front of the positional ones, lambdas of required parameters included
    'K2-keyword-lambdas-before-positionals': [
        (R, EVAL,
         "    for key, value in kwargs.items():\n"
         "        kwargs[key] = arg_evaluator(key, value)\n"
         "    args = tuple(arg_evaluator(i, arg) for i, arg in enumerate(args))\n"),
        (R, KW_LOOP,
         "            for key, value in kwd.items():\n"
         "                if isinstance(value.value_type, yaqltypes.LazyParameterType) \\\n"
         "                        and value.default is not specs.NO_DEFAULT:\n"
         "                    lazy.add(key)\n"),
        (R, "from yaql.language import exceptions\n", "from yaql.language import exceptions\nfrom yaql.language import specs\n")],
    # a MappingRule-typed parameter (switch) evaluates the destination when the argument is bound
    'K3-mapping-rule-destination-eager': [
        (T, "        return utils.MappingRule(wrap(value.source), wrap(value.destination))\n",
         "        destination = value.destination(receiver, context, engine)\n"
         "        return utils.MappingRule(wrap(value.source), lambda: destination)\n")],
    # keyword names are normalised to camelCase before they are entered into the lazy set: in a context of the
    # PythonConvention the evaluator then looks the (snake_case) keyword up in vain
    'K4-lazy-set-camelcased': [
        (R, KW_LOOP,
         "            for key, value in kwd.items():\n"
         "                if isinstance(value.value_type, yaqltypes.LazyParameterType):\n"
         "                    parts = key.split('_')\n"
         "                    lazy.add(parts[0] + ''.join(t.title() for t in parts[1:]))\n")],
    # a lambda passed by keyword is wrapped once and its first result is remembered
    'K5-keyword-lambda-memoised': [
        (R, EVAL,
         EVAL +
         "    for key, value in list(kwargs.items()):\n"
         "        if key in lazy_params and isinstance(value, expressions.Expression) \\\n"
         "                and not isinstance(value, expressions.MappingRuleExpression):\n"
         "            kwargs[key] = _Once(value)\n"),
        (R, "def choose_overload(", "class _Once(expressions.Expression):\n"
                                    "    def __init__(self, inner):\n"
                                    "        self.inner = inner\n"
                                    "        self.uses_receiver = getattr(inner, 'uses_receiver', False)\n"
                                    "        self.cache = {}\n\n"
                                    "    def __call__(self, receiver, context, engine):\n"
                                    "        key = repr(context['$1']) if '$1' in context else None\n"
                                    "        if key not in self.cache:\n"
                                    "            self.cache[key] = self.inner(receiver, context, engine)\n"
                                    "        return self.cache[key]\n\n\n"
                                    "def choose_overload(")],
}


def sh(cmd, **kw):
    return subprocess.run(cmd, shell=True, stdout=subprocess.PIPE, stderr=subprocess.STDOUT, text=True, **kw)


def apply(n):
    sh('git -C /repo worktree remove --force %s' % WT)
    r = sh('git -C /repo worktree add --detach %s HEAD' % WT)
    assert r.returncode == 0, r.stdout
    for f, old, new in MUTANTS[n]:
        p = os.path.join(WT, f)
        s = open(p).read()
        if s.count(old) != 1:
            print(n, 'PATTERN COUNT', s.count(old), repr(old[:40]))
            return False
        open(p, 'w').write(s.replace(old, new))
    return True


def main():
    args = sys.argv[1:]
    notests = '--notests' in args
    names = [a for a in args if not a.startswith('--')] or list(MUTANTS)
    try:
        for n in names:
            if not apply(n):
                continue
            t = 'skipped' if notests else sh(
                'cd %s && /venv/bin/python -W ignore -m pytest -q -p no:cacheprovider yaql/tests 2>&1 | tail -1' % WT).stdout.strip()
            c = sh('cd %s && YAQL_REPO=%s ./check C11 --tier quick 2>&1 | grep -v "^WARNING" | tail -4' % (ROOT, WT))
            print('== %s | yaql tests: %s' % (n, t))
            print(c.stdout.strip()[:1800], flush=True)
    finally:
        sh('git -C /repo worktree remove --force %s' % WT)


if __name__ == '__main__':
    main()
