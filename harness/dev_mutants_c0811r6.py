"""Development aid (round 6): hand-written mutants in the three dimensions added for C08 (entry points that hand results
to the host) and C11 (error paths; lazy values that nothing consumes).  Applies each to a scratch worktree of /repo, runs
yaql's own tests and `./check <Cxx> --tier quick` against it.
usage: dev_mutants_c0811r6.py [--notests] [names...]"""
import os
import subprocess
import sys

ROOT = os.path.dirname(os.path.dirname(os.path.abspath(__file__)))
WT = '/tmp/wr-c0811r6'
YI = 'yaql/yaql_interface.py'
T = 'yaql/language/yaqltypes.py'
R = 'yaql/language/runner.py'
E = 'yaql/language/expressions.py'
INIT = 'yaql/__init__.py'
B = 'yaql/standard_library/boolean.py'
S = 'yaql/standard_library/system.py'
Q = 'yaql/standard_library/queries.py'
BR = 'yaql/standard_library/branching.py'

STUB_RET = ("            return utils.convert_output_data(\n"
            "                context(item, self.engine, self.sender)(*args, **kwargs),\n"
            "                limit_func, self.engine)\n")
MUTANTS = {
    # ---------------------------------------------------------------- C08: entry points
    # results of on(receiver).method(..) are handed over as the delegate returns them
    'E1-stub-on-receiver-raw': ('C08', [(YI, STUB_RET,
                                         "            result = context(item, self.engine, self.sender)(*args, **kwargs)\n"
                                         "            if self.sender is not utils.NO_VALUE:\n"
                                         "                return result\n"
                                         "            return utils.convert_output_data(result, limit_func, self.engine)\n")]),
    # the YaqlInterface a host function gets through its hidden parameter works on an engine without the iterator limit
    'E2-hidden-interface-unlimited-engine': ('C08', [
        (T, "        return yaql_interface.YaqlInterface(context, engine, receiver)\n",
         "        return yaql_interface.YaqlInterface(\n"
         "            context, engine.copy({'yaql.limitIterators': -1}), receiver)\n")]),
    # the expression form does not convert a second time: identity finaliser for the evaluation, conversion without limiter
    'E3-iface-call-converts-without-limiter': ('C08', [
        (YI, "        parsed = self.engine(__expression)\n"
             "        res = parsed.evaluate(context=context)\n"
             "        limit_func = context('#iter', self.engine)\n"
             "        return utils.convert_output_data(res, limit_func, self.engine)\n",
         "        context.register_function(lambda x: x, name='#finalize')\n"
         "        parsed = self.engine(__expression)\n"
         "        res = parsed.evaluate(context=context)\n"
         "        return utils.convert_output_data(res, lambda x: x, self.engine)\n")]),
    # on(receiver) builds the new interface around an engine with default options
    'E4-on-drops-engine-options': ('C08', [
        (YI, "        return YaqlInterface(self.context, self.engine, receiver)\n",
         "        engine = type(self.engine)(self.engine.lexer, self.engine.parser, {},\n"
         "                                   self.engine.factory)\n"
         "        return YaqlInterface(self.context, engine, receiver)\n")]),
    # the stub converts dictionaries shallowly (keys and values as they are)
    'E5-stub-dict-results-shallow': ('C08', [
        (YI, STUB_RET,
         "            result = context(item, self.engine, self.sender)(*args, **kwargs)\n"
         "            if isinstance(result, utils.MappingType):\n"
         "                return dict(limit_func(result.items()))\n"
         "            return utils.convert_output_data(result, limit_func, self.engine)\n")]),
    # ---------------------------------------------------------------- C11: error paths
    # a call that no overload takes is resolved a second time (the arguments are evaluated again) before the error is raised
    'X1-no-matching-resolved-twice': ('C11', [
        (R, "        delegate = choose_overload(\n"
            "            name, all_overloads, engine, receiver, data_context, args, kwargs)\n",
         "        try:\n"
         "            delegate = choose_overload(\n"
         "                name, all_overloads, engine, receiver, data_context, args,\n"
         "                kwargs)\n"
         "        except exceptions.NoMatchingFunctionException:\n"
         "            delegate = choose_overload(\n"
         "                name, all_overloads, engine, receiver, data_context, args,\n"
         "                dict(kwargs))\n")]),
    # a function call whose name is not registered is looked up once more under the naming convention: an error of that
    # class from INSIDE an argument makes the arguments in front of it run again
    'X2-function-call-retries-with-convention': ('C11', [
        (E, "        return context(self.name, engine, receiver, context)(*self.args)\n",
         "        try:\n"
         "            return context(self.name, engine, receiver, context)(*self.args)\n"
         "        except exceptions.NoFunctionRegisteredException:\n"
         "            return context(self.name, engine, receiver, context,\n"
         "                           use_convention=True)(*self.args)\n")]),
    # the finaliser converts a second time when the conversion raised
    'X3-finalizer-retries-conversion': ('C11', [
        (INIT, "            if engine.options.get('yaql.convertOutputData', True):\n"
               "                return utils.convert_output_data(obj, limiter, engine)\n",
         "            if engine.options.get('yaql.convertOutputData', True):\n"
         "                if utils.is_iterator(obj):\n"
         "                    obj = utils.memorize(obj, engine)\n"
         "                try:\n"
         "                    return utils.convert_output_data(obj, limiter, engine)\n"
         "                except Exception:\n"
         "                    return utils.convert_output_data(obj, limiter, engine)\n")]),
    # an exception of a host function makes the call run again through the python-level delegate
    'X4-ambiguous-evaluates-per-candidate': ('C11', [
        (R, "            if len(winners) != 1:\n                raise_ambiguous()\n",
         "            if len(winners) != 1:\n"
         "                args = tuple(arg_evaluator(i, arg) for i, arg in enumerate(args0))\n"
         "                raise_ambiguous()\n"),
        (R, "    args = tuple(arg_evaluator(i, arg) for i, arg in enumerate(args))\n",
         "    args0 = args\n    args = tuple(arg_evaluator(i, arg) for i, arg in enumerate(args))\n")]),
    # ---------------------------------------------------------------- C11: lazy values nothing consumes
    # bool() / not look into sequences that have no length: an exhausted-looking iterator counts as empty
    'Z1-bool-materialises-iterators': ('C11', [
        (B, "    return bool(value)\n",
         "    if isinstance(value, utils.IterableType) and not hasattr(value, '__len__'):\n"
         "        value = list(value)\n"
         "    return bool(value)\n"),
        (B, "from yaql.language import specs\n", "from yaql.language import specs\nfrom yaql.language import utils\n")]),
    # let() makes the values it binds re-readable: iterators become tuples
    'Z2-let-materialises-iterators': ('C11', [
        (S, "    for key, value in kwargs.items():\n        __context__[key] = value\n    return __context__\n",
         "    for key, value in kwargs.items():\n"
         "        if utils.is_iterator(value):\n"
         "            value = tuple(value)\n"
         "        __context__[key] = value\n"
         "    return __context__\n")]),
    # where(): a predicate that returns a sequence is true iff the sequence is not empty
    'Z3-where-predicate-result-materialised': ('C11', [
        (Q, "    return filter(predicate, collection)\n",
         "    def test(t):\n"
         "        r = predicate(t)\n"
         "        if utils.is_iterable(r) and not utils.is_sequence(r):\n"
         "            r = list(r)\n"
         "        return r\n"
         "    return filter(test, collection)\n")]),
    # switch(): the condition's value is normalised before the test
    'Z4-switch-condition-materialised': ('C11', [
        (BR, "        if mapping.source():\n",
         "        src = mapping.source()\n"
         "        if utils.is_iterator(src):\n"
         "            src = tuple(src)\n"
         "        if src:\n"),
        (BR, "from yaql.language import specs\n", "from yaql.language import specs\nfrom yaql.language import utils\n")]),
    # an ordering sorts when it is created if its collection is a list (cheap), so that len() and bool() work
    'Z5-ordering-sorts-at-thenBy': ('C11', [
        (Q, "    def append_field(self, selector, is_ascending):\n",
         "    def append_field(self, selector, is_ascending):\n"
         "        if self.order:\n"
         "            self.do_sort()\n"
         "            self.sorted = None\n")]),
}


def sh(cmd, **kw):
    return subprocess.run(cmd, shell=True, stdout=subprocess.PIPE, stderr=subprocess.STDOUT, text=True, **kw)


def apply(n):
    sh('git -C /repo worktree remove --force %s' % WT)
    r = sh('git -C /repo worktree add --detach %s HEAD' % WT)
    assert r.returncode == 0, r.stdout
    for f, old, new in MUTANTS[n][1]:
        p = os.path.join(WT, f)
        s = open(p).read()
        if s.count(old) != 1:
            print(n, 'PATTERN COUNT', s.count(old), repr(old[:60]))
            return False
        open(p, 'w').write(s.replace(old, new))
    return True


def main():
    args = sys.argv[1:]
    notests = '--notests' in args
    names = [a for a in args if not a.startswith('--')] or list(MUTANTS)
    try:
        for n in names:
            if not apply(n):
                continue
            prop = MUTANTS[n][0]
            t = 'skipped' if notests else sh(
                'cd %s && /venv/bin/python -W ignore -m pytest -q -p no:cacheprovider yaql/tests 2>&1 | tail -1' % WT).stdout.strip()
            c = sh('cd %s && YAQL_REPO=%s ./check %s --tier quick 2>&1 | grep -v "^WARNING\\|^warning\\|^  " | tail -3' % (ROOT, WT, prop))
            print('== %s | yaql tests: %s' % (n, t))
            print(c.stdout.strip()[:700], flush=True)
            rp = [ln.split('replay=')[1].strip() for ln in c.stdout.splitlines() if 'replay=' in ln]
            if rp and os.path.exists(rp[0]):
                import json
                print('   first:', json.load(open(rp[0])).get('what', '')[:600], flush=True)
    finally:
        sh('git -C /repo worktree remove --force %s' % WT)


if __name__ == '__main__':
    main()
