"""Development aid for the float-rounding work (C15 / C16 / C20): applies small mutants of the float steps of yaql in a
scratch worktree of /repo (/tmp/wr-float), runs the repo tests and the named check against it - once as it is (floats
compared bit for bit with the model) and, for C20, once with VERIF_C20_NO_BITS=1 (the tolerance the check had before the
float steps were modelled) - and prints one line per mutant.  usage: dev_float_mutants.py [name-part ...]"""
import json
import os
import subprocess
import sys

WT = '/tmp/wr-float'
DT = 'yaql/standard_library/date_time.py'
LX = 'yaql/language/lexer.py'
TS = 'return (utc(dt) - DATETIME_TYPE(1970, 1, 1, tzinfo=UTCTZ)).total_seconds()'
M = [
    # (name, check, file, old, new)
    ('F1-timestamp-two-roundings', 'C20', DT, TS,
     'delta = utc(dt) - DATETIME_TYPE(1970, 1, 1, tzinfo=UTCTZ)\n'
     '    return delta.days * 86400.0 + delta.seconds + delta.microseconds / 1000000.0'),
    ('F2-timestamp-via-float-microseconds', 'C20', DT, TS,
     'return microseconds(utc(dt) - DATETIME_TYPE(1970, 1, 1, tzinfo=UTCTZ)) * 1e-06'),
    ('F3-hours-reciprocal-constant', 'C20', DT, 'return microseconds(timespan) / 3600000000.0',
     'return microseconds(timespan) * (1.0 / 3600000000.0)'),
    ('F4-minutes-wrong-magnitude', 'C20', DT, 'return microseconds(timespan) / 60000000.0',
     'return microseconds(timespan) / 6000000.0 / 10.0000001'),
    ('F5-days-two-divisions', 'C20', DT, 'return microseconds(timespan) / 86400000000.0',
     'return microseconds(timespan) / 1000000.0 / 86400.0'),
    ('F6-seconds-total_seconds', 'C20', DT, 'return microseconds(timespan) / 1000000.0', 'return timespan.total_seconds()'),
    ('F7-ts-div-ts-int-division', 'C20', DT, 'return (0.0 + microseconds(ts1)) / microseconds(ts2)',
     'return microseconds(ts1) / microseconds(ts2)'),
    ('F8-literal-int-plus-fraction', 'C16', LX, 't.value = float(t.value)',
     "a, b = t.value.split('.')\n                t.value = float(a) + float(b) / 10 ** len(b)"),
    ('F9-literal-via-division', 'C16', LX, 't.value = float(t.value)',
     "a, b = t.value.split('.')\n                t.value = float(a + b) / float(10 ** len(b))"),
]
only = sys.argv[1:]
ROOT = os.path.dirname(os.path.dirname(os.path.abspath(__file__)))
subprocess.run(['git', '-C', '/repo', 'worktree', 'remove', '--force', WT], capture_output=True)
subprocess.run(['git', '-C', '/repo', 'worktree', 'add', '--detach', WT, 'HEAD'], check=True, capture_output=True)


def check(cid, extra_env):
    r = subprocess.run(['./check', cid, '--tier', 'quick'], cwd=ROOT, capture_output=True, text=True,
                       env=dict(os.environ, YAQL_REPO=WT, **extra_env))
    lines = [l for l in r.stdout.splitlines() if l.startswith(('VIOLATION', cid, 'HARNESS'))]
    what = ''
    for l in lines:
        if 'replay=' in l:
            rp = json.load(open(l.split('replay=')[1].split()[0]))
            what = str(rp.get('what') or rp.get('no_longer_checks'))[:260]
            break
    kind = 'OK' if r.returncode == 0 else ('no-failing-input (model mismatch)' if any('no-failing-input-found' in l for l in lines)
                                           else 'VIOLATION failing input') if r.returncode == 1 else 'rc %d' % r.returncode
    return kind, what


try:
    for name, cid, f, a, b in M:
        if only and not any(o in name for o in only):
            continue
        path = os.path.join(WT, f)
        orig = open(path).read()
        assert orig.count(a) >= 1, name
        open(path, 'w').write(orig.replace(a, b, 1))
        try:
            t = subprocess.run(['/venv/bin/python', '-m', 'pytest', '-q', '-x', '-p', 'no:cacheprovider', 'yaql/tests'], cwd=WT,
                               capture_output=True, text=True, env=dict(os.environ, PYTHONPATH=WT))
            tests = t.stdout.strip().splitlines()[-1] if t.stdout.strip() else t.stderr[-200:]
            kind, what = check(cid, {})
            line = '%s | %s | tests: %s | now: %s' % (name, cid, tests, kind)
            if cid == 'C20':
                k2, _ = check(cid, {'VERIF_C20_NO_BITS': '1'})
                line += ' | with the old tolerance: %s' % k2
            print(line, '\n      ', what, flush=True)
        finally:
            open(path, 'w').write(orig)
finally:
    subprocess.run(['git', '-C', '/repo', 'worktree', 'remove', '--force', WT], capture_output=True)
