"""Plain-Python reference ("second transcription") of yaql's collection / query functions,
the lambda family, and the renderer that turns a generated pipeline into yaql text.

Nothing here calls yaql.  The functions are written from the docstrings of
yaql/standard_library/queries.py and collections.py with itertools / sorted / dict
operations; where the docstrings are silent the behaviour follows the code (listed in
notes/C13.md).  A pipeline is a list of op dicts  {"op": name, ...args};  values are
Python values as yaql holds them at run time (tuple, list, FD, frozenset, iterators).
"""
import functools
import itertools


class OOD(Exception):
    """input outside the modelled domain (no prediction)"""


class NoMatchingFunctionException(Exception):
    pass


class NoMatchingMethodException(Exception):
    pass


class NoFunctionRegisteredException(Exception):
    pass


class AmbiguousMethodException(Exception):
    pass


class CollectionTooLargeException(Exception):
    pass


class NoMethodRegisteredException(Exception):
    pass


class WrappedException(Exception):
    """what a host meets when a StopIteration is raised inside a function call while IT consumes a lazy result
    (yaql.convertOutputData off): yaql wraps it so that it does not end the generators on the way, and only
    evaluate() unwraps it"""


class Opts:
    """the options of the engine a statement belongs to, as far as the collection functions and the finaliser look at
    them (Opts of lean/Yaql/Model/SeqRun.lean): yaql.iterableDicts, convertTuplesToLists, convertSetsToLists,
    convertInputData, limitIterators (None = never reached)"""
    __slots__ = ('id', 'tl', 'sl', 'ci', 'lim', 'co', 'af', 'ns')

    def __init__(self, id=False, tl=True, sl=True, ci=True, lim=None, co=True, af=True, ns=False):
        self.id, self.tl, self.sl, self.ci, self.lim, self.co = id, tl, sl, ci, lim, co
        # the flags of yaql.create_context() the functions depend on: group_by_agg_fallback, no_sets
        self.af, self.ns = af, ns

    def json(self):
        return {'id': self.id, 'tl': self.tl, 'sl': self.sl, 'ci': self.ci, 'lim': self.lim, 'co': self.co, 'af': self.af,
                'ns': self.ns}

    @staticmethod
    def of_json(j):
        return Opts(j['id'], j['tl'], j['sl'], j['ci'], j['lim'], j.get('co', True), j.get('af', True), j.get('ns', False))

    def key(self):
        return (self.id, self.tl, self.sl, self.ci, self.lim, self.co, self.af, self.ns)

    def __repr__(self):
        return ('Opts(iterableDicts=%s, tuplesToLists=%s, setsToLists=%s, convertInput=%s, limit=%s, convertOutput=%s; context: '
                'group_by_agg_fallback=%s, no_sets=%s)' % self.key())


CUR = Opts()         # the options of the evaluation in progress (set by run_ref / run_obs)


class FSet(list):
    """a finalised set (the members in some order)"""


class FDict(list):
    """a dictionary handed out raw, as the list of its (key, value) pairs (nothing is hashed by the harness)"""


class FIter(list):
    """what the host gets out of a lazy result when it consumes it (yaql.convertOutputData off)"""


def limit_sized(xs):
    """limit_iterable over a sized collection: checked when the argument is converted"""
    if CUR.lim is not None and len(xs) > CUR.lim:
        raise CollectionTooLargeException()
    return xs


def limit_lazy(src):
    """limit_iterable over an iterator: the element after the limit-th raises (if there is one)"""
    lim = CUR.lim
    if lim is None:
        return src

    def gen():
        for i, t in enumerate(src):
            if i >= lim:
                raise CollectionTooLargeException()
            yield t
    return gen()


class Stop(Exception):
    """the StopIteration with which first() / last() / single() / dict() fail.  Inside a lambda it has to reach
    the caller of the whole query like any other exception: a real StopIteration raised by a selector would be
    taken by map() / filter() / takewhile() for the end of the collection and cut the result short."""


Stop.__name__ = 'StopIteration'


class FD(dict):
    """an immutable, hashable dict (what yaql's FrozenDict is)"""
    def __hash__(self):
        h = 0
        for p in self.items():
            h ^= hash(p)
        return h


class DSet(frozenset):
    """a set built during evaluation: its iteration order is not part of the documented meaning"""


class Ordering:
    """the result of orderBy: sorts when first iterated; thenBy adds fields"""
    def __init__(self, src, fields):
        self.src, self.fields = src, fields


class View:
    def __init__(self, kind, d):
        self.kind, self.d = kind, d

    def elems(self):
        if self.kind == 'keys':
            return list(self.d.keys())
        if self.kind == 'values':
            return list(self.d.values())
        return [(k, v) for k, v in self.d.items()]


NOVAL = object()


class Memo:
    """memorize(): "an iterator over collection that memorizes already iterated values ... can be
    used for iterating over collection several times".  Every iteration sees the whole source,
    however many iterations are alive at once: all cursors read one shared buffer by position."""
    def __init__(self, source):
        self.source, self.buffer = source, []
        self._own = None

    def __iter__(self):
        def cursor():
            i = 0
            while True:
                if i == len(self.buffer):
                    try:
                        self.buffer.append(next(self.source))
                    except StopIteration:
                        return
                yield self.buffer[i]
                i += 1
        return cursor()

    def __next__(self):            # it is an iterator itself as well
        if self._own is None:
            self._own = iter(self)
        return next(self._own)


def is_int(x):
    return isinstance(x, int) and not isinstance(x, bool)


def is_num(x):
    return isinstance(x, (int, float)) and not isinstance(x, bool)


def has_lazy(v):
    """is there a generator (an unconsumed lazy result of a lambda) inside?"""
    if is_iterator(v):
        return True
    if isinstance(v, (tuple, list)):
        return any(has_lazy(x) for x in v)
    if isinstance(v, dict):
        return any(has_lazy(x) for x in v.values()) or any(has_lazy(k) for k in v)      # (a generator is a legal key)
    return False


def is_iterator(x):
    return hasattr(x, '__next__')


def is_iterable(x):
    return isinstance(x, (tuple, list, frozenset, Ordering, View)) or is_iterator(x)


def is_seq(x):
    return isinstance(x, (tuple, list))


# ------------------------------------------------------------------ scalar operators

def o_plus(a, b):
    if is_num(a) and is_num(b):
        return a + b
    if isinstance(a, str) and isinstance(b, str):
        return a + b
    if isinstance(a, tuple) and isinstance(b, tuple):
        return limit_sized(a) + limit_sized(b)
    if isinstance(a, frozenset) and isinstance(b, frozenset):
        return DSet(limit_sized(a) | limit_sized(b))
    if isinstance(a, dict) and isinstance(b, dict):
        d = dict(a)
        d.update(b)
        return FD(d)
    if is_iterable_arg(a) and is_iterable_arg(b):
        raise OOD()
    raise NoMatchingFunctionException('+')


def o_mul(a, k):
    if is_num(a):
        return a * k
    if isinstance(a, (str, tuple, list)):
        return a * k
    raise NoMatchingFunctionException('*')


def o_mod(a, k):
    if is_num(a):
        return a % k
    raise NoMatchingFunctionException('mod')


def o_gt(a, b):
    if a is None:
        return False
    if b is None:
        return True
    if is_num(a) and is_num(b) or isinstance(a, str) and isinstance(b, str):
        return a > b
    if isinstance(a, frozenset) and isinstance(b, frozenset):
        return a > b
    raise NoMatchingFunctionException('>')


def o_lt(a, b):
    if a is None:
        return b is not None
    if b is None:
        return False
    if is_num(a) and is_num(b) or isinstance(a, str) and isinstance(b, str):
        return a < b
    if isinstance(a, frozenset) and isinstance(b, frozenset):
        return a < b
    raise NoMatchingFunctionException('<')


def o_index(x, k):
    if is_seq(x) and is_int(k):
        return x[k]
    if isinstance(x, dict):
        return x[k]
    raise NoMatchingFunctionException('#indexer')


def o_member(x, name):
    if isinstance(x, dict):
        return x[name]
    if is_iterable(x):
        raise OOD()
    raise NoFunctionRegisteredException(name)


def o_half(a):
    """`a / 2`: "floor division if both are integers, true division otherwise" """
    if is_int(a):
        return a // 2
    if is_num(a):
        return a / 2
    raise NoMatchingFunctionException('/')


def o_str(a):
    """str(): null / true / false as yaql spells them, otherwise the usual text of a number or string"""
    if a is None:
        return 'null'
    if a is True:
        return 'true'
    if a is False:
        return 'false'
    if is_int(a) or isinstance(a, str):
        return str(a)
    if isinstance(a, float):
        return repr(a)
    raise OOD()               # the text of a list / dict is Python's, not documented


def o_len(a):
    if isinstance(a, frozenset) and CUR.ns:
        raise NoMatchingMethodException('len')      # (the `len` of sets is one of the set functions: create_context(no_sets=True))
    if isinstance(a, (str, tuple, list, frozenset, dict)):
        return len(a)
    if is_iterator(a):
        return sum(1 for _ in a)
    raise NoMatchingMethodException('len')


def o_range(a):
    if isinstance(a, int):    # (the parameter is a plain int: booleans pass)
        return iter(range(a))
    raise NoMatchingFunctionException('range')


def seq_of(v):
    """the element of a collection as the receiver of first() / where() / ...: an iterable that is not a
    string or a dict"""
    if isinstance(v, (tuple, list)):
        return iter(limit_sized(v))
    if is_iterator(v):
        return limit_lazy(iter(v))
    if isinstance(v, frozenset):
        limit_sized(v)
        if len(v) > 1:
            raise OOD()       # iteration order of a nested set
        return iter(v)
    if isinstance(v, dict) and CUR.id:
        return iter(limit_sized(list(v)))
    raise NoMatchingMethodException()


def e_first(v, d):
    for x in seq_of(v):
        return x
    if d:
        return d[0]
    raise Stop()


def e_last(v, d):
    r = d[0] if d else NOVAL
    for x in seq_of(v):
        r = x
    if r is NOVAL:
        raise Stop()
    return r


def e_single(v):
    got = list(itertools.islice(seq_of(v), 2))
    if len(got) != 1:
        raise Stop()
    return got[0]


HOOK = None          # C14: wraps every lambda handed to a function (to count applications)


def guarded(l, f):
    """an element that is (or holds) a generator made by an earlier stage can be consumed once: followed
    through lambdas that hand it on untouched, no prediction otherwise"""
    if l[0] in ('arg', 'const'):
        return f

    def g(x):
        if has_lazy(x):
            raise OOD()
        return f(x)
    return g


def lam(l):
    f = guarded(l, _lam(l))
    return HOOK(f) if HOOK else f


def lam2(l):
    f = _lam2(l)
    return HOOK(f) if HOOK else f


def _lam(l):
    """the one-argument lambda described by l as a Python function"""
    t = l[0]
    if t == 'arg':
        return lambda x: x
    if t == 'const':
        v = l[1]
        return lambda x: v
    if t == 'not':
        f = _lam(l[1])
        return lambda x: not f(x)
    if t == 'pair':
        f, g = _lam(l[1]), _lam(l[2])
        return lambda x: (f(x), g(x))
    f = _lam(l[1])
    # lambdas on an element that is a collection itself.  where / select / take / range return a LAZY
    # sequence: a new one at every application, consumed by whoever gets hold of it (usually the finaliser)
    if t == 'len':
        return lambda x: o_len(f(x))
    if t == 'first':
        return lambda x: e_first(f(x), l[2])
    if t == 'last':
        return lambda x: e_last(f(x), l[2])
    if t == 'single':
        return lambda x: e_single(f(x))
    if t == 'sum':
        return lambda x: functools.reduce(o_plus, seq_of(f(x)))
    if t == 'where':
        p = _lam(l[2])
        return lambda x: filter(p, seq_of(f(x)))
    if t == 'select':
        g = _lam(l[2])
        return lambda x: map(g, seq_of(f(x)))
    if t == 'take':
        return lambda x: itertools.islice(seq_of(f(x)), l[2])
    if t == 'range':
        return lambda x: o_range(f(x))
    if t == 'str':
        return lambda x: o_str(f(x))
    if t == 'half':
        return lambda x: o_half(f(x))
    k = l[2]
    if t == 'add':
        return lambda x: o_plus(f(x), k)
    if t == 'mul':
        return lambda x: o_mul(f(x), k)
    if t == 'mod':
        return lambda x: o_mod(f(x), k)
    if t == 'gt':
        return lambda x: o_gt(f(x), k)
    if t == 'eq':
        return lambda x: f(x) == k
    if t == 'member':
        return lambda x: o_member(f(x), k)
    if t == 'index':
        return lambda x: o_index(f(x), k)
    raise ValueError(l)


def o_max(a, b):
    return b if o_gt(b, a) else a


def o_min(a, b):
    return a if o_gt(b, a) else b


def _lam2(l):
    t = l[0]
    if t == 'fst':
        return lambda a, b: a
    if t == 'snd':
        return lambda a, b: b
    if t == 'const':
        return lambda a, b: l[1]
    if t == 'plus':
        return o_plus
    if t == 'gt':
        return o_gt
    if t == 'eq':
        return lambda a, b: a == b
    if t == 'pair':
        return lambda a, b: (a, b)
    if t == 'max':
        return o_max
    if t == 'on1':
        f = guarded(l[1], _lam(l[1]))
        return lambda a, b: f(a)
    if t == 'on2':
        f = guarded(l[1], _lam(l[1]))
        return lambda a, b: f(b)
    if t == 'plusOn':
        f = guarded(l[1], _lam(l[1]))
        return lambda a, b: o_plus(a, f(b))
    raise ValueError(l)


# ------------------------------------------------------------------ receivers

def bad_receiver(o):
    if isinstance(o, str):
        raise OOD()      # strings have functions of the same names (len, replace, indexOf, join...)
    raise NoMatchingMethodException()


def it(o, ordered=True):
    """iterate a receiver declared Iterable(): lazily, once; under yaql.limitIterators a sized collection is checked at
    once, an iterator when the element after the last allowed one is pulled"""
    if isinstance(o, Memo):
        return limit_lazy(iter(o))            # a fresh cursor
    if isinstance(o, DSet):
        limit_sized(o)
        if ordered and len(o) > 1:
            raise OOD()
        return iter(o)
    if isinstance(o, (tuple, list, frozenset)):
        return iter(limit_sized(o))
    if isinstance(o, View):
        if o.kind == 'values':
            return limit_lazy(iter(o.elems()))
        return iter(limit_sized(o.elems()))
    if isinstance(o, Ordering):
        return limit_lazy(sort_lazily(o))
    if is_iterator(o):
        return limit_lazy(o)
    if isinstance(o, dict) and CUR.id:
        return iter(limit_sized(list(o)))     # yaql.iterableDicts: a dictionary is the collection of its keys
    bad_receiver(o)


def is_iterable_arg(x):
    """accepted by a parameter declared Iterable()"""
    return is_iterable(x) or isinstance(x, dict) and CUR.id


def sort_lazily(o):
    def gen():
        xs = list(o.src)
        if len(xs) > 1:      # sets as sort keys are only partially ordered: no documented result
            for f, _ in o.fields:
                for x in xs:
                    try:
                        k = f(x)
                    except OOD:
                        raise
                    except Exception:
                        continue
                    if isinstance(k, frozenset):
                        raise OOD()

        def cmp(a, b):
            for f, asc in o.fields:
                ka, kb = f(a), f(b)
                if o_lt(ka, kb):
                    return -1 if asc else 1
                if o_gt(ka, kb):
                    return 1 if asc else -1
            return 0
        yield from sorted(xs, key=functools.cmp_to_key(cmp))
    return gen()


def hashcheck(x):
    hash(x)
    return x


# ------------------------------------------------------------------ the functions

class Ref:
    """one method per op; `o` is the receiver, `a` the op's argument dict"""

    # ---- queries.py
    def where(self, o, a):
        f = lam(a['l'])
        return filter(f, it(o))

    def select(self, o, a):
        return map(lam(a['l']), it(o))

    def attr(self, o, a):
        name = a['name']
        if isinstance(o, dict):
            return o[name]
        if isinstance(o, str):
            raise OOD()
        if not is_iterable(o):
            raise NoFunctionRegisteredException(name)
        return map(lambda x: o_member(x, name), it(o))

    def skip(self, o, a):
        return itertools.islice(it(o), a['n'], None)

    def take(self, o, a):
        return itertools.islice(it(o), a['n'])

    def append(self, o, a):
        return itertools.chain(it(o), a['vs'])

    def distinct(self, o, a):
        key = lam(a['l']) if a.get('l') else (lambda x: x)
        src = it(o)

        def gen():
            seen = set()
            for x in src:
                k = key(x)
                if k not in seen:
                    seen.add(k)
                    yield x
        return gen()

    def enumerate(self, o, a):
        start = a['n'] if a.get('n') is not None else 0
        return ([i, x] for i, x in zip(itertools.count(start), it(o)))

    def any(self, o, a):
        src = it(o)
        if a.get('l') is None:
            return any(True for _ in src)
        f = lam(a['l'])
        return any(f(x) for x in src)

    def all(self, o, a):
        f = lam(a['l']) if a.get('l') else bool
        return all(f(x) for x in it(o))

    def concat(self, o, a):
        return itertools.chain(it(o), *a['vss'])

    def len(self, o, a):
        if isinstance(o, str):
            raise OOD()
        if isinstance(o, Memo):
            return sum(1 for _ in limit_lazy(iter(o)))
        if isinstance(o, (tuple, list, frozenset, dict)):
            return len(o)
        if isinstance(o, View) and o.kind != 'values':
            return len(o.d)
        if is_iterator(o):
            return sum(1 for _ in limit_lazy(o))         # (the overload for iterators: declared Iterator())
        raise NoMatchingMethodException()

    def count(self, o, a):
        return sum(1 for _ in it(o, ordered=False))

    def memorize(self, o, a):
        if isinstance(o, str):
            raise OOD()
        if isinstance(o, (tuple, list, frozenset)) or isinstance(o, View) and o.kind != 'values':
            limit_sized(o if not isinstance(o, View) else o.d)
            return o
        if isinstance(o, dict) and CUR.id:
            limit_sized(o)
            return o                   # (a sized collection is handed back as it is - also a dictionary)
        return Memo(it(o))

    def _reduce(self, o, f, init):
        src = it(o)
        if init is NOVAL:
            return functools.reduce(f, src)
        return functools.reduce(f, src, init)

    def sum(self, o, a):
        return self._reduce(o, o_plus, a.get('v', NOVAL))

    def max(self, o, a):
        return self._reduce(o, o_max, a.get('v', NOVAL))

    def min(self, o, a):
        return self._reduce(o, o_min, a.get('v', NOVAL))

    def first(self, o, a):
        for x in it(o):
            return x
        if 'v' in a:
            return a['v']
        raise Stop()

    def single(self, o, a):
        src = it(o)
        got = list(itertools.islice(src, 2))
        if len(got) != 1:
            raise Stop()
        return got[0]

    def last(self, o, a):
        r = a.get('v', NOVAL)
        for x in it(o):
            r = x
        if r is NOVAL:
            raise Stop()
        return r

    def selectMany(self, o, a):
        f = lam(a['l'])
        src = it(o)

        def gen():
            for x in src:
                r = f(x)
                if isinstance(r, frozenset) and len(r) > 1:
                    raise OOD()
                if is_iterable(r):
                    yield from r
                else:
                    yield r
        return gen()

    def range1(self, o, a):
        return iter(range(a['n']))

    def range3(self, o, a):
        return iter(range(a['n'], a['m'], 1 if a.get('k') is None else a['k']))

    def sequenceTake(self, o, a):
        start = 0 if a.get('m') is None else a['m']
        step = 1 if a.get('k') is None else a['k']
        return itertools.islice(limit_lazy(itertools.count(start, step)), a['n'])      # (take's receiver passes the limiter)

    def orderBy(self, o, a):
        return Ordering(it(o), [(lam(a['l']), True)])

    def orderByDescending(self, o, a):
        return Ordering(it(o), [(lam(a['l']), False)])

    def thenBy(self, o, a):
        if not isinstance(o, Ordering):
            bad_receiver(o)
        return Ordering(o.src, o.fields + [(lam(a['l']), True)])

    def thenByDescending(self, o, a):
        if not isinstance(o, Ordering):
            bad_receiver(o)
        return Ordering(o.src, o.fields + [(lam(a['l']), False)])

    def groupBy(self, o, a):
        key = lam(a['l'])
        val = lam(a['l2']) if a.get('l2') else (lambda x: x)
        groups = {}
        for x in it(o):
            v = val(x)
            groups.setdefault(key(x), []).append(v)
        if not a.get('l3'):
            return iter([(k, vs) for k, vs in groups.items()])
        agg = lam(a['l3'])
        # documented (new style): the aggregator gets the list of values of a group.
        # legacy style (kept for compatibility, see GroupAggregator): if that fails with a
        # "no such function / index" error the aggregator gets the pair (key, values) and must
        # return a pair, as long as no earlier group contradicted the legacy reading.
        def gen():
            failure = None
            fallback = CUR.af          # (create_context(group_by_agg_fallback=..))
            for k, vs in groups.items():
                if failure is None:
                    try:
                        r = agg(vs)
                    except (NoMatchingMethodException, NoMatchingFunctionException, IndexError) as e:
                        failure = e
                    else:
                        if not (len(vs) == 2 and is_seq(r) and len(r) == 2 and r[0] == vs[0]):
                            fallback = False
                        yield (k, r)
                        continue
                if fallback:
                    try:
                        r = agg((k, vs))
                        if len(r) == 2:
                            yield r
                            continue
                    except OOD:
                        raise
                    except Exception:
                        pass
                raise failure
        return gen()

    def zip(self, o, a):
        return zip(it(o), *a['vss'])

    def zipLongest(self, o, a):
        return itertools.zip_longest(it(o), *a['vss'], fillvalue=a.get('v'))

    def join(self, o, a):
        pred, sel = lam2(a['f2']), lam2(a['g2'])
        other = a['vs']
        if is_iterator(other):
            # a lazy second collection is gone through once and remembered: every outer element
            # sees all of it, and nothing of it is produced before a row needs it
            other = Memo(other)
        return (sel(x, y) for x in it(o) for y in it(other) if pred(x, y))

    def repeatTake(self, o, a):
        if is_iterator(o) or isinstance(o, (Ordering, View, DSet)):
            raise OOD()
        times, n = a.get('m'), a.get('n')
        if times is None or times < 0:
            if n is None:
                raise OOD()
            return itertools.islice(limit_lazy(itertools.repeat(o)), n)
        r = itertools.repeat(o, times)
        return r if n is None else itertools.islice(limit_lazy(r), n)

    def cycleTake(self, o, a):
        return itertools.islice(limit_lazy(itertools.cycle(it(o))), a['n'])

    def takeWhile(self, o, a):
        return itertools.takewhile(lam(a['l']), it(o))

    def skipWhile(self, o, a):
        return itertools.dropwhile(lam(a['l']), it(o))

    def indexOf(self, o, a):
        for i, x in enumerate(it(o)):
            if x == a['v']:
                return i
        return -1

    def lastIndexOf(self, o, a):
        r = -1
        for i, x in enumerate(it(o)):
            if x == a['v']:
                r = i
        return r

    def indexWhere(self, o, a):
        f = lam(a['l'])
        for i, x in enumerate(it(o)):
            if f(x):
                return i
        return -1

    def lastIndexWhere(self, o, a):
        f = lam(a['l'])
        r = -1
        for i, x in enumerate(it(o)):
            if f(x):
                r = i
        return r

    def slice(self, o, a):
        src, n = it(o), a['n']

        def gen():
            while True:
                chunk = tuple(itertools.islice(src, n))
                if not chunk:
                    return
                yield chunk
        return gen()

    def splitWhere(self, o, a):
        f, src = lam(a['l']), it(o)

        def gen():
            xs = tuple(src)
            cur = []
            for x in xs:
                if f(x):
                    yield tuple(cur)
                    cur = []
                else:
                    cur.append(x)
            if cur:
                yield tuple(cur)
        return gen()

    def sliceWhere(self, o, a):
        f, src = lam(a['l']), it(o)

        def gen():
            xs = tuple(src)
            for _, run in itertools.groupby(xs, key=f):
                yield tuple(run)
        return gen()

    def splitAt(self, o, a):
        xs = tuple(it(o))
        return [xs[:a['n']], xs[a['n']:]]

    def aggregate(self, o, a):
        return self._reduce(o, lam2(a['f2']), a.get('v', NOVAL))

    def accumulate(self, o, a):
        f, src = lam2(a['f2']), it(o)

        def gen():
            if 'v' in a:
                yield from itertools.accumulate(itertools.chain([a['v']], src), f)
            else:
                first = True
                for x in itertools.accumulate(src, f):
                    first = False
                    yield x
                if first:
                    raise TypeError('accumulate() of empty sequence with no initial value')
        return gen()

    def reverse(self, o, a):
        return iter(tuple(it(o))[::-1])

    def mergeWith(self, o, a):
        if not isinstance(o, dict):
            bad_receiver(o)
        lm = lam2(a['f2']) if a.get('f2') else None
        im = lam2(a['g2']) if a.get('g2') else (lambda x, y: y)

        def list_merge(x, y):
            if lm:
                return lm(x, y)
            if not (isinstance(x, tuple) and isinstance(y, tuple)):
                raise OOD()
            out, seen = [], set()
            for t in x + y:
                if t not in seen:
                    seen.add(t)
                    out.append(t)
                    if CUR.lim is not None and len(out) > CUR.lim:
                        raise CollectionTooLargeException()     # (made through toList: the limiter of its parameter)
            return tuple(out)

        def merge(d1, d2, lvl):
            res = {}
            for k, v1 in d1.items():
                if k not in d2:
                    res[k] = v1
                    continue
                v2 = d2[k]
                if lvl != 1 and isinstance(v2, dict):
                    if not isinstance(v1, dict):
                        raise TypeError('Cannot merge')
                    res[k] = merge(v1, v2, 0 if lvl == 0 else lvl - 1)
                elif lvl != 1 and is_seq(v2):
                    if not is_seq(v1):
                        raise TypeError('Cannot merge')
                    res[k] = list_merge(v1, v2)
                else:
                    res[k] = im(v1, v2)
            for k, v2 in d2.items():
                if k not in res:
                    res[k] = v2
            return res
        return merge(o, a['kv'], a['n'])

    def isIterable(self, o, a):
        return is_iterable(o)

    def defaultIfEmpty(self, o, a):
        src = it(o, ordered=False)
        if isinstance(o, (tuple, list, frozenset)) or isinstance(o, View) and o.kind != 'values' \
                or isinstance(o, dict) and CUR.id:
            return a['vs'] if len(o if not isinstance(o, View) else o.d) == 0 else o
        if isinstance(o, Memo):
            src = iter(o)
        m = Memo(src)              # "collection = memorize(collection)": probed once, then handed on whole
        for _ in m:
            return m
        return a['vs']

    def generate(self, o, a):
        if is_iterator(o) or isinstance(o, (Ordering, View, DSet)):
            raise OOD()
        pred, prod = lam(a['l']), lam(a['l2'])
        sel = lam(a['l3']) if a.get('l3') else (lambda x: x)
        decycle, limit = a['b'], a['n']

        def gen():
            cur, past, n = o, set(), 0
            while pred(cur):
                n += 1
                if n > limit:
                    raise OOD()
                if decycle:
                    if cur in past:
                        return
                    past.add(cur)
                yield sel(cur)
                cur = prod(cur)
        return gen()

    def generateManyTake(self, o, a):
        if is_iterator(o) or isinstance(o, (Ordering, View, DSet)) or isinstance(o, dict) and not isinstance(o, FD):
            raise OOD()
        prod = lam(a['l'])
        sel = lam(a['l2']) if a.get('l2') else (lambda x: x)
        decycle, depth_first = a['b'], a['b2']

        def gen():
            # tree traversal: children of a node come from the producer; breadth first unless depthFirst
            queue, past, steps = [o], set(), 0
            while queue:
                steps += 1
                if steps > 400:
                    raise OOD()
                item = queue.pop(0)
                if decycle:
                    if item in past:
                        continue
                    past.add(item)
                yield sel(item)
                kids = prod(item)
                if isinstance(kids, frozenset) and len(kids) > 1:
                    raise OOD()
                if not is_iterable(kids):
                    raise TypeError('not iterable')
                # (what the producer returns passes the limiter)
                kids = list(limit_lazy(kids) if is_iterator(kids) else limit_sized(kids))
                queue = kids + queue if depth_first else queue + kids
        return itertools.islice(limit_lazy(gen()), a['n'])

    # ---- collections.py
    def list(self, o, a):
        if isinstance(o, (Ordering, View)):
            raise OOD()
        if is_iterator(o):
            return tuple(limit_lazy(iter(o) if isinstance(o, Memo) else o))     # (iterators among the arguments are spliced in, through the limiter)
        return (o,)

    def flatten(self, o, a):
        def rec(xs):
            for x in xs:
                if isinstance(x, DSet) and len(x) > 1:
                    raise OOD()         # (iteration order of a set built during evaluation)
                if isinstance(x, (tuple, list, frozenset)):
                    yield from rec(limit_sized(x))      # (every nested collection passes the limiter when it is reached)
                else:
                    yield x
        return rec(it(o))

    def toList(self, o, a):
        return tuple(it(o))

    def listLit(self, o, a):
        if is_iterator(o) or isinstance(o, (Ordering, View, DSet)):
            raise OOD()
        return (o,) + tuple(a['vs'])

    def dict(self, o, a):
        if isinstance(o, str):
            raise OOD()
        if not is_iterable_arg(o):
            raise NoMatchingFunctionException('dict')
        d = {}
        for t in it(o):
            if isinstance(t, (frozenset, dict)) or is_iterator(t):
                raise OOD()
            if not isinstance(t, (tuple, list, str)):
                raise TypeError('not iterable')
            if len(t) < 2:
                raise Stop()
            d[t[0]] = t[1]
        return FD(d)

    def toDict(self, o, a):
        kf = lam(a['l'])
        vf = lam(a['l2']) if a.get('l2') else (lambda x: x)
        d = {}
        for x in it(o):
            k = kf(x)
            d[k] = vf(x)
        return d

    def index(self, o, a):
        if isinstance(o, str):
            raise OOD()
        if is_seq(o) or isinstance(o, dict):
            return o_index(o, a['v'])
        raise NoMatchingFunctionException('#indexer')

    def indexDflt(self, o, a):
        if isinstance(o, str):
            raise OOD()
        if isinstance(o, dict):
            return o.get(a['v'], a['w'])
        raise NoMatchingFunctionException('#indexer')

    def get(self, o, a):
        if not isinstance(o, dict):
            bad_receiver(o)
        return o.get(a['v'], a.get('w'))

    def dictSet(self, o, a):
        if not isinstance(o, dict):
            bad_receiver(o)
        return FD(itertools.chain(o.items(), [(a['v'], a['w'])]))

    def dictSetMany(self, o, a):
        if not isinstance(o, dict):
            bad_receiver(o)
        return FD(itertools.chain(o.items(), a['kv'].items()))

    dictSetInline = dictSetMany

    def keys(self, o, a):
        if not isinstance(o, dict):
            bad_receiver(o)
        return View('keys', o)

    def values(self, o, a):
        if not isinstance(o, dict):
            bad_receiver(o)
        return View('values', o)

    def items(self, o, a):
        if not isinstance(o, dict):
            bad_receiver(o)
        return View('items', o)

    def _member(self, o, v):
        if isinstance(o, frozenset):
            limit_sized(o)
            return v in o
        if isinstance(o, dict) and CUR.id:
            limit_sized(o)
            return v in o
        if isinstance(o, View):
            if o.kind == 'keys':
                limit_sized(o.d)
                return v in o.d
            if o.kind == 'items':
                raise OOD()
        return any(x == v for x in it(o))

    def contains(self, o, a):
        if not is_iterable_arg(o):
            bad_receiver(o)
        return self._member(o, a['v'])

    def containsKey(self, o, a):
        if not isinstance(o, dict):
            bad_receiver(o)
        return a['v'] in o

    def containsValue(self, o, a):
        if not isinstance(o, dict):
            bad_receiver(o)
        return any(x == a['v'] for x in o.values())

    def plusRight(self, o, a):
        self._recv = o
        return self._plus(o, a['v'])

    def plusLeft(self, o, a):
        self._recv = o
        return self._plus(a['v'], o)

    def _plus(self, x, y):
        if isinstance(x, str) or isinstance(y, str):
            if isinstance(x, str) and isinstance(y, str):
                return x + y
            raise OOD()
        if is_num(x) and is_num(y):
            return x + y
        if isinstance(x, tuple) and isinstance(y, tuple):
            return limit_sized(x) + limit_sized(y)      # (the overload for two iterables: both pass the limiter)
        if isinstance(x, frozenset) and isinstance(y, frozenset):
            return DSet(limit_sized(x) | limit_sized(y))
        if isinstance(x, dict) and isinstance(y, dict):
            return FD(itertools.chain(x.items(), y.items()))
        if is_iterable_arg(x) and is_iterable_arg(y):
            for z in (x, y):        # a set literal is a set built during evaluation
                if isinstance(z, frozenset) and not isinstance(z, DSet) and z is not self._recv and len(z) > 1:
                    raise OOD()
            return itertools.chain(it(x), it(y))
        raise NoMatchingFunctionException('+')

    def timesInt(self, o, a):
        if isinstance(o, str):
            raise OOD()
        if is_seq(o) or is_num(o):
            return o * a['n']
        raise NoMatchingFunctionException('*')

    def isList(self, o, a):
        return is_seq(o)

    def isDict(self, o, a):
        return isinstance(o, dict)

    def isSet(self, o, a):
        return isinstance(o, frozenset) or isinstance(o, View) and o.kind != 'values'

    def delete(self, o, a):
        args = a['vs']
        if isinstance(o, dict):
            if CUR.id and len(args) in (1, 2) and all(isinstance(t, int) for t in args):
                raise AmbiguousMethodException()     # delete(position[, count]) of a collection fits as well
            for k in args:
                hash(k)
            return {k: v for k, v in o.items() if not any(k == t for t in args)}
        if is_iterable(o) and len(args) in (1, 2) and all(isinstance(t, int) for t in args):   # (bool is an int)
            pos = int(args[0])
            count = int(args[1]) if len(args) == 2 else 1
            hi = pos + count if count >= 0 else float('inf')
            return (x for i, x in enumerate(it(o)) if not pos <= i < hi)
        bad_receiver(o)

    def deleteAll(self, o, a):
        if not isinstance(o, dict):
            bad_receiver(o)
        for k in a['vs']:
            hash(k)
        return {k: v for k, v in o.items() if not any(k == t for t in a['vs'])}

    def _replace(self, o, pos, vals, count):
        hi = pos + count if count >= 0 else float('inf')
        src = it(o)

        def gen():
            done = False
            for i, x in enumerate(src):
                if pos <= i < hi:
                    if not done:
                        done = True
                        yield from vals
                else:
                    yield x
        return gen()

    def replace(self, o, a):
        return self._replace(o, a['n'], [a['v']], 1 if a.get('m') is None else a['m'])

    def replaceMany(self, o, a):
        return self._replace(o, a['n'], a['vs'], 1 if a.get('m') is None else a['m'])

    def insert(self, o, a):
        pos, v = a['n'], a['v']
        if is_seq(o):
            r = list(o)
            r.insert(pos, v)
            return r
        if isinstance(o, frozenset) or isinstance(o, View) and o.kind != 'values':
            raise NoMatchingMethodException()
        return self._insert_many(o, pos, [v], front_if_negative=False)

    def insertMany(self, o, a):
        return self._insert_many(o, a['n'], a['vs'], front_if_negative=True)

    def _insert_many(self, o, pos, vals, front_if_negative):
        src = it(o)

        def gen():
            # doc: "inserted at the given position ... in the end if position greater than
            # collection size"; negative positions: doc-silent, as implemented
            if pos < 0:
                if front_if_negative:
                    yield from vals
                yield from src
                return
            n = 0
            for x in src:
                if n == pos:
                    yield from vals
                n += 1
                yield x
            if pos >= n:
                yield from vals
        return gen()

    def set(self, o, a):
        if isinstance(o, (Ordering, View)):
            raise OOD()
        if is_iterator(o):
            return DSet(limit_lazy(iter(o) if isinstance(o, Memo) else o))
        return DSet([o])

    def toSet(self, o, a):
        return DSet(it(o, ordered=False))

    def _setop(self, o, a, f):
        if isinstance(o, View) and o.kind != 'values':
            raise AttributeError('union')
        if not isinstance(o, frozenset):
            bad_receiver(o)
        return DSet(f(frozenset(o), frozenset(a['vs'])))

    def union(self, o, a):
        return self._setop(o, a, lambda x, y: x | y)

    def intersect(self, o, a):
        return self._setop(o, a, lambda x, y: x & y)

    def difference(self, o, a):
        return self._setop(o, a, lambda x, y: x - y)

    def minus(self, o, a):
        if isinstance(o, View) and o.kind != 'values':
            raise AttributeError('difference')
        if not isinstance(o, frozenset):
            raise NoMatchingFunctionException('-')
        return DSet(frozenset(o) - frozenset(a['vs']))

    def symmetricDifference(self, o, a):
        return self._setop(o, a, lambda x, y: x ^ y)

    add = union
    remove = difference

    def setCmp(self, o, a):
        if isinstance(o, View) and o.kind == 'items':
            raise OOD()      # membership tests in an items view unpack the candidate
        if isinstance(o, View) and o.kind != 'values':
            s = frozenset(o.elems())
        elif isinstance(o, frozenset):
            s = frozenset(o)
        elif o is None or is_int(o) or isinstance(o, str):
            raise OOD()
        else:
            raise NoMatchingFunctionException('<')
        t = frozenset(a['vs'])
        return [s < t, s <= t, s > t, s >= t][min(a['n'], 3)]

    def unpack(self, o, a):
        names, k = a['names'], a['n']
        src = it(o)
        if names:
            got = list(itertools.islice(src, len(names) + 1))
            if len(got) != len(names):
                raise ValueError('Cannot unpack')
            env = dict(zip(names, got))
            return tuple(env.get(n) for n in names)
        env = {str(i): x for i, x in enumerate(src, 1)}
        if k >= 1 and '1' not in env:
            raise OOD()         # an unbound $1 is the expression's own `$`
        return tuple(env.get(str(i + 1)) for i in range(k))

    # ---- a second consumer of the expression's own `$`
    root = None

    def _root(self):
        if CUR.lim is not None:
            raise OOD()           # (a second consumer of `$` under yaql.limitIterators: not followed)
        r = self.root
        if isinstance(r, Memo) or isinstance(r, (tuple, list)) or isinstance(r, frozenset) and not isinstance(r, DSet):
            return r
        raise OOD()               # a bare one-shot iterator shared by two consumers: no documented result

    def zipRoot(self, o, a):
        r = self._root()
        first = it(o)
        others = [itertools.islice(it(r), n, None) for n in a['ns']]
        return zip(first, *others)

    def joinRoot(self, o, a):
        r = self._root()
        pred, sel = lam2(a['f2']), lam2(a['g2'])
        return (sel(x, y) for x in it(o) for y in it(r) if pred(x, y))

    def concatRoot(self, o, a):
        r = self._root()
        return itertools.chain(it(o), itertools.islice(it(r), a['n'], None))

    def partialThenFull(self, o, a):
        r = self._root()
        head = tuple(itertools.islice(it(r), a['n']))
        return (head, tuple(it(r)), sum(1 for _ in it(r)))

    def __getattr__(self, name):        # 'in' is a keyword
        if name == 'in_':
            def f(o, a):
                if isinstance(o, str):
                    raise OOD()
                if not is_iterable_arg(o):
                    raise NoMatchingFunctionException('in')
                return self._member(o, a['v'])
            return f
        raise AttributeError(name)


REF = Ref()


# Operations that hand the elements of their receiver on, each at most once, without hashing or comparing them and
# without showing them to a lambda that looks inside.  When a selector of an earlier stage returned generators
# (`select($.where(..))`), these leave them unconsumed - the finaliser consumes each exactly once.  Anything else on
# such a receiver (hashing a generator, comparing it, handing it out twice) has no documented meaning.
LINEAR = frozenset(
    'where select selectMany takeWhile skipWhile indexWhere lastIndexWhere any all splitWhere toDict orderBy '
    'orderByDescending thenBy thenByDescending skip take append enumerate concat len count first single last zip zipLongest '
    'slice splitAt reverse toList listLit insert insertMany replace replaceMany delete deleteAll isIterable isList isDict '
    'isSet unpack defaultIfEmpty memorize keys values items index indexDflt get dictSet dictSetMany dictSetInline attr '
    'containsKey'.split())


def no_lazies(o):
    """the receiver of an operation that is not LINEAR: out of domain as soon as it delivers a generator"""
    if is_iterator(o):
        def gen():
            for x in (iter(o) if isinstance(o, Memo) else o):
                if has_lazy(x):
                    raise OOD()
                yield x
        return gen()
    if isinstance(o, Ordering):
        return Ordering(no_lazies(o.src), o.fields)
    if isinstance(o, View):
        if has_lazy(o.d):
            raise OOD()
    elif has_lazy(o):
        raise OOD()
    return o


def coll_args(op):
    """the collections among the arguments (parameters declared Iterable())"""
    name = op['op']
    if name in ('concat', 'zip', 'zipLongest'):
        return list(op['vss'])
    if name in ('join', 'defaultIfEmpty', 'deleteAll', 'insertMany', 'replaceMany'):
        return [op['vs']]
    return []


def data_root():
    return REF.root


def apply_op(o, op):
    """one stage applied to a run-time object.  The arguments are converted - collections pass the limiter - once an
    overload has accepted the receiver, before the function runs."""
    name = op['op']
    if CUR.ns:
        # a context made with create_context(no_sets=True) has no set functions: `set(..)` / `isSet(..)` are unknown
        # functions (so is a set literal among the arguments of - < +), toSet / union / ... unknown methods, and `len`
        # has no overload for a set
        if name in ('set', 'isSet', 'minus', 'setCmp') or name in ('plusRight', 'plusLeft') and isinstance(op['v'], frozenset):
            raise NoFunctionRegisteredException(name)
        if name in ('toSet', 'union', 'intersect', 'difference', 'symmetricDifference', 'add', 'remove'):
            raise NoMethodRegisteredException(name)
        if name == 'len' and (isinstance(o, frozenset) or isinstance(o, View) and o.kind != 'values'):
            raise NoMatchingMethodException(name)
        if name in ('partialThenFull', 'zipRoot', 'joinRoot', 'concatRoot') and isinstance(data_root(), frozenset):
            raise OOD()
    if name not in LINEAR:
        o = no_lazies(o)
    over = CUR.lim is not None and any(len(xs) > CUR.lim for xs in coll_args(op))
    try:
        r = getattr(REF, 'in_' if name == 'in' else name)(o, op)
    except (OOD, NoMatchingMethodException, NoMatchingFunctionException, NoFunctionRegisteredException,
            NoMethodRegisteredException, AmbiguousMethodException):
        raise
    except Exception:
        if over:
            raise CollectionTooLargeException()
        raise
    if over:
        raise CollectionTooLargeException()
    return r


def convert_input(v):
    """utils.convert_input_data as documented: sequences become (immutable) tuples, mappings frozen dictionaries, sets
    frozen sets, the members of an iterator are converted as they are pulled"""
    if isinstance(v, (tuple, list)):
        return tuple(convert_input(x) for x in v)
    if isinstance(v, dict):
        return FD((convert_input(k), convert_input(x)) for k, x in v.items())
    if isinstance(v, (set, frozenset)):
        return frozenset(convert_input(x) for x in v)
    if is_iterator(v):
        return map(convert_input, v)
    return v


def run_lazy(data, ops, binder=None, opts=None):
    """as run_ref, but the result is handed out as it is (a lazy iterator stays unconsumed).  `data` is the document in
    the form `$` is bound to (see bind_input)"""
    global CUR
    CUR = opts or Opts()
    o = data
    if binder is not None:
        o = apply_op(o, binder)         # (the binder of `let(..) -> ..` is evaluated before the body)
    if CUR.ns and any(op['op'] in ('set', 'isSet') or op['op'] == 'plusLeft' and isinstance(op['v'], frozenset) for op in ops):
        # written in function style: the (unknown) function is looked up before its argument - the stages in front of it -
        # is evaluated
        raise NoFunctionRegisteredException('set')
    REF.root = o
    for op in ops:
        o = apply_op(o, op)
    return o


def run_ref(data, ops, binder=None, opts=None):
    """data: runtime value (tuple / FD / frozenset / iterator; lists / plain dicts / sets when the engine does not
    convert its input); returns the finalised result.
    binder: the op of `let(binder($)) -> ...` that rebinds `$` (memorize / defaultIfEmpty)"""
    return finalise(run_lazy(data, ops, binder, opts))


# ---- programs that look at the operand of a persistent update again (Obs of Model/SeqRun.lean)

def rereadable(o):
    """can a variable bound to it be read several times?  (a one-shot iterator cannot, and a generator inside a
    collection is consumed by whoever reads it first)"""
    if isinstance(o, Memo):
        return True
    if is_iterator(o) or isinstance(o, Ordering):
        return False
    if isinstance(o, View):
        return not has_lazy(o.d)
    if isinstance(o, frozenset):
        return not any(has_lazy(x) for x in o)
    return not has_lazy(o)


def upd_elem(u, x):
    if has_lazy(x):
        raise OOD()
    return apply_op(x, u)


def run_obs(data, ops, binder, obs, opts=None):
    """the finalised result of an observing program around the pipeline's result `x`:
      letPair   [x.u, x]          letTwice  [x.u, x.u2, x]          letChain  y = x.u; [y.u2, y, x]
      selPair   x.select([$.u, $])          memPair   m = x.memorize(); [m.select($.u).toList(), m.toList()]
    An update is a function of its operand: the operand is the same afterwards."""
    o = run_lazy(data, ops, binder, opts)
    shape, u, u2 = obs['shape'], obs['u'], obs.get('u2')
    if shape == 'selPair':
        return finalise(map(lambda x: (upd_elem(u, x), x), it(o)))
    if shape == 'memPair':
        m = apply_op(o, {'op': 'memorize'})
        first = tuple(map(lambda x: upd_elem(u, x), it(m)))
        return finalise_parts([first, tuple(it(m))])
    if not rereadable(o):
        raise OOD()
    if shape == 'letPair':
        return finalise_parts([apply_op(o, u), o])
    if shape == 'letTwice':
        a = apply_op(o, u)
        b = apply_op(o, u2)
        return finalise_parts([a, b, o])
    if shape == 'letChain':
        y = apply_op(o, u)
        if not rereadable(y):
            raise OOD()
        return finalise_parts([apply_op(y, u2), y, o])
    raise ValueError(shape)


def finalise_parts(parts):
    """a list literal of run-time objects (a tuple), finalised"""
    if not CUR.co:
        return tuple(raw_out(p) for p in parts)
    limit_sized(parts)
    r = [finalise(p) for p in parts]
    return r if CUR.tl else tuple(r)


def raw_out(o, key=False):
    try:
        return _raw_out(o, key)
    except Stop:
        raise WrappedException()


def _raw_out(o, key=False):
    """yaql.convertOutputData off: evaluate() hands the run-time object out as it is - a tuple, a list, a frozen set (FSet;
    so are the keys / items views), a dictionary, or something lazy, which the host consumes (FIter: what it gets; an
    exception raised while it does is the outcome).  No limiter is put around the result."""
    if isinstance(o, dict):
        return FDict((_raw_out(k), _raw_out(v)) for k, v in o.items())
    if isinstance(o, frozenset):
        return FSet(_raw_out(x) for x in o)
    if isinstance(o, View):
        if o.kind == 'values':
            return FIter(_raw_out(x) for x in o.elems())
        return FSet(_raw_out(x) for x in o.elems())
    if isinstance(o, tuple):
        return tuple(_raw_out(x, key) for x in o)
    if isinstance(o, list):
        return [_raw_out(x) for x in o]
    if isinstance(o, Memo):
        return FIter(_raw_out(x) for x in iter(o))
    if isinstance(o, Ordering):
        return FIter(_raw_out(x) for x in sort_lazily(o))
    if is_iterator(o):
        return FIter(_raw_out(x) for x in o)
    return o


def out_hashable(f):
    if isinstance(f, (list, dict)):        # (FSet is a list)
        return False
    if isinstance(f, tuple):
        return all(out_hashable(x) for x in f)
    return True


def finalise(o):
    """as evaluate() hands results out under the engine's options: tuples become lists unless convertTuplesToLists is off
    (a mutable list is a list anyway), sets become lists with convertSetsToLists and sets otherwise (FSet marks one:
    its members must be hashable then), iterators become lists, a dict's value is converted before its key and the
    converted key must be hashable; every level passes the limiter first"""
    if not CUR.co:
        return raw_out(o)
    if isinstance(o, dict):
        limit_sized(o)
        r = {}
        for k, v in o.items():
            fv = finalise(v)
            fk = finalise(k)            # (the key is converted as well - after the value: a generator among the keys is consumed)
            if not out_hashable(fk):
                raise TypeError('unhashable')       # ... and a key that became a list cannot be a key
            r[fk] = fv
        return r
    if isinstance(o, frozenset):
        limit_sized(o)
        # the members are converted (and, for a set, hashed) one by one in the set's iteration order: when they fail in
        # different ways there is no documented result
        r, errs = FSet(), set()
        for x in o:
            try:
                fx = finalise(x)
                if not CUR.sl and not out_hashable(fx):
                    raise TypeError('unhashable')
                r.append(fx)
            except OOD:
                raise
            except Exception as e:
                errs.add(type(e).__name__)
                err = e
        if len(errs) > 1:
            raise OOD()
        if errs:
            raise err
        return r
    if isinstance(o, View):
        # documented: {"a" => 1, "b" => 2}.keys() -> ["a", "b"], .values() -> [1, 2], .items() -> [["a", 1], ["b", 2]]
        if o.kind == 'values':
            return [finalise(x) for x in limit_lazy(iter(o.elems()))]
        return [finalise(x) for x in limit_sized(o.elems())]
    if isinstance(o, tuple):
        limit_sized(o)
        r = [finalise(x) for x in o]
        return r if CUR.tl else tuple(r)
    if isinstance(o, list):
        limit_sized(o)
        return [finalise(x) for x in o]
    if isinstance(o, Ordering) or is_iterator(o):
        return [finalise(x) for x in it(o)]
    return o


# ------------------------------------------------------------------ rendering as yaql text

_QUOTE = [0]         # string literals of one expression alternate between 'a' and "a" (the same value)


def lit(v):
    if v is None:
        return 'null'
    if v is True:
        return 'true'
    if v is False:
        return 'false'
    if isinstance(v, int):
        return str(v) if v >= 0 else '(%d)' % v
    if isinstance(v, float):
        return repr(v) if v >= 0 and repr(v)[0] != '-' else '(%r)' % v
    if isinstance(v, str):
        _QUOTE[0] += 1
        if _QUOTE[0] % 2 == 0 and '"' not in v and '\\' not in v:
            return '"' + v + '"'            # the other spelling of the same string
        return "'" + v.replace('\\', '\\\\').replace("'", "\\'") + "'"
    if isinstance(v, (tuple, list)):
        return '[' + ', '.join(lit(x) for x in v) + ']'
    if isinstance(v, dict):
        return '{' + ', '.join('%s => %s' % (lit(k), lit(x)) for k, x in v.items()) + '}'
    if isinstance(v, (set, frozenset)):
        return 'set(' + ', '.join(lit(x) for x in v) + ')'
    raise ValueError(v)


WRAP = '%s'          # C14: 'tick() and (%s)' makes every application observable


def rlw(l):
    return WRAP % rl(l)


def rl2w(l):
    return WRAP % rl2(l)


def rl(l, var='$'):
    t = l[0]
    if t == 'arg':
        return var
    if t == 'const':
        return lit(l[1])
    if t == 'not':
        return 'not (%s)' % rl(l[1], var)
    if t == 'pair':
        return '[%s, %s]' % (rl(l[1], var), rl(l[2], var))
    a = rl(l[1], var)
    if t == 'range':
        return 'range(%s)' % a
    if t == 'str':
        return 'str(%s)' % a
    if l[1][0] not in ('arg', 'member', 'index', 'len', 'first', 'last', 'single', 'sum', 'where', 'select', 'take',
                       'range', 'str'):
        a = '(' + a + ')'
    if t in ('len', 'single', 'sum'):
        return '%s.%s()' % (a, t)
    if t in ('first', 'last'):
        return '%s.%s(%s)' % (a, t, lit(l[2][0]) if l[2] else '')
    if t in ('where', 'select'):
        return '%s.%s(%s)' % (a, t, rl(l[2], '$'))
    if t == 'take':
        return '%s.take(%s)' % (a, lit(l[2]))
    if t == 'half':
        return '%s / 2' % a
    k = l[2]
    if t == 'add':
        return '%s + %s' % (a, lit(k))
    if t == 'mul':
        return '%s * %s' % (a, lit(k))
    if t == 'mod':
        return '%s mod %s' % (a, lit(k))
    if t == 'gt':
        return '%s > %s' % (a, lit(k))
    if t == 'eq':
        return '%s = %s' % (a, lit(k))
    if t == 'member':
        return '%s.%s' % (a, k)
    if t == 'index':
        return '%s[%s]' % (a, lit(k))
    raise ValueError(l)


def rl2(l):
    t = l[0]
    if t == 'plusOn':
        return '$1 + (%s)' % rl(l[1], '$2')
    return {'fst': '$1', 'snd': '$2', 'plus': '$1 + $2', 'gt': '$1 > $2', 'eq': '$1 = $2',
            'pair': '[$1, $2]', 'max': 'max($1, $2)'}.get(t) or (
        lit(l[1]) if t == 'const' else rl(l[1], '$1' if t == 'on1' else '$2'))


def args(*parts):
    return ', '.join(p for p in parts if p is not None)


def opt(a, k, f=lit):
    return f(a[k]) if a.get(k) is not None else None


def optv(a, k):
    return lit(a[k]) if k in a else None


def render_op(r, a):
    """yaql text of op `a` applied to the receiver text `r`"""
    n = a['op']
    m = lambda name, *ps: '%s.%s(%s)' % (r, a.get('alias') if name == n and a.get('alias') else name, args(*ps))
    if n in ('where', 'select', 'selectMany', 'takeWhile', 'skipWhile', 'indexWhere', 'lastIndexWhere',
             'splitWhere', 'sliceWhere', 'orderBy', 'orderByDescending', 'thenBy', 'thenByDescending'):
        return m(n, rlw(a['l']))
    if n == 'attr':
        return '%s.%s' % (r, a['name'])
    if n in ('skip', 'take', 'slice', 'splitAt'):
        return m(n, lit(a['n']))
    if n == 'append':
        return m(n, *[lit(v) for v in a['vs']])
    if n in ('distinct', 'any', 'all'):
        return m(n, opt(a, 'l', rlw))
    if n == 'enumerate':
        return m(n, opt(a, 'n'))
    if n in ('concat', 'zip'):
        return m(n, *[lit(v) for v in a['vss']])
    if n == 'zipLongest':
        return m(n, *([lit(v) for v in a['vss']] + (['default => ' + lit(a['v'])] if 'v' in a else [])))
    if n in ('len', 'count', 'memorize', 'single', 'reverse', 'flatten', 'toList', 'keys', 'values', 'items', 'toSet'):
        return m(n)
    if n in ('sum', 'max', 'min', 'first', 'last'):
        return m(n, optv(a, 'v'))
    if n == 'range1':
        return 'range(%s)' % lit(a['n'])
    if n == 'range3':
        return 'range(%s)' % args(lit(a['n']), lit(a['m']), opt(a, 'k'))
    if n == 'sequenceTake':
        return 'sequence(%s).take(%s)' % (args(opt(a, 'm') or ('0' if a.get('k') is not None else None), opt(a, 'k')), lit(a['n']))
    if n == 'groupBy':
        ps = [rlw(a['l'])]
        if a.get('l2'):
            ps.append(rlw(a['l2']))
        if a.get('l3'):
            ps.append(rlw(a['l3']) if a.get('l2') else 'aggregator => ' + rlw(a['l3']))
        return m(n, *ps)
    if n == 'join':
        return m(n, lit(a['vs']), rl2w(a['f2']), rl2w(a['g2']))
    if n == 'repeatTake':
        s = m('repeat', opt(a, 'm'))
        return s if a.get('n') is None else '%s.take(%s)' % (s, lit(a['n']))
    if n == 'cycleTake':
        return '%s.cycle().take(%s)' % (r, lit(a['n']))
    if n in ('indexOf', 'lastIndexOf', 'contains', 'containsKey', 'containsValue'):
        return m(n, lit(a['v']))
    if n in ('aggregate', 'accumulate'):
        return m(n, rl2w(a['f2']), optv(a, 'v'))
    if n == 'mergeWith':
        ps = [lit(a['kv'])]
        if a.get('f2'):
            ps.append(rl2w(a['f2']))
        if a.get('g2'):
            ps.append(rl2w(a['g2']) if a.get('f2') else 'itemMerger => ' + rl2w(a['g2']))
        if a['n']:
            ps.append('maxLevels => %d' % a['n'])
        return m(n, *ps)
    if n == 'isIterable':
        return 'isIterable(%s)' % r
    if n == 'defaultIfEmpty':
        return m(n, lit(a['vs']))
    if n == 'generate':
        return 'generate(%s)' % args(r, rlw(a['l']), rlw(a['l2']), rlw(a['l3']) if a.get('l3') else None,
                                     'decycle => true' if a['b'] else None)
    if n == 'generateManyTake':
        return 'generateMany(%s).take(%s)' % (args(r, rlw(a['l']), rlw(a['l2']) if a.get('l2') else None,
                                                    'decycle => true' if a['b'] else None,
                                                    'depthFirst => true' if a['b2'] else None), lit(a['n']))
    if n == 'list':
        return 'list(%s)' % r
    if n == 'listLit':
        return '[%s]' % args(r, *[lit(v) for v in a['vs']])
    if n == 'dict':
        return 'dict(%s)' % r
    if n == 'toDict':
        return m(n, rlw(a['l']), opt(a, 'l2', rlw))
    if n == 'index':
        return '%s[%s]' % (r, lit(a['v']))
    if n == 'indexDflt':
        return '%s[%s, %s]' % (r, lit(a['v']), lit(a['w']))
    if n == 'get':
        return m('get', lit(a['v']), optv(a, 'w'))
    if n == 'dictSet':
        return m('set', lit(a['v']), lit(a['w']))
    if n == 'dictSetMany':
        return m('set', lit(a['kv']))
    if n == 'dictSetInline':
        return m('set', *['%s => %s' % (lit(k), lit(v)) for k, v in a['kv'].items()])
    if n == 'in':
        return '(%s in %s)' % (lit(a['v']), r)
    if n == 'plusRight':
        return '(%s + %s)' % (r, lit(a['v']))
    if n == 'plusLeft':
        return '(%s + %s)' % (lit(a['v']), r)
    if n == 'timesInt':
        return '(%s * %s)' % ((lit(a['n']), r) if a.get('alias') == 'intByList' else (r, lit(a['n'])))
    if n in ('isList', 'isDict', 'isSet'):
        return '%s(%s)' % (n, r)
    if n == 'delete':
        return m(n, *[lit(v) for v in a['vs']])
    if n == 'deleteAll':
        return m(n, lit(a['vs']))
    if n == 'replace':
        return m(n, lit(a['n']), lit(a['v']), opt(a, 'm'))
    if n == 'replaceMany':
        return m(n, lit(a['n']), lit(a['vs']), opt(a, 'm'))
    if n == 'insert':
        return m(n, lit(a['n']), lit(a['v']))
    if n == 'insertMany':
        return m(n, lit(a['n']), lit(a['vs']))
    if n == 'set':
        return 'set(%s)' % r
    if n in ('union', 'intersect', 'difference', 'symmetricDifference'):
        return m(n, lit(frozenset(a['vs'])))
    if n == 'minus':
        return '(%s - %s)' % (r, lit(frozenset(a['vs'])))
    if n in ('add', 'remove'):
        return m(n, *[lit(v) for v in a['vs']])
    if n == 'setCmp':
        return '(%s %s %s)' % (r, ['<', '<=', '>', '>='][min(a['n'], 3)], lit(frozenset(a['vs'])))
    if n == 'zipRoot':
        return m('zip', *['$.skip(%s)' % lit(k) for k in a['ns']])
    if n == 'joinRoot':
        return m('join', '$', rl2w(a['f2']), rl2w(a['g2']))
    if n == 'concatRoot':
        return m('concat', '$.skip(%s)' % lit(a['n']))
    if n == 'partialThenFull':
        return '[$.take(%s).toList(), $.toList(), $.len()]' % lit(a['n'])
    if n == 'unpack':
        if a['names']:
            return '(%s.unpack(%s) -> [%s])' % (r, ', '.join(a['names']), ', '.join('$' + x for x in a['names']))
        return '(%s.unpack() -> [%s])' % (r, ', '.join('$%d' % (i + 1) for i in range(a['n'])))
    raise ValueError(n)


def render(ops, binder=None, root='$'):
    _QUOTE[0] = 0
    r = root
    for a in ops:
        r = render_op(r, a)
    if binder is not None:
        return 'let(%s) -> %s' % (render_op('$', binder), r)
    return r


def render_obs(ops, binder, obs):
    """the observing program around the pipeline P = render(ops)"""
    _QUOTE[0] = 0
    r = '$'
    for a in ops:
        r = render_op(r, a)
    shape, u, u2 = obs['shape'], obs['u'], obs.get('u2')
    if shape == 'letPair':
        body = 'let(x => %s) -> [%s, $x]' % (r, render_op('$x', u))
    elif shape == 'letTwice':
        body = 'let(x => %s) -> [%s, %s, $x]' % (r, render_op('$x', u), render_op('$x', u2))
    elif shape == 'letChain':
        body = 'let(x => %s) -> let(y => %s) -> [%s, $y, $x]' % (r, render_op('$x', u), render_op('$y', u2))
    elif shape == 'selPair':
        body = '%s.select([%s, $])' % (r, render_op('$', u))
    elif shape == 'memPair':
        body = 'let(m => %s.memorize()) -> [$m.select(%s).toList(), $m.toList()]' % (r, render_op('$', u))
    else:
        raise ValueError(shape)
    if binder is not None:
        return 'let(%s) -> %s' % (render_op('$', binder), body)
    return body


def obs_json(obs, enc):
    j = {'shape': obs['shape'], 'u': op_json(obs['u'], enc)}
    if obs.get('u2') is not None:
        j['u2'] = op_json(obs['u2'], enc)
    return j


# ------------------------------------------------------------------ JSON for the Lean driver

def lam_json(l, enc):
    t = l[0]
    if t == 'arg':
        return ['arg']
    if t == 'const':
        return ['const', enc(l[1])]
    if t == 'not':
        return ['not', lam_json(l[1], enc)]
    if t == 'pair':
        return ['pair', lam_json(l[1], enc), lam_json(l[2], enc)]
    if t == 'eq':
        return ['eq', lam_json(l[1], enc), enc(l[2])]
    if t in ('len', 'single', 'sum', 'range', 'str', 'half'):
        return [t, lam_json(l[1], enc)]
    if t in ('first', 'last'):
        return [t, lam_json(l[1], enc), [enc(v) for v in l[2]]]
    if t in ('where', 'select'):
        return [t, lam_json(l[1], enc), lam_json(l[2], enc)]
    return [t, lam_json(l[1], enc), l[2]]


def lam2_json(l, enc):
    t = l[0]
    if t == 'const':
        return ['const', enc(l[1])]
    if t in ('on1', 'on2', 'plusOn'):
        return [t, lam_json(l[1], enc)]
    return [t]


def op_json(a, enc):
    j = {'op': a['op']}
    for k, v in a.items():
        if k == 'op':
            continue
        if k in ('l', 'l2', 'l3'):
            j[k] = None if v is None else lam_json(v, enc)
        elif k in ('f2', 'g2'):
            j[k] = None if v is None else lam2_json(v, enc)
        elif k in ('n', 'm', 'k', 'b', 'b2', 'name', 'names', 'alias', 'ns'):
            j[k] = v
        elif k in ('v', 'w'):
            j[k] = enc(v)
        elif k == 'vs':
            j[k] = [enc(x) for x in v]
        elif k == 'vss':
            j[k] = [[enc(x) for x in xs] for xs in v]
        elif k == 'kv':
            j[k] = enc(v)
        else:
            raise ValueError(k)
    return j
