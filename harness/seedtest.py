"""Runs checks against seeded changes without touching /repo.

usage: seedtest.py [--confirm] [--tier quick] <dir-with-patch.diff> [<check id> ...]
  For the patch in <dir> (patch.diff, demo.py, meta.json): creates a scratch worktree of /repo
  under /tmp, applies the patch, optionally (--confirm) runs yaql's test suite and the demo on
  the patched and the pristine tree, then runs the given checks (default: meta.json's property)
  with YAQL_REPO pointing at the scratch tree, and prints one result line per check.
  The scratch worktree is removed afterwards."""
import json
import os
import subprocess
import sys
import tempfile

ROOT = os.path.dirname(os.path.dirname(os.path.abspath(__file__)))
PY = '/venv/bin/python'


def sh(cmd, **kw):
    return subprocess.run(cmd, stdout=subprocess.PIPE, stderr=subprocess.STDOUT, text=True, **kw)


def main():
    args = sys.argv[1:]
    confirm = '--confirm' in args
    if confirm:
        args.remove('--confirm')
    tier = 'quick'
    if '--tier' in args:
        i = args.index('--tier')
        tier = args[i + 1]
        del args[i:i + 2]
    d = os.path.abspath(args[0])
    meta = json.load(open(os.path.join(d, 'meta.json')))
    checks = args[1:] or [meta['property']]
    wt = tempfile.mkdtemp(prefix='seedwt-', dir='/tmp')
    os.rmdir(wt)
    out = dict(dir=d, checks={})
    try:
        r = sh(['git', '-C', '/repo', 'worktree', 'add', '--detach', wt, 'HEAD'])
        assert r.returncode == 0, r.stdout
        env = dict(os.environ, PYTHONPATH=wt)
        if confirm:
            r = sh([PY, '-W', 'ignore', os.path.join(d, 'demo.py')], env=env, cwd='/tmp', timeout=600)
            out['demo_pristine_rc'] = r.returncode
        r = sh(['git', '-C', wt, 'apply', os.path.join(d, 'patch.diff')])
        assert r.returncode == 0, 'patch does not apply: ' + r.stdout
        if confirm:
            r = sh([PY, '-m', 'pytest', '-q', '-p', 'no:cacheprovider', '--timeout=900', 'yaql/tests'], env=env, cwd=wt, timeout=1800)
            out['tests'] = r.stdout.strip().splitlines()[-1]
            r = sh([PY, '-W', 'ignore', os.path.join(d, 'demo.py')], env=env, cwd='/tmp', timeout=600)
            out['demo_patched_rc'] = r.returncode
            out['demo_patched_out'] = r.stdout[-600:]
        for c in checks:
            e = dict(os.environ, YAQL_REPO=wt, VERIF_SEED=os.environ.get('VERIF_SEED', '0'))
            r = sh([os.path.join(ROOT, 'check'), c, '--tier', tier], env=e, cwd=ROOT, timeout=3600)
            lines = [ln for ln in r.stdout.splitlines() if ln.startswith(('VIOLATION', 'KNOWN-FINDING', 'HARNESS-ERROR', c))]
            out['checks'][c] = dict(rc=r.returncode, lines=lines[-4:])
            for ln in lines:
                if ln.startswith('VIOLATION') and 'replay=' in ln:
                    path = ln.split('replay=')[1].split()[0]
                    try:
                        rp = json.load(open(path))
                        out['checks'][c]['what'] = str(rp.get('what') or rp.get('no_longer_checks'))[:400]
                    except Exception:
                        pass
    finally:
        sh(['git', '-C', '/repo', 'worktree', 'remove', '--force', wt])
    print(json.dumps(out, indent=1))


if __name__ == '__main__':
    main()
