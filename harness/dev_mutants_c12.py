"""Development aid: applies each C12 mutant to a scratch worktree of /repo, runs yaql's tests and `./check C12`.
usage: dev_mutants_c12.py [--notests] [name ...]"""
import os
import subprocess
import sys

WT = '/tmp/wr-c12'
ROOT = os.path.dirname(os.path.dirname(os.path.abspath(__file__)))
SP = 'yaql/language/specs.py'
CV = 'yaql/language/conventions.py'
UT = 'yaql/language/utils.py'
SY = 'yaql/standard_library/system.py'
MUTANTS = {
    # a convention object memoises translated names in a dict shared by all instances (and all conventions)
    'N1-convention-shared-cache': [
        (CV, "class Convention(metaclass=abc.ABCMeta):\n", "class Convention(metaclass=abc.ABCMeta):\n    _names = {}\n\n"),
        (CV, "class PythonConvention(Convention):\n    def convert_function_name(self, name):\n        return name\n\n"
             "    def convert_parameter_name(self, name):\n        return name\n",
             "class PythonConvention(Convention):\n    def convert_function_name(self, name):\n        return name\n\n"
             "    def convert_parameter_name(self, name):\n        return self._names.setdefault(name, name)\n"),
        (CV, "    def convert_parameter_name(self, name):\n        return self._to_camel_case(name)\n",
             "    def convert_parameter_name(self, name):\n        if name not in self._names:\n"
             "            self._names[name] = self._to_camel_case(name)\n        return self._names[name]\n")],
    # the alias is computed once, when the decorator runs (camelCase, the default convention)
    'N2-alias-at-decoration-time': [
        (SP, "        fd = _get_function_definition(func)\n        fd.set_parameter(name, value_type, nullable, alias)\n",
             "        fd = _get_function_definition(func)\n        al = alias\n        if al is None and not isinstance(\n"
             "                value_type, yaqltypes.HiddenParameterType):\n"
             "            al = re.sub(r'(?!^)_(\\w)', lambda m: m.group(1).upper(),\n"
             "                        name.rstrip('_'))\n"
             "        fd.set_parameter(name, value_type, nullable, al)\n"),
        (SP, "import inspect\n", "import inspect\nimport re\n")],
    # kwargs of call() filtered with str.isidentifier instead of is_keyword
    'N3-filter-isidentifier': [
        (UT, "        if not is_keyword(name):\n            del parameters[name]", "        if not name.isidentifier():\n            del parameters[name]")],
    # ... or with a predicate that also drops names with a leading underscore
    'N4-filter-leading-underscore': [
        (UT, "        if not is_keyword(name):\n            del parameters[name]",
             "        if name.startswith('_') or not is_keyword(name):\n            del parameters[name]")],
    # call() hands kwargs over unfiltered
    'N5-call-unfiltered': [
        (SY, "        *args, **utils.filter_parameters_dict(kwargs))", "        *args, **dict(kwargs))")],
    # get_function_definition memoised per (function, name): the first convention wins
    'N6-definition-memoised': [
        (SP, "    if parameter_type_func is None:\n        parameter_type_func = _infer_parameter_type\n    fd = _get_function_definition(func).clone()\n",
             "    memo = getattr(func, '__yaql_memo__', None)\n    if memo is not None and parameter_type_func is None \\\n"
             "            and memo[0] == (name, function, method):\n        return memo[1].clone()\n"
             "    key = (name, function, method) if parameter_type_func is None else None\n"
             "    if parameter_type_func is None:\n        parameter_type_func = _infer_parameter_type\n    fd = _get_function_definition(func).clone()\n"),
        (SP, "            if p.alias is None:\n                p.alias = convert_parameter_name(p.name, convention)\n    return fd\n",
             "            if p.alias is None:\n                p.alias = convert_parameter_name(p.name, convention)\n"
             "    if key is not None:\n        try:\n            func.__yaql_memo__ = (key, fd.clone())\n        except AttributeError:\n            pass\n    return fd\n")],
    # filter_parameters_dict stops at the first key that is not a keyword
    'N7-filter-stops-at-first': [
        (UT, "    for name in list(parameters.keys()):\n        if not is_keyword(name):\n            del parameters[name]",
             "    for name in list(parameters.keys()):\n        if not is_keyword(name):\n            del parameters[name]\n            break")],
    # camelCase translates the first underscore only
    'N8-camel-first-letter-only': [
        (CV, "        return self.regex.sub(lambda m: m.group(1).upper(), name)", "        return self.regex.sub(lambda m: m.group(1).upper(), name, count=1)")],
}


def sh(cmd, **kw):
    return subprocess.run(cmd, shell=True, stdout=subprocess.PIPE, stderr=subprocess.STDOUT, text=True, **kw)


def main():
    args = sys.argv[1:]
    notests = '--notests' in args
    names = [a for a in args if not a.startswith('--')] or list(MUTANTS)
    for n in names:
        sh('git -C /repo worktree remove --force %s' % WT)
        r = sh('git -C /repo worktree add --detach %s HEAD' % WT)
        assert r.returncode == 0, r.stdout
        try:
            for path, old, new in MUTANTS[n]:
                p = os.path.join(WT, path)
                s = open(p).read()
                assert s.count(old) == 1, (n, path, s.count(old))
                open(p, 'w').write(s.replace(old, new))
            tests = '-'
            if not notests:
                r = sh('/venv/bin/python -m pytest -q -p no:cacheprovider -x yaql/tests 2>&1 | tail -1', cwd=WT,
                       env=dict(os.environ, PYTHONPATH=WT))
                tests = r.stdout.strip()
            r = sh('./check C12 --tier quick', cwd=ROOT, env=dict(os.environ, YAQL_REPO=WT))
            lines = [ln for ln in r.stdout.splitlines() if ln.startswith(('VIOLATION', 'HARNESS-ERROR', 'C12 '))]
            what = ''
            for ln in lines:
                if 'replay=' in ln:
                    import json
                    rp = json.load(open(ln.split('replay=')[1].split()[0]))
                    what = str(rp.get('what') or rp.get('no_longer_checks'))[:300]
            print('%s | tests: %s | rc=%d | %s | %s' % (n, tests, r.returncode, ' ; '.join(lines)[-200:], what), flush=True)
        finally:
            sh('git -C /repo worktree remove --force %s' % WT)


if __name__ == '__main__':
    main()
