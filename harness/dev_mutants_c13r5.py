"""Development aid for C13 / C14, round 5 (engine families with option-dependent behaviour; persistent updates observed
again): applies each hand-written mutant to a scratch worktree of /repo, runs yaql's own tests and the check against it.
usage: dev_mutants_c13r5.py [--notests] [names...]"""
import os
import subprocess
import sys

ROOT = os.path.dirname(os.path.dirname(os.path.abspath(__file__)))
WT = '/tmp/wr-seq5m'
F = 'yaql/language/factory.py'
U = 'yaql/language/utils.py'
T = 'yaql/language/yaqltypes.py'
C = 'yaql/standard_library/collections.py'
Q = 'yaql/standard_library/queries.py'
E = 'yaql/language/expressions.py'

# name -> (check, [(file, old, new)])
MUTANTS = {
    # ---- engine families / options
    # a copy starts from the given options only (forgets the base engine's)
    'M22-copy-forgets-base-options': ('C13', [(F, "        opt = dict(self._options)\n        opt.update(options)\n",
                                               "        opt = dict(options)\n")]),
    # the tuple option is read once per process (first engine wins)
    'M23-tuples-option-memoised': ('C13', [(U, "def convert_tuples_to_lists(engine):\n    return engine.options.get('yaql.convertTuplesToLists', True)\n",
                                            "_TUPLES = []\n\n\ndef convert_tuples_to_lists(engine):\n    if not _TUPLES:\n"
                                            "        _TUPLES.append(engine.options.get('yaql.convertTuplesToLists', True))\n    return _TUPLES[0]\n")]),
    # yaql.iterableDicts is remembered by the smart-type object at its first check
    'M24-iterable-dicts-remembered': ('C13', [(T, "        if isinstance(value, utils.MappingType) and engine.options.get(\n                'yaql.iterableDicts', False):\n            return True\n",
                                               "        if not hasattr(Iterable, '_dicts'):\n            Iterable._dicts = engine.options.get('yaql.iterableDicts', False)\n"
                                               "        if isinstance(value, utils.MappingType) and Iterable._dicts:\n            return True\n")]),
    # engine(text, options): the statement is parsed by the copy but belongs to the engine that was asked
    'M25-percall-statement-of-base': ('C13', [(F, "            return self.copy(options)(expression)\n",
                                               "            return expressions.Statement(self.copy(options)(expression).expression, self)\n")]),
    # sets become lists whenever tuples do
    'M26-sets-follow-tuples-option': ('C13', [(U, "        set_type = list if convert_sets_to_lists(engine) else set\n",
                                               "        set_type = list if convert_sets_to_lists(engine) or convert_tuples_to_lists(engine) else set\n")]),
    # the input is converted whatever yaql.convertInputData says when the statement comes from a copy (option read from the factory default)
    'M27-convert-input-always': ('C13', [(E, "            if self.engine.options.get('yaql.convertInputData', True):\n",
                                          "            if True:\n")]),
    # ---- persistent updates
    # dict.set(key, value) updates a plain dict in place
    'M28-dict-set-in-place': ('C13', [(C, "    utils.limit_memory_usage(engine, (1, d), (1, key), (1, value))\n    return utils.FrozenDict(itertools.chain(d.items(), ((key, value),)))\n",
                                       "    utils.limit_memory_usage(engine, (1, d), (1, key), (1, value))\n    if isinstance(d, dict):\n        d[key] = value\n        return d\n"
                                       "    return utils.FrozenDict(itertools.chain(d.items(), ((key, value),)))\n")]),
    # dict + dict updates a plain left operand in place
    'M29-dict-plus-in-place': ('C13', [(C, "    d = dict(left)\n    d.update(right)\n    return utils.FrozenDict(d)\n",
                                        "    d = left if isinstance(left, dict) else dict(left)\n    d.update(right)\n    return d if isinstance(left, dict) else utils.FrozenDict(d)\n")]),
    # mergeWith merges into a plain receiver
    'M30-merge-with-in-place': ('C13', [(Q, "def _merge_dicts(dict1, dict2, list_merge_func, item_merger, max_levels=0):\n    result = {}\n",
                                         "def _merge_dicts(dict1, dict2, list_merge_func, item_merger, max_levels=0):\n    result = dict1 if isinstance(dict1, dict) else {}\n")]),
    # enumerate re-uses one pair object
    'M31-enumerate-reuses-pair': ('C13', [(Q, "    for i, t in enumerate(collection, start):\n        yield [i, t]\n",
                                           "    pair = [None, None]\n    for i, t in enumerate(collection, start):\n        pair[0], pair[1] = i, t\n        yield pair\n")]),
    # list * n repeats a mutable list in place
    'M32-list-times-in-place': ('C13', [(C, "def list_by_int(left, right, engine):\n", "def list_by_int(left, right, engine):\n    if isinstance(left, list) and right > 1:\n        left.extend(list(left) * (right - 1))\n        return left\n")]),
    # ---- C14: the consumption bound under other engine options
    # an engine without limit materialises what it would otherwise wrap
    'S15-unlimited-engine-materialises': ('C14', [(U, "    def limiting_iterator():\n", "    if max_count < 0:\n        return list(iterable)\n\n    def limiting_iterator():\n")]),
    # unconverted input: the document's iterator is copied into a list
    'S16-raw-input-snapshot': ('C14', [(E, "            else:\n                context['$'] = data\n",
                                        "            else:\n                context['$'] = list(data) if utils.is_iterator(data) else data\n")]),
    # without a memory quota `distinct` de-duplicates through a dict
    'S17-distinct-fast-path-without-quota': ('C14', [(Q, "    distinct_values = set()\n", "    if utils.get_memory_quota(engine) <= 0 and key_selector is None:\n        yield from dict.fromkeys(collection)\n        return\n    distinct_values = set()\n")]),
    # with yaql.iterableDicts the Iterable() parameters are sized first
    'S18-iterable-dicts-sizes-collections': ('C14', [(T, "        res = super().convert(\n            value, receiver, context, function_spec, engine, *args, **kwargs)\n        return None if res is None else utils.limit_iterable(res, engine)\n",
                                                      "        res = super().convert(\n            value, receiver, context, function_spec, engine, *args, **kwargs)\n"
                                                      "        if res is not None and engine.options.get('yaql.iterableDicts', False) and utils.is_iterator(res):\n            res = iter(tuple(res))\n"
                                                      "        return None if res is None else utils.limit_iterable(res, engine)\n")]),
}


def sh(cmd):
    return subprocess.run(cmd, shell=True, stdout=subprocess.PIPE, stderr=subprocess.STDOUT, text=True)


def apply(name):
    sh('git -C /repo worktree remove --force %s' % WT)
    r = sh('git -C /repo worktree add --detach %s HEAD' % WT)
    if r.returncode:
        print(name, 'worktree failed', r.stdout)
        return False
    for f, old, new in MUTANTS[name][1]:
        p = os.path.join(WT, f)
        s = open(p).read()
        if old not in s:
            print('== %s: pattern not found in %s' % (name, f))
            return False
        open(p, 'w').write(s.replace(old, new, 1))
    return True


def main():
    args = sys.argv[1:]
    notests = '--notests' in args
    names = [a for a in args if not a.startswith('--')] or list(MUTANTS)
    try:
        for n in names:
            if not apply(n):
                continue
            t = 'skipped' if notests else sh(
                'cd %s && /venv/bin/python -W ignore -m pytest -q -p no:cacheprovider yaql/tests 2>&1 | tail -1' % WT).stdout.strip()
            check = MUTANTS[n][0]
            c = sh('cd %s && YAQL_REPO=%s ./check %s --tier quick 2>&1 | grep -v "^WARNING" | tail -3' % (ROOT, WT, check))
            print('== %s | yaql tests: %s' % (n, t))
            what = ''
            for ln in c.stdout.splitlines():
                if 'replay=' in ln:
                    rp = ln.split('replay=')[1].split()[0]
                    try:
                        import json
                        what = str(json.load(open(rp)).get('what'))[:700]
                    except Exception:
                        pass
            print(c.stdout.strip()[:600])
            if what:
                print('   ', what, flush=True)
    finally:
        sh('git -C /repo worktree remove --force %s' % WT)


if __name__ == '__main__':
    main()
