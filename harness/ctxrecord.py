"""The harness's OWN record of a forest of contexts (plain / MultiContext / LinkedContext) and of what
`register_function` / `delete_function` were told - pure Python, no yaql import, never looks at yaql's state.

A context is a node
    ('plain', cell, parent) | ('multi', [member nodes], parent) | ('linked', target node, parent)
exactly as `Yaql.Context.Shape` (lean/Yaql/Model/Context.lean); only plain contexts own state (a cell:
the definitions held, in registration order, and the names some registration declared exclusive).
Exclusivity is per (context, name): it is never a property of a definition."""


def mk_multi(members):
    """MultiContext(members): the parent is nothing, the single parent, or a MultiContext of the members' parents"""
    parents = [m[2] for m in members if m[2] is not None]
    if not parents:
        return ('multi', list(members), None)
    if len(parents) == 1:
        return ('multi', list(members), parents[0])
    return ('multi', list(members), mk_multi(parents))


def mk_linked(parent, target):
    """LinkedContext(parent, target): the target's own chain is linked in front of `parent`"""
    if target[2] is not None:
        return ('linked', target, mk_linked(parent, target[2]))
    return ('linked', target, parent)


def write_cell(node):
    """the plain context that register_function ends in (None: a MultiContext without members)"""
    k = node[0]
    if k == 'plain':
        return node[1]
    if k == 'multi':
        return write_cell(node[1][0]) if node[1] else None
    return write_cell(node[1])


def del_cells(node):
    """the plain contexts that delete_function reaches"""
    k = node[0]
    if k == 'plain':
        return [node[1]]
    if k == 'multi':
        return [c for m in node[1] for c in del_cells(m)]
    return del_cells(node[1])


class Forest:
    """cells[c] = dict(held=[(name, definition id)], excl=set(names)); nodes[i] = the i-th context created"""

    def __init__(self):
        self.cells = []
        self.nodes = []

    def _cell(self, conv):
        self.cells.append(dict(held=[], excl=set(), conv=conv))
        return len(self.cells) - 1

    def conv_of(self, node):
        """does the context carry the naming convention (doc-silent, as implemented: a plain context has the one it
        was created with / inherited from its parent, a MultiContext its first member's, a LinkedContext its
        parent's - none without a parent, whatever its target has)"""
        k = node[0]
        if k == 'plain':
            return self.cells[node[1]]['conv']
        if k == 'multi':
            return self.conv_of(node[1][0])
        return self.conv_of(node[2]) if node[2] is not None else False

    def write_conv(self, i):
        """the convention register_function(<callable>) on context i applies: that of the plain context it ends in"""
        c = write_cell(self.nodes[i])
        return self.cells[c]['conv'] if c is not None else False

    # ---- construction
    def root(self, conv=True):
        self.nodes.append(('plain', self._cell(conv), None))
        return len(self.nodes) - 1

    def can_child(self, i):
        n = self.nodes[i]
        return n[0] != 'linked' or n[1][0] == 'plain'       # type(linked_context)(self) needs a plain target

    def child(self, i):
        if not self.can_child(i):
            return None
        self.nodes.append(('plain', self._cell(self.conv_of(self.nodes[i])), self.nodes[i]))
        return len(self.nodes) - 1

    def multi(self, members):
        self.nodes.append(mk_multi([self.nodes[m] for m in members]))
        return len(self.nodes) - 1

    def linked(self, parent, target):
        self.nodes.append(mk_linked(None if parent is None else self.nodes[parent], self.nodes[target]))
        return len(self.nodes) - 1

    def kind(self, i):
        return self.nodes[i][0]

    # ---- writes
    def register(self, i, name, did, exclusive):
        c = write_cell(self.nodes[i])
        if c is None:
            return
        cell = self.cells[c]
        if (name, did) not in cell['held']:
            cell['held'].append((name, did))
        if exclusive:
            cell['excl'].add(name)

    def delete(self, i, name, did):
        """delete_function drops the definition and the name's flag in every plain context reached"""
        for c in del_cells(self.nodes[i]):
            cell = self.cells[c]
            if (name, did) in cell['held']:
                cell['held'].remove((name, did))
            cell['excl'].discard(name)

    # ---- reads
    def own(self, node, name):
        """the first layer of a context for `name`: (definition ids, exclusive)"""
        k = node[0]
        if k == 'plain':
            cell = self.cells[node[1]]
            return [d for n, d in cell['held'] if n == name], name in cell['excl']
        if k == 'linked':
            return self.own(node[1], name)
        ids, excl = [], False
        for m in node[1]:
            i2, e2 = self.own(m, name)
            for d in i2:
                if d not in ids:
                    ids.append(d)
            excl = excl or e2
        return ids, excl

    def layers(self, i, name):
        """[(definition ids, exclusive)] from context i outward, all layers (also empty ones)"""
        out = []
        node = self.nodes[i]
        while node is not None:
            out.append(self.own(node, name))
            node = node[2]
        return out
