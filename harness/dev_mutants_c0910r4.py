"""Development aid (round 4, C09 provenance / host entry points, C10 host histories): applies each hand-written mutant to
a scratch worktree of /repo, runs yaql's own tests (expected to stay green) and the named check against it.
usage: dev_mutants_c0910r4.py [--notests] [names...]"""
import json
import os
import re
import subprocess
import sys

ROOT = os.path.dirname(os.path.dirname(os.path.abspath(__file__)))
WT = '/tmp/wr-c0910r4'
F = 'yaql/language/factory.py'
I = 'yaql/yaql_interface.py'
U = 'yaql/language/utils.py'
Y = 'yaql/__init__.py'
MUTANTS = {
    # per-call options stick to the engine that was asked ("remember the options last used")
    'P1-percall-options-stick': ('C09', F, "        if options:\n            return self.copy(options)(expression)\n",
                                 "        if options:\n            opt = dict(self._options)\n            opt.update(options)\n"
                                 "            self._options = utils.FrozenDict(opt)\n"),
    # engine.copy: the base engine's explicit options win over the overrides
    'P2-copy-precedence': ('C09', F, "        opt = dict(self._options)\n        opt.update(options)\n",
                           "        opt = dict(options)\n        opt.update(self._options)\n"),
    # YaqlInterface.__call__: keyword parameters are published into the wrapped context (positional ones stay private)
    'E1-iface-kwargs-into-wrapped': ('C09', I, "        for arg_name, arg_value in kwargs.items():\n            context['$' + arg_name] = arg_value\n",
                                     "        for arg_name, arg_value in kwargs.items():\n            self.context['$' + arg_name] = arg_value\n"),
    # yi.on(receiver) parks the receiver in the wrapped context ("so that expressions can refer to it")
    'E2-iface-on-keeps-receiver-in-context': ('C09', I, "    def on(self, receiver):\n        return YaqlInterface(self.context, self.engine, receiver)\n",
                                              "    def on(self, receiver):\n        self.context['$receiver'] = receiver\n"
                                              "        return YaqlInterface(self.context, self.engine, receiver)\n"),
    # a FrozenDict remembers its finalised form (results of later finalisations are the same object, whatever the options)
    'H1-frozendict-memoises-plain-form': ('C10', U, "    if isinstance(obj, collections.abc.Mapping):\n        result = {}\n",
                                          "    if isinstance(obj, FrozenDict) and getattr(obj, '_plain', None) is not None:\n"
                                          "        return obj._plain\n"
                                          "    if isinstance(obj, collections.abc.Mapping):\n        result = {}\n"),
    # create_context(data=..) keeps the converted form per document object
    'H2-create_context-conversion-cache': ('C10', Y, "    if data is not utils.NO_VALUE:\n        context['$'] = utils.convert_input_data(data)\n",
                                           "    if data is not utils.NO_VALUE:\n        hit = _converted.get(id(data))\n"
                                           "        if hit is None or hit[0] is not data:\n"
                                           "            hit = _converted[id(data)] = (data, utils.convert_input_data(data))\n"
                                           "        context['$'] = hit[1]\n"),
}
EXTRA = {
    'H1-frozendict-memoises-plain-form': (U, "        for key, value in limit_func(obj.items()):\n            result[rec(key, limit_func, engine, rec)] = rec(\n                value, limit_func, engine, rec)\n        return result\n",
                                          "        for key, value in limit_func(obj.items()):\n            result[rec(key, limit_func, engine, rec)] = rec(\n                value, limit_func, engine, rec)\n"
                                          "        if isinstance(obj, FrozenDict):\n            obj._plain = result\n        return result\n"),
    'H2-create_context-conversion-cache': (Y, "_default_context = None\n", "_default_context = None\n_converted = {}\n"),
}


def sh(cmd, **kw):
    return subprocess.run(cmd, shell=True, stdout=subprocess.PIPE, stderr=subprocess.STDOUT, text=True, **kw)


def apply(n):
    sh('git -C /repo worktree remove --force %s' % WT)
    r = sh('git -C /repo worktree add --detach %s HEAD' % WT)
    assert r.returncode == 0, r.stdout
    for f, old, new in [MUTANTS[n][1:]] + ([EXTRA[n]] if n in EXTRA else []):
        p = os.path.join(WT, f)
        s = open(p).read()
        if s.count(old) != 1:
            print(n, 'PATTERN COUNT', s.count(old), repr(old[:60]))
            return False
        open(p, 'w').write(s.replace(old, new))
    return True


def main():
    args = sys.argv[1:]
    notests = '--notests' in args
    names = [a for a in args if not a.startswith('--')] or list(MUTANTS)
    for n in names:
        if not apply(n):
            continue
        check = MUTANTS[n][0]
        t = 'skipped' if notests else sh('cd %s && /venv/bin/python -W ignore -m pytest -q -x -p no:cacheprovider yaql/tests 2>&1 | tail -1' % WT).stdout.strip()
        c = sh('cd %s && YAQL_REPO=%s ./check %s --tier quick 2>&1 | grep -v "^WARNING\\|^KNOWN" | tail -3' % (ROOT, WT, check))
        print('== %s | yaql tests: %s' % (n, t))
        print(c.stdout.strip())
        m = re.search(r'replay=(\S+)', c.stdout)
        if m:
            r = json.load(open(m.group(1)))
            print('   ', (r.get('what') or str(r.get('no_longer_checks'))[:400])[:700])
        sys.stdout.flush()
    sh('git -C /repo worktree remove --force %s' % WT)


if __name__ == '__main__':
    main()
