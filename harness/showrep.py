import json, sys, glob, os
fs = sorted(glob.glob('replays/*.json'), key=os.path.getmtime)[-int(sys.argv[1]) if len(sys.argv) > 1 else -1:]
for f in fs:
    r = json.load(open(f))
    print('==', f, r.get('kind'))
    if r.get('what'): print(r['what'][:900])
    for a in r.get('also', []) or []: print('ALSO', a[:700])
    for a in r.get('no_longer_checks', []) or []: print('NLC', a[:900])
