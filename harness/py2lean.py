"""Function-body translator: Python source of selected yaql functions -> Lean 4 definitions.

The translation is *shallow and typed*: every target has a typing entry (`srcgen_targets.py`)
giving the Lean-side types of its parameters and result; the Python body is then translated
statement by statement into a Lean term over the primitives of `Yaql/Model/PyPrelude.lean`
(`Yaql.Py.*`) and the primitives named in the entry.  Anything outside the supported subset
raises `Refuse` naming the function, the source line and the AST node - nothing is guessed
and no statement is skipped.  The subset and the translation scheme are documented in
notes/SrcGen.md.

Types (notation of the typing entries):
    int bool str char unit          Int Bool (List Char) Char Unit
    T?                              Option T
    [T]                             List T            (list, tuple used as a sequence, generator result)
    (T1, T2, ..)                    T1 x T2 x ..      (fixed-size tuple)
    {K: V}                          List (K x V)      (dict, insertion ordered association list)
    fn(A, B) -> R                   A -> B -> R       (a callable parameter; total)
    @Lean.Name                      a named Lean type (closed universes: see `UNIVERSES`)
"""
import ast
import hashlib
import os
import re
import textwrap


class Refuse(Exception):
    """the translator refuses a function: outside the supported subset"""

    def __init__(self, fn, node, why):
        self.fn, self.node, self.why = fn, node, why
        where = ''
        if node is not None and hasattr(node, 'lineno'):
            where = ' line %d' % node.lineno
        dump = ''
        if node is not None:
            try:
                dump = ' [%s: %s]' % (type(node).__name__, ast.unparse(node)[:120].replace('\n', ' '))
            except Exception:
                dump = ' [%s]' % type(node).__name__
        Exception.__init__(self, 'py2lean refuses %s%s: %s%s' % (fn, where, why, dump))


# ------------------------------------------------------------------------------------ types

INT, BOOL, STR, CHAR, UNIT, NONE = ('int',), ('bool',), ('str',), ('char',), ('unit',), ('none',)


def parse_type(s):
    s = s.strip()
    pos = [0]

    def ws():
        while pos[0] < len(s) and s[pos[0]] == ' ':
            pos[0] += 1

    def eat(tok):
        ws()
        if s.startswith(tok, pos[0]):
            pos[0] += len(tok)
            return True
        return False

    def need(tok):
        if not eat(tok):
            raise ValueError('type %r: expected %r at %d' % (s, tok, pos[0]))

    def atom():
        ws()
        if eat('fn('):
            args = []
            if not eat(')'):
                args.append(ty())
                while eat(','):
                    args.append(ty())
                need(')')
            need('->')
            return ('fn', tuple(args), ty())
        if eat('['):
            t = ty()
            need(']')
            return ('list', t)
        if eat('{'):
            k = ty()
            need(':')
            v = ty()
            need('}')
            return ('dict', k, v)
        if eat('('):
            ts = [ty()]
            while eat(','):
                ts.append(ty())
            need(')')
            return ts[0] if len(ts) == 1 else ('tup',) + tuple(ts)
        if eat('@'):
            m = re.match(r'[A-Za-z_][A-Za-z0-9_.]*', s[pos[0]:])
            pos[0] += m.end()
            name = m.group(0)
            ws()
            # applied named type:  @Name<T1, T2>
            if eat('<'):
                args = [ty()]
                while eat(','):
                    args.append(ty())
                need('>')
                return ('named', name) + tuple(args)
            return ('named', name)
        if eat('iter['):
            t = ty()
            need(']')
            return ('iter', t)
        m = re.match(r'[a-z]+', s[pos[0]:])
        if not m:
            raise ValueError('type %r: unexpected at %d' % (s, pos[0]))
        pos[0] += m.end()
        w = m.group(0)
        base = {'int': INT, 'bool': BOOL, 'str': STR, 'char': CHAR, 'unit': UNIT}
        if w not in base:
            raise ValueError('type %r: unknown base type %r' % (s, w))
        return base[w]

    def ty():
        t = atom()
        while eat('?'):
            t = ('opt', t)
        return t

    t = ty()
    ws()
    if pos[0] != len(s):
        raise ValueError('type %r: trailing %r' % (s, s[pos[0]:]))
    return t


def T(x):
    return parse_type(x) if isinstance(x, str) else x


def lean_type(t, top=True):
    k = t[0]
    if k == 'int':
        return 'Int'
    if k == 'bool':
        return 'Bool'
    if k == 'str':
        return 'List Char' if top else '(List Char)'
    if k == 'char':
        return 'Char'
    if k == 'unit':
        return 'Unit'
    if k == 'opt':
        r = 'Option ' + lean_type(t[1], False)
    elif k in ('list', 'iter'):
        r = 'List ' + lean_type(t[1], False)
    elif k == 'tup':
        r = ' × '.join(lean_type(x, False) for x in t[1:])
    elif k == 'dict':
        r = 'List (%s × %s)' % (lean_type(t[1], False), lean_type(t[2], False))
    elif k == 'fn':
        r = ' → '.join([lean_type(x, False) for x in t[1]] + [lean_type(t[2], False)])
    elif k == 'named':
        if len(t) == 2:
            return t[1]
        r = t[1] + ' ' + ' '.join(lean_type(x, False) for x in t[2:])
    elif k == 'except':
        r = 'Except Yaql.Py.Err ' + lean_type(t[1], False)
    else:
        raise ValueError(t)
    return r if top else '(' + r + ')'


def is_seq(t):
    return t[0] in ('list', 'str', 'iter')


def elem_type(t):
    return CHAR if t[0] == 'str' else t[1]


LEAN_RESERVED = {
    'at', 'end', 'from', 'fun', 'do', 'then', 'else', 'if', 'match', 'with', 'let', 'have', 'show', 'in', 'open',
    'local', 'where', 'type', 'Type', 'by', 'of', 'for', 'return', 'class', 'instance', 'structure', 'def',
    'theorem', 'namespace', 'section', 'import', 'mutual', 'private', 'protected', 'macro', 'syntax', 'prefix',
    'infix', 'notation', 'deriving', 'extends', 'using', 'calc', 'nomatch', 'this', 'variable', 'universe',
    'example', 'axiom', 'abbrev', 'inductive', 'unsafe', 'partial', 'attribute', 'export', 'set_option',
    'some', 'none', 'true', 'false', 'not', 'id', 'max', 'min', 'default', 'stop', 'exists', 'forall', 'Σ', 'λ',
}


def lean_ident(name):
    if name in LEAN_RESERVED:
        return name + '_'
    if name.startswith('_'):
        return 'u' + name
    return name


def lean_char(c):
    o = ord(c)
    if 32 <= o < 127 and c not in "'\\\"":
        return "'%s'" % c
    return '(Char.ofNat %d)' % o


def lean_str_lit(s):
    return '([%s] : List Char)' % ', '.join(lean_char(c) for c in s)


def indent(text, n=2):
    pad = ' ' * n
    return '\n'.join(pad + ln if ln else ln for ln in text.split('\n'))


def block(text):
    """a compound term in parentheses, safe in any position"""
    if '\n' not in text and len(text) < 100:
        return '(' + text + ')'
    return '(\n' + indent(text) + ')'



def projections(n):
    """the projection suffixes of a right-nested n-tuple"""
    if n == 1:
        return ['']
    return ['.2' * i + ('.1' if i < n - 1 else '') for i in range(n)]


def destruct(names, types, src):
    """let-lines binding the components of the tuple `src` (by projections: they reduce on a variable)"""
    if len(names) == 1:
        return 'let %s : %s := %s\n' % (names[0], lean_type(types[0]), src)
    return ''.join('let %s : %s := %s%s\n' % (nm, lean_type(ty), src, pr)
                   for nm, ty, pr in zip(names, types, projections(len(names))))

# ------------------------------------------------------------------------------------ primitives

class Prim:
    """a primitive: Lean template + typing.
    args:   list of types (None = any / generic), the last `opt` of which may be omitted in the call
    ret:    type, or a callable (recv_type, [arg_types]) -> type
    lean:   template; {self} receiver, {0} {1}.. arguments, {cfg} ambient parameters by name;
            an omitted optional argument renders as `none`, a present one as `(some x)` when optwrap
    partial: result is `Except Py.Err ret`
    mut:    the method mutates its receiver: the template yields the NEW receiver (result unit)"""

    def __init__(self, lean, args=(), ret=None, opt=0, partial=False, mut=False, optwrap=True, kw=None,
                 defaults=None):
        self.lean, self.ret, self.opt = lean, ret, opt
        self.args = [('elem',) if a == '$elem' else (T(a) if a is not None else None) for a in args]
        self.partial, self.mut, self.optwrap, self.kw = partial, mut, optwrap, kw or []
        self.defaults = defaults       # Lean texts used for omitted optional args (instead of none/some)


def _same(recv, args):
    return recv


def _elem(recv, args):
    return elem_type(recv)


# methods by (kind of receiver type, name)
METHODS = {
    # str: CPython str methods are model primitives (Yaql.Strings part 1 through Yaql.PyStr)
    ('str', 'find'): Prim('(Yaql.PyStr.find {self} {0} {1} {2})', ['str', 'int', 'int'], INT, opt=2),
    ('str', 'rfind'): Prim('(Yaql.PyStr.rfind {self} {0} {1} {2})', ['str', 'int', 'int'], INT, opt=2),
    ('str', 'strip'): Prim('(Yaql.PyStr.strip {cfg} {self} {0})', ['str?'], STR, opt=1, optwrap=False,
                           defaults=['none']),
    ('str', 'lstrip'): Prim('(Yaql.PyStr.lstrip {cfg} {self} {0})', ['str?'], STR, opt=1, optwrap=False,
                            defaults=['none']),
    ('str', 'rstrip'): Prim('(Yaql.PyStr.rstrip {cfg} {self} {0})', ['str?'], STR, opt=1, optwrap=False,
                            defaults=['none']),
    ('str', 'replace'): Prim('(Yaql.PyStr.replace {self} {0} {1} {2})', ['str', 'str', 'int'], STR, opt=1,
                             optwrap=False, defaults=['(-1)'], partial=True),
    ('str', 'split'): Prim('(Yaql.PyStr.split {cfg} {self} {0} {1})', ['str?', 'int'], T('[str]'), opt=2,
                           optwrap=False, defaults=['none', '(-1)'], partial=True),
    ('str', 'rsplit'): Prim('(Yaql.PyStr.rsplit {cfg} {self} {0} {1})', ['str?', 'int'], T('[str]'), opt=2,
                            optwrap=False, defaults=['none', '(-1)'], partial=True),
    ('str', 'join'): Prim('(Yaql.PyStr.join {self} {0})', ['[str]'], STR),
    ('str', 'startswith'): Prim('(Yaql.PyStr.startswith {self} {0})', ['[str]'], BOOL),
    ('str', 'endswith'): Prim('(Yaql.PyStr.endswith {self} {0})', ['[str]'], BOOL),
    ('str', 'upper'): Prim('(Yaql.PyStr.upper {cfg} {self})', [], STR),
    ('str', 'lower'): Prim('(Yaql.PyStr.lower {cfg} {self})', [], STR),
    # list
    # list.insert converts the index to Py_ssize_t (OverflowError outside)
    ('list', 'insert'): Prim('(Yaql.Py.listInsert? {self} {0} {1})', ['int', '$elem'], None, mut=True, partial=True),
    ('list', 'append'): Prim('({self} ++ [{0}])', ['$elem'], None, mut=True),
    ('list', 'extend'): Prim('({self} ++ {0})', [None], None, mut=True),
    # dict
    ('dict', 'items'): Prim('{self}', [], lambda r, a: ('list', ('tup', r[1], r[2]))),
    ('dict', 'keys'): Prim('(Yaql.Py.dictKeys {self})', [], lambda r, a: ('list', r[1])),
    ('dict', 'values'): Prim('(Yaql.Py.dictValues {self})', [], lambda r, a: ('list', r[2])),
    ('dict', 'get'): Prim('(Yaql.Py.dictGet? {self} {0})', [None], lambda r, a: ('opt', r[2])),
}


# ------------------------------------------------------------------------------------ translation

GLOBAL_PRIMS = {}      # dotted python name -> Prim (filled by srcgen_targets)
GLOBAL_CONSTS = {}     # dotted python name -> (lean text, type)


class Var:
    def __init__(self, lean, ty, param=False, fresh=False):
        self.lean, self.ty, self.param, self.fresh = lean, ty, param, fresh

    def copy(self):
        return Var(self.lean, self.ty, self.param, self.fresh)


class E:
    """a translated expression: `binds` = [(tmp, text of an `Except Py.Err _` term)] to be run first, in order"""

    def __init__(self, text, ty, binds=None, fresh=False):
        self.text, self.ty, self.binds, self.fresh = text, ty, list(binds or []), fresh


class Ctx:
    """how control leaves the current position"""

    def __init__(self, ret, raise_, brk=None, cont=None, ans_ty=''):
        self.ret, self.raise_, self.brk, self.cont = ret, raise_, brk, cont
        self.ans_ty = ans_ty          # Lean type (parenthesised) of the term this position must produce
        self.escaped = False


class Target:
    """typing entry of one function (see srcgen_targets.py)"""

    def __init__(self, qual, area, owners, params, ret, model=None, theorem=None, raises=False, ambient=(),
                 prims=None, name=None, errors=None, fuel=False, consts=None, note='', gen=None, pre=None,
                 diff=None, expr=None, locals=None, fuel_expr=None, vararg=False, callname=None, pyargs=None, state=None):
        self.qual = qual                      # 'pkg.module:func' or 'pkg.module:Class.method'
        self.module, self.func = qual.split(':')
        self.area, self.owners = area, list(owners)
        self.params = [(p, T(t)) for p, t in params]
        self.ret = T(ret)
        self.model, self.theorem, self.raises = model, theorem, raises
        self.ambient = list(ambient)          # [(lean name, lean type)] extra leading parameters (cfg ...)
        self.prims = dict(prims or {})        # dotted python name -> Prim
        self.name = name or lean_ident(self.func.split('.')[-1])
        self.errors = dict(errors or {})      # exception class name -> Lean text of a Py.Err
        self.consts = dict(consts or {})      # dotted python name -> (lean text, type)
        self.note = note
        self.gen = gen                        # input generator name for the differential (srcobl)
        self.pre = pre                        # python predicate on the argument tuple: domain of the comparison
        self.diff = diff                      # False: no source-level differential for this target
        self.expr = expr                      # how the function is reached from a yaql expression (for the oracle)
        self.locals = {k: T(v) for k, v in (locals or {}).items()}   # declared types of locals (None-initialised ...)
        self.state = [(d, T(ty)) for d, ty in (state or [])]   # attributes of `self` threaded as state: [('self.x', type)]
        self.pyargs = pyargs                  # abstract generated arguments -> python arguments (differential)
        self.vararg = vararg                  # the last parameter is `*args` (a list on the Lean side)
        self.callname = callname              # dotted name under which other modules call it (e.g. 'utils.f')
        self.fuel = fuel                      # the function has `while` loops: extra parameter `fuel : Nat`
        self.fuel_expr = fuel_expr            # Lean Nat expression over the parameters: enough fuel (differential)

    @property
    def lean_name(self):
        return 'Yaql.Gen.Src%s.%s' % (self.area, self.name)


DEFAULT_ERRORS = {
    'ValueError': '.valueError', 'TypeError': '.typeError', 'IndexError': '.indexError', 'KeyError': '.keyError',
    'ZeroDivisionError': '.zeroDivision', 'OverflowError': '.overflowError', 'StopIteration': '.stopIteration',
    'AttributeError': '.attributeError', 'NotImplementedError': '.notImplemented',
}


def find_function(tree, path):
    body = tree.body
    node = None
    for part in path.split('.'):
        node = None
        for n in body:
            if isinstance(n, (ast.FunctionDef, ast.ClassDef)) and n.name == part:
                node = n           # the LAST definition of the name wins, as in Python
        if node is None:
            return None
        body = node.body
    return node if isinstance(node, ast.FunctionDef) else None


def strip_doc(body):
    if body and isinstance(body[0], ast.Expr) and isinstance(body[0].value, ast.Constant) \
            and isinstance(body[0].value.value, str):
        return body[1:]
    return body


def source_digest(fnode):
    """digest of the function's AST without docstring and decorators"""
    n = ast.FunctionDef(name=fnode.name, args=fnode.args, body=strip_doc(fnode.body) or [ast.Pass()],
                        decorator_list=[], returns=None, type_comment=None, lineno=0, col_offset=0)
    try:
        n.type_params = []
    except Exception:
        pass
    return hashlib.sha256(ast.dump(n).encode()).hexdigest()[:12]


def contains(node_or_list, types, stop=()):
    """does the statement (list) contain a node of `types`, not descending into `stop` nodes / nested defs"""
    todo = list(node_or_list) if isinstance(node_or_list, list) else [node_or_list]
    todo = [n for n in todo if not isinstance(n, (ast.FunctionDef, ast.Lambda, ast.ClassDef))]
    while todo:
        n = todo.pop()
        if isinstance(n, types):
            return True
        for c in ast.iter_child_nodes(n):
            if isinstance(c, (ast.FunctionDef, ast.Lambda, ast.ClassDef)) or isinstance(c, stop):
                continue
            todo.append(c)
    return False


def assigned_names(stmts):
    """names (re)bound by the statements, in order of first appearance (nested defs excluded)"""
    out = []

    def add(n):
        if n not in out:
            out.append(n)

    def target(t):
        if isinstance(t, ast.Name):
            add(t.id)
        elif isinstance(t, (ast.Tuple, ast.List)):
            for e in t.elts:
                target(e)
        elif isinstance(t, ast.Subscript):
            root = t.value
            if isinstance(root, ast.Name):
                add(root.id)
        elif isinstance(t, ast.Starred):
            target(t.value)

    def walk(s):
        if isinstance(s, ast.Assign):
            for t in s.targets:
                target(t)
        elif isinstance(s, (ast.AugAssign, ast.AnnAssign)):
            target(s.target)
        elif isinstance(s, ast.For):
            target(s.target)
            for x in s.body + s.orelse:
                walk(x)
        elif isinstance(s, (ast.While, ast.If)):
            for x in s.body + s.orelse:
                walk(x)
        elif isinstance(s, ast.With):
            for x in s.body:
                walk(x)
        elif isinstance(s, ast.Try):
            for x in s.body + s.orelse + s.finalbody:
                walk(x)
            for h in s.handlers:
                for x in h.body:
                    walk(x)
        elif isinstance(s, ast.Expr):
            v = s.value
            if isinstance(v, ast.Call) and isinstance(v.func, ast.Attribute) and isinstance(v.func.value, ast.Name):
                # a method call statement may mutate its receiver; whether it does is decided at translation
                add(v.func.value.id)
            if isinstance(v, (ast.Yield, ast.YieldFrom)):
                add(OUT)
        elif isinstance(s, ast.Delete):
            for t in s.targets:
                target(t)
        for c in ast.walk(s) if not isinstance(s, (ast.FunctionDef,)) else []:
            if isinstance(c, ast.NamedExpr):
                target(c.target)
            if isinstance(c, (ast.Yield, ast.YieldFrom)):
                add(OUT)

    for s in stmts:
        walk(s)
    return out


OUT = 'out__'      # the list a generator function has produced so far

# isinstance on a value whose class the typing entry fixes: (classes it is an instance of, classes it is not)
_SEQ = {'utils.SequenceType', 'collections.abc.Sequence', 'tuple', 'list', 'utils.IterableType',
        'collections.abc.Iterable'}
_NOTSEQ = {'int', 'str', 'bool', 'float', 'dict', 'utils.MappingType', 'collections.abc.Mapping', 'utils.SetType',
           'utils.MutableSetType', 'set', 'frozenset', 'collections.abc.Iterator', 'utils.IteratorType'}
STATIC_CLASSES = {
    'int': ({'int'}, {'str', 'bool', 'float', 'tuple', 'list', 'dict', 'utils.SequenceType', 'utils.MappingType',
                      'utils.SetType'}),
    'str': ({'str'}, {'int', 'bool', 'float', 'tuple', 'list', 'dict', 'utils.SequenceType', 'utils.MappingType',
                      'utils.SetType', 'utils.IterableType'}),
    'bool': ({'bool', 'int'}, {'str', 'float', 'tuple', 'list', 'dict'}),
    'list': (_SEQ, _NOTSEQ),
    # a one-shot iterator (given by its finite content): iterable, not a sized collection
    'iter': ({'collections.abc.Iterator', 'utils.IteratorType', 'utils.IterableType', 'collections.abc.Iterable'},
             {'utils.SequenceType', 'collections.abc.Sequence', 'tuple', 'list', 'utils.MappingType', 'utils.SetType',
              'collections.abc.Mapping', 'dict', 'str', 'int'}),
}


class FnTranslator:
    def __init__(self, target, fnode, registry=None, universes=None):
        self.t = target
        self.fnode = fnode
        self.fn = target.qual
        self.registry = registry or {}      # python function name (same module) -> Target, for sibling calls
        self.universes = universes or {}
        self.ntmp = 0
        self._cmp_binds = []
        self.is_gen = contains(strip_doc(fnode.body), (ast.Yield, ast.YieldFrom))
        self.monadic = bool(target.raises)
        self.size = 0

    # -- helpers
    def refuse(self, node, why):
        raise Refuse(self.fn, node, why)

    def tmp(self, base='t'):
        self.ntmp += 1
        return '%s%d__' % (base, self.ntmp)

    def budget(self, node):
        self.size += 1
        if self.size > 4000:
            self.refuse(node, 'translation too large (branch duplication)')

    def err_text(self, node):
        """Lean text of the Py.Err raised by `raise X(...)` / `raise X`"""
        exc = node.exc
        if exc is None:
            self.refuse(node, 're-raise is outside the subset')
        if isinstance(exc, ast.Call):
            exc = exc.func
        name = ast.unparse(exc)
        short = name.split('.')[-1]
        table = dict(DEFAULT_ERRORS)
        table.update(self.t.errors)
        if name in table:
            return table[name]
        if short in table:
            return table[short]
        self.refuse(node, 'exception class %s has no entry in the error enum of this target' % name)

    # -- function level
    def translate(self):
        f = self.fnode
        a = f.args
        if a.vararg or a.kwarg or a.kwonlyargs or a.posonlyargs:
            if not (a.vararg and not a.kwarg and not a.kwonlyargs and not a.posonlyargs):
                self.refuse(f, 'only positional parameters (and *args as one list parameter) are supported')
        pnames = [x.arg for x in a.args] + ([a.vararg.arg] if a.vararg else [])
        declared = [p for p, _ in self.t.params]
        env = {}
        binders = []
        state_vars = []
        if self.t.state:
            # a method in state-passing style: the attributes of `self` named in the typing entry become leading
            # parameters and are handed back with the result; every other use of `self` is refused (unknown name)
            owner = self.t.state[0][0].split('.')[0]
            if not pnames or pnames[0] != owner:
                self.refuse(f, 'state-passing translation expects %r as the first parameter' % owner)
            pnames = pnames[1:]
            smap = {d: d.replace('.', '_') for d, _ in self.t.state}
            tr = self

            class Rewrite(ast.NodeTransformer):
                def visit_Attribute(self, node):
                    d = tr.dotted(node)
                    if d in smap:
                        return ast.copy_location(ast.Name(id=smap[d], ctx=node.ctx), node)
                    return self.generic_visit(node)

            f = Rewrite().visit(f)
            ast.fix_missing_locations(f)
            a = f.args
            a.args = a.args[1:]
            for d, ty in self.t.state:
                nm = smap[d]
                env[nm] = Var(lean_ident(nm), ty, param=False, fresh=True)
                binders.append('(%s : %s)' % (lean_ident(nm), lean_type(ty)))
                state_vars.append(nm)
        if pnames != declared:
            self.refuse(f, 'parameter list %r differs from the typing entry %r' % (pnames, declared))
        for (ln, lt) in self.t.ambient:
            binders.append('(%s : %s)' % (ln, lt))
        if self.t.fuel:
            if not self.monadic:
                self.refuse(f, 'a function with fuel must be declared raises=True (running out of fuel is Err.fuel)')
            binders.append('(fuel : Nat)')
        ndef = len(a.defaults)
        first_def = len(a.args) - ndef
        for i, (p, ty) in enumerate(self.t.params):
            v = Var(lean_ident(p), ty, param=True)
            env[p] = v
            dflt = ''
            if i < len(a.args) and i >= first_def:
                d = a.defaults[i - first_def]
                de = self.coerce(self.tr_expr(d, {}), ty, d)
                if de.binds:
                    self.refuse(d, 'default value may raise')
                dflt = ' := ' + de.text
            binders.append('(%s : %s%s)' % (v.lean, lean_type(ty), dflt))
        ret = self.t.ret
        if state_vars and self.is_gen:
            self.refuse(f, 'a generator method with state')
        if self.is_gen:
            if ret[0] != 'list':
                self.refuse(f, 'a generator function needs a list result type in its typing entry')
            env[OUT] = Var(OUT, ret, fresh=True)
        st_types = [ty for _, ty in self.t.state]
        out_ty = ret
        if state_vars:
            out_ty = (st_types[0] if len(st_types) == 1 else ('tup',) + tuple(st_types)) if ret == UNIT else \
                ('tup', ret) + tuple(st_types)
        full_ret = ('except', out_ty) if self.monadic else out_ty

        def with_state(text, env_):
            if not state_vars:
                return text
            for nm in state_vars:
                if nm not in env_:
                    self.refuse(f, 'state variable %r is undefined at a return' % nm)
            sts = [env_[nm].lean for nm in state_vars]
            if ret == UNIT:
                return sts[0] if len(sts) == 1 else '(%s)' % ', '.join(sts)
            return '(%s, %s)' % (text, ', '.join(sts))

        def do_ret(e, env_):
            if self.is_gen:
                if e is not None:
                    self.refuse(f, 'return with a value inside a generator')
                txt = env_[OUT].lean
                return '(.ok %s)' % txt if self.monadic else txt
            if e is None:
                e = E('()', UNIT) if ret == UNIT else E('none', NONE)
            e = self.coerce(e, ret, f)
            if state_vars:
                body = with_state(e.text, env_)
                return self.with_binds(e.binds, '(.ok %s)' % body if self.monadic else body, ctx)
            if self.monadic and e.binds and e.text == e.binds[-1][0]:
                # `return <partial call>`: the call's own outcome is the function's outcome
                return self.with_binds(e.binds[:-1], e.binds[-1][1], ctx)
            body = '(.ok %s)' % e.text if self.monadic else e.text
            return self.with_binds(e.binds, body, ctx)

        def do_raise(errtext):
            if not self.monadic:
                self.refuse(f, 'the function can raise (%s) but its typing entry says raises=False' % errtext)
            return '(.error %s)' % errtext

        ctx = Ctx(do_ret, do_raise, ans_ty=lean_type(full_ret, False))
        self.fnode = f
        body = strip_doc(f.body)
        if not body:
            self.refuse(f, 'empty body')
        text = self.tr_stmts(body, env, ctx, lambda env_: do_ret(None, env_))
        if self.is_gen:
            text = 'let %s : %s := []\n%s' % (OUT, lean_type(ret), text)
        head = 'def %s %s : %s :=' % (self.t.name, ' '.join(binders), lean_type(full_ret))
        return head + '\n' + indent(text)

    # -- binding partial sub-expressions
    def with_binds(self, binds, body, ctx):
        text = body
        for tmpname, ptext in reversed(binds):
            ctx.escaped = True
            text = 'match %s with\n| .error e__ => %s\n| .ok %s => %s' % (
                ptext, ctx.raise_('e__'), tmpname, block(text))
        return text

    def wrap_partial(self, e):
        """an expression with binds -> one `Except` term"""
        text = '(.ok %s)' % e.text
        for tmpname, ptext in reversed(e.binds):
            text = '(match %s with\n  | .error e__ => .error e__\n  | .ok %s => %s)' % (ptext, tmpname, text)
        return text

    # -- coercions
    def coerce(self, e, ty, node):
        if e.ty == ty:
            return e
        if e.ty == NONE:
            if ty[0] == 'named' and 'none' in self.universes.get(ty[1], {}).get('inject', {}):
                return E(self.universes[ty[1]]['inject']['none'], ty, e.binds)
            if ty[0] == 'opt':
                return E('none', ty, e.binds)
            if ty == UNIT:
                return E('()', ty, e.binds)
            self.refuse(node, 'None where a %s is expected' % lean_type(ty))
        if ty[0] == 'opt' and self.compatible(e.ty, ty[1]):
            inner = self.coerce(e, ty[1], node)
            return E('(some %s)' % inner.text, ty, inner.binds, inner.fresh)
        if e.ty[0] == 'list' and e.ty[1] is None and ty[0] in ('list', 'str', 'dict'):      # the empty literal
            return E('([] : %s)' % lean_type(ty), ty, e.binds, True)
        if e.ty[0] == 'list' and e.ty[1] is None and self.injection(e.ty, ty) is not None:
            pass
        if e.ty[0] == 'tup' and ty[0] == 'tup' and len(e.ty) == len(ty) and e.text.startswith('(') \
                and getattr(e, 'parts', None):
            parts = [self.coerce(x, t2, node) for x, t2 in zip(e.parts, ty[1:])]
            return E('(%s)' % ', '.join(x.text for x in parts), ty, [b for x in parts for b in x.binds])
        inj = self.injection(e.ty, ty)
        if inj is not None:
            need = re.findall(r'\{([a-z_]+)\}', inj)
            amb = {ln: ln for ln, _ in self.t.ambient}
            for nm in need:
                if nm not in amb:
                    self.refuse(node, 'coercion to %s needs the ambient parameter %s' % (lean_type(ty), nm))
            return E(inj.format(e.text, **amb), ty, e.binds, e.fresh)
        if e.ty[0] == 'list' and ty[0] == 'list' and e.ty[1] is not None and e.text.startswith('[') \
                and self.injection(e.ty[1], ty[1]) is not None:
            # a list display whose elements are injected one by one is handled by ex_List; here: map
            return E('(List.map (fun v__ => %s) %s)' % (self.injection(e.ty[1], ty[1]).format('v__'), e.text),
                     ty, e.binds, True)
        if e.ty[0] == 'list' and ty[0] == 'list' and self.compatible(e.ty[1], ty[1]) and e.text.startswith('['):
            return E(e.text, ty, e.binds, e.fresh)
        if e.ty == ('list', CHAR) and ty == STR or e.ty == STR and ty == ('list', CHAR):
            return E(e.text, ty, e.binds, e.fresh)
        self.refuse(node, 'type mismatch: have %s, need %s' % (lean_type(e.ty) if e.ty[0] != 'none' else 'None',
                                                               lean_type(ty)))

    def injection(self, a, b):
        """Lean template turning a value of type a into the named (universe) type b"""
        if b[0] == 'named' and a != b:
            inj = self.universes.get(b[1], {}).get('inject', {})
            for src, tmpl in inj.items():
                if src not in ('[]', 'none') and T(src) == a:
                    return tmpl
            if a[0] == 'list' and a[1] is None and '[]' in inj:
                return inj['[]']
        return None

    def compatible(self, a, b):
        if a == b or a == NONE and b[0] == 'opt':
            return True
        if self.injection(a, b) is not None:
            return True
        if b[0] == 'opt' and self.compatible(a, b[1]):
            return True
        if a[0] == 'list' and a[1] is None and b[0] in ('list', 'str', 'dict'):
            return True
        if {a, b} == {STR, ('list', CHAR)}:
            return True
        return False

    def join_types(self, a, b, node):
        if a == b:
            return a
        if a == NONE:
            return b if b[0] == 'opt' else ('opt', b)
        if b == NONE:
            return a if a[0] == 'opt' else ('opt', a)
        if a[0] == 'opt' and self.compatible(b, a):
            return a
        if b[0] == 'opt' and self.compatible(a, b):
            return b
        if a[0] == 'list' and a[1] is None:
            return b
        if b[0] == 'list' and b[1] is None:
            return a
        if self.injection(a, b) is not None:
            return b
        if self.injection(b, a) is not None:
            return a
        # two different base types that both inject into one declared universe
        for uname, uni in self.universes.items():
            u = ('named', uname)
            if uni.get('inject') and self.injection(a, u) is not None and self.injection(b, u) is not None:
                return u
        self.refuse(node, 'branches have different types %s / %s' % (a, b))

    # ------------------------------------------------------------------ statements

    def tr_stmts(self, stmts, env, ctx, k):
        if not stmts:
            return k(env)
        s, rest = stmts[0], stmts[1:]
        self.budget(s)

        def cont(env2):
            return self.tr_stmts(rest, env2, ctx, k)

        m = getattr(self, 'st_' + type(s).__name__, None)
        if m is None:
            self.refuse(s, 'statement kind %s is outside the subset' % type(s).__name__)
        return m(s, env, ctx, cont, rest)

    def st_Pass(self, s, env, ctx, cont, rest):
        return cont(env)

    def st_FunctionDef(self, s, env, ctx, cont, rest):
        """a local nullary generator `def g(): ...` whose only use is `return g()`: its body is translated in place
        of that return, producing the list of the yielded items"""
        a = s.args
        if a.args or a.vararg or a.kwarg or a.kwonlyargs or a.posonlyargs or s.decorator_list:
            self.refuse(s, 'nested function with parameters or decorators')
        if not contains(s.body, (ast.Yield, ast.YieldFrom)):
            self.refuse(s, 'nested function that is not a generator')
        if s.name in assigned_names(s.body):
            self.refuse(s, 'nested generator rebinding its own name')
        env2 = dict(env)
        env2[s.name] = Var(s.name, ('localgen', s), param=False)
        return cont(env2)

    def st_Return(self, s, env, ctx, cont, rest):
        ctx.escaped = True
        v = s.value
        if isinstance(v, ast.Call) and isinstance(v.func, ast.Name) and v.func.id in env \
                and env[v.func.id].ty[0] == 'localgen' and not v.args and not v.keywords:
            g = env[v.func.id].ty[1]
            if self.is_gen or self.t.ret[0] != 'list' or ctx.brk is not None:
                self.refuse(s, 'return of a local generator in this position')
            # the body runs with the variables as they are at this point (closures capture by reference, and the
            # call happens here); it must not rebind captured variables
            captured = [n for n in assigned_names(g.body) if n in env and n != OUT]
            if captured:
                self.refuse(g, 'local generator assigns captured variables %r' % captured)
            self.is_gen = True
            env2 = dict(env)
            env2[OUT] = Var(OUT, self.t.ret, fresh=True)
            body = self.tr_stmts(strip_doc(g.body), env2, ctx, lambda env_: ctx.ret(None, env_))
            self.is_gen = False
            return 'let %s : %s := []\n%s' % (OUT, lean_type(self.t.ret), body)
        e = self.tr_expr(s.value, env) if s.value is not None else None
        return ctx.ret(e, env)

    def st_Raise(self, s, env, ctx, cont, rest):
        ctx.escaped = True
        exc = s.exc
        args = []
        if isinstance(exc, ast.Call):
            args = list(exc.args) + [k.value for k in exc.keywords]
            exc = exc.func
        # the message arguments carry no behaviour we model, but they are evaluated: they must be pure
        for a in args:
            if self.pure_message(a, env):
                continue
            if self.tr_expr(a, env).binds:
                self.refuse(s, 'argument of the raised exception may itself raise')
        if isinstance(exc, ast.Name) and exc.id in env and env[exc.id].ty == ('named', 'Yaql.Py.Err'):
            return ctx.raise_(env[exc.id].lean)          # `raise exception_cls(...)`: the class is a parameter
        return ctx.raise_(self.err_text(s))

    def pure_message(self, n, env):
        """an exception message the translation need not model (the exception CLASS is the observation) and that cannot
        raise on its own: a string constant, `<constant>.format(<variables / constants>)`, `str(x)` / `repr(x)`, and
        `+` between such parts that the translator types as strings"""
        if isinstance(n, ast.Constant):
            return isinstance(n.value, str)
        if isinstance(n, ast.BinOp) and isinstance(n.op, ast.Add):
            for side in (n.left, n.right):
                if self.pure_message(side, env):
                    continue
                try:
                    e = self.tr_expr(side, env)
                except Refuse:
                    return False
                if e.ty != STR or e.binds:
                    return False
            return True
        if isinstance(n, ast.Call) and not n.keywords:
            simple = lambda x: isinstance(x, ast.Constant) or (isinstance(x, ast.Name) and (x.id in env or self.const_of(x.id) is not None))  # noqa
            if isinstance(n.func, ast.Attribute) and n.func.attr == 'format' and isinstance(n.func.value, ast.Constant) \
                    and isinstance(n.func.value.value, str):
                return all(simple(x) for x in n.args)
            if isinstance(n.func, ast.Name) and n.func.id in ('str', 'repr') and n.func.id not in env:
                return len(n.args) == 1 and simple(n.args[0])
        return False

    def st_Break(self, s, env, ctx, cont, rest):
        if ctx.brk is None:
            self.refuse(s, 'break outside a loop')
        ctx.escaped = True
        return ctx.brk(env)

    def st_Continue(self, s, env, ctx, cont, rest):
        if ctx.cont is None:
            self.refuse(s, 'continue outside a loop')
        ctx.escaped = True
        return ctx.cont(env)

    def bind_var(self, env, name, e, node):
        """env with `name` bound to the value of e; returns (env2, lean binder text)"""
        if name in self.t.locals and (name not in env or env[name].ty == self.t.locals[name]):
            e2 = self.coerce(e, self.t.locals[name], node)
            e.text, e.ty = e2.text, e2.ty
        if e.ty == NONE:
            self.refuse(node, 'cannot infer the type of a variable bound to None (assign a typed value first)')
        if e.ty[0] == 'list' and e.ty[1] is None:
            self.refuse(node, 'cannot infer the element type of an empty list literal')
        env2 = dict(env)
        old = env.get(name)
        v = Var(lean_ident(name), e.ty, param=False, fresh=e.fresh)
        if old is not None and old.ty != e.ty:
            if self.compatible(e.ty, old.ty):
                e2 = self.coerce(e, old.ty, node)
                e.text, e.ty = e2.text, e2.ty
                v.ty = old.ty
            else:
                # a variable may change its type (Python is dynamic); later uses see the new one
                pass
        env2[name] = v
        return env2, v

    def st_Assign(self, s, env, ctx, cont, rest):
        if len(s.targets) != 1:
            self.refuse(s, 'chained assignment')
        return self.assign(s.targets[0], s.value, s, env, ctx, cont)

    def st_AnnAssign(self, s, env, ctx, cont, rest):
        if s.value is None:
            return cont(env)
        return self.assign(s.target, s.value, s, env, ctx, cont)

    def st_AugAssign(self, s, env, ctx, cont, rest):
        if not isinstance(s.target, ast.Name):
            self.refuse(s, 'augmented assignment to a non-name')
        load = ast.copy_location(ast.Name(id=s.target.id, ctx=ast.Load()), s.target)
        val = ast.copy_location(ast.BinOp(left=load, op=s.op, right=s.value), s)
        return self.assign(s.target, val, s, env, ctx, cont)

    def assign(self, tgt, value, s, env, ctx, cont):
        if isinstance(tgt, ast.Name):
            e = self.tr_expr(value, env)
            # aliasing: `a = b` of a mutable value makes both names non-fresh
            if isinstance(value, ast.Name) and value.id in env:
                env = dict(env)
                src = env[value.id].copy()
                src.fresh = False
                env[value.id] = src
                e.fresh = False
            env2, v = self.bind_var(env, tgt.id, e, s)
            body = 'let %s : %s := %s\n%s' % (v.lean, lean_type(v.ty), e.text, cont(env2))
            return self.with_binds(e.binds, body, ctx)
        if isinstance(tgt, (ast.Tuple, ast.List)):
            e = self.tr_expr(value, env)
            if e.ty[0] != 'tup' or len(e.ty) - 1 != len(tgt.elts):
                self.refuse(s, 'tuple unpacking of a value that is not a fixed-size tuple of the same arity')
            env2 = dict(env)
            names = []
            for el, ty in zip(tgt.elts, e.ty[1:]):
                if not isinstance(el, ast.Name):
                    self.refuse(s, 'nested unpacking target')
                env2[el.id] = Var(lean_ident(el.id), ty)
                names.append(lean_ident(el.id))
            u = self.tmp('u')
            body = 'let %s := %s\n%s%s' % (u, e.text, destruct(names, list(e.ty[1:]), u), cont(env2))
            return self.with_binds(e.binds, body, ctx)
        if isinstance(tgt, ast.Subscript) and isinstance(tgt.value, ast.Name):
            name = tgt.value.id
            v = self.lookup(name, tgt)
            if v.ty[0] != 'dict':
                self.refuse(s, 'item assignment on a non-dict')
            self.check_mutable(v, name, s)
            key = self.coerce(self.tr_expr(tgt.slice, env), v.ty[1], s)
            val = self.coerce(self.tr_expr(value, env), v.ty[2], s)
            env2 = dict(env)
            env2[name] = Var(v.lean, v.ty, fresh=True)
            body = 'let %s : %s := (Yaql.Py.dictSet %s %s %s)\n%s' % (
                v.lean, lean_type(v.ty), v.lean, key.text, val.text, cont(env2))
            return self.with_binds(key.binds + val.binds, body, ctx)
        self.refuse(s, 'assignment target outside the subset')

    def check_mutable(self, v, name, node):
        if v.param or not v.fresh:
            self.refuse(node, 'in-place mutation of %r, which may be shared with the caller or another name' % name)

    def st_Expr(self, s, env, ctx, cont, rest):
        v = s.value
        if isinstance(v, ast.Constant):
            return cont(env)                      # a stray docstring / ellipsis has no effect
        if isinstance(v, ast.Yield):
            if v.value is None:
                self.refuse(s, 'bare yield')
            out = env[OUT]
            e = self.coerce(self.tr_expr(v.value, env), out.ty[1], s)
            body = 'let %s : %s := %s ++ [%s]\n%s' % (out.lean, lean_type(out.ty), out.lean, e.text, cont(env))
            return self.with_binds(e.binds, body, ctx)
        if isinstance(v, ast.YieldFrom):
            out = env[OUT]
            e = self.coerce(self.tr_expr(v.value, env), out.ty, s)
            body = 'let %s : %s := %s ++ %s\n%s' % (out.lean, lean_type(out.ty), out.lean, e.text, cont(env))
            return self.with_binds(e.binds, body, ctx)
        if isinstance(v, ast.Call):
            # a mutating method call on a local, or a call of a checking primitive (result unit)
            if isinstance(v.func, ast.Attribute) and isinstance(v.func.value, ast.Name) and v.func.value.id in env:
                name = v.func.value.id
                var = env[name]
                prim = METHODS.get((self.kind_of(var.ty), v.func.attr))
                if prim is not None and prim.mut:
                    self.check_mutable(var, name, s)
                    e = self.call_prim(prim, v, env, recv=E(var.lean, var.ty))
                    env2 = dict(env)
                    env2[name] = Var(var.lean, var.ty, fresh=True)
                    body = 'let %s : %s := %s\n%s' % (var.lean, lean_type(var.ty), e.text, cont(env2))
                    return self.with_binds(e.binds, body, ctx)
            e = self.tr_expr(v, env)
            if e.ty != UNIT:
                self.refuse(s, 'expression statement whose value (type %s) is dropped' % (e.ty,))
            return self.with_binds(e.binds, cont(env), ctx)
        self.refuse(s, 'expression statement outside the subset')

    def st_Assert(self, s, env, ctx, cont, rest):
        self.refuse(s, 'assert is outside the subset')

    # -- if
    def is_none_node(self, node, env):
        if isinstance(node, ast.Constant) and node.value is None:
            return True
        d = self.dotted(node)
        if d is not None and d.split('.')[0] not in env:
            c = self.const_of(d)
            return c is not None and T(c[1]) == NONE
        return False

    def narrowing(self, test, env):
        """`x is None` / `x is not None` on an optional local: (name, positive?) or None"""
        if isinstance(test, ast.Compare) and len(test.ops) == 1 and isinstance(test.left, ast.Name) \
                and self.is_none_node(test.comparators[0], env) \
                and isinstance(test.ops[0], (ast.Is, ast.IsNot)) and test.left.id in env \
                and env[test.left.id].ty[0] == 'opt':
            return test.left.id, isinstance(test.ops[0], ast.Is)
        return None

    def isinstance_narrowing(self, test, env):
        """`isinstance(x, C) [and isinstance(y, D) ...]` on locals of a universe with a `narrow` table ->
        [(name, constructor pattern, narrowed type)] or None"""
        tests = test.values if isinstance(test, ast.BoolOp) and isinstance(test.op, ast.And) else [test]
        out = []
        for t in tests:
            if not (isinstance(t, ast.Call) and isinstance(t.func, ast.Name) and t.func.id == 'isinstance'
                    and len(t.args) == 2 and not t.keywords and isinstance(t.args[0], ast.Name)
                    and t.args[0].id in env and env[t.args[0].id].ty[0] == 'named'):
                return None
            name = t.args[0].id
            uni = self.universes.get(env[name].ty[1], {})
            cls = self.dotted(t.args[1])
            if cls is None or cls not in uni.get('narrow', {}) or any(name == o[0] for o in out):
                return None
            ctor, ty = uni['narrow'][cls]
            out.append((name, ctor, T(ty)))
        return out or None

    def st_If(self, s, env, ctx, cont, rest):
        nar = self.narrowing(s.test, env)
        if nar is not None:
            return self.if_none(s, nar, env, ctx, cont)
        inar = self.isinstance_narrowing(s.test, env)
        if inar is not None:
            # match x, y with | C x, D y => body (x, y narrowed) | _, _ => orelse
            env_yes = dict(env)
            for name, ctor, ty in inar:
                v = env[name]
                env_yes[name] = Var(v.lean, ty, param=v.param, fresh=v.fresh)
            a = self.tr_stmts(s.body, env_yes, ctx, cont)
            b = self.tr_stmts(s.orelse, env, ctx, cont)
            return 'match %s with\n| %s => %s\n| %s => %s' % (
                ', '.join(env[n].lean for n, _, _ in inar),
                ', '.join('%s %s' % (ctor, env[n].lean) for n, ctor, _ in inar), block(a),
                ', '.join('_' for _ in inar), block(b))
        try:
            saved = (self.ntmp, self.size)
            binds, cond = self.tr_cond(s.test, env)
        except Refuse as e:
            if 'short-circuit position' not in e.why or not isinstance(s.test, (ast.BoolOp, ast.UnaryOp)):
                raise
            # an operand of and/or/not may raise: evaluate the operands one by one, as Python does
            self.ntmp, self.size = saved
            return self.tr_stmts(self.split_cond(s.test, s.body, s.orelse, s), env, ctx, cont)
        if cond in ('(true = true)', '(false = true)') and not binds:
            # statically decided by the typing entry: only the live branch is translated
            live = s.body if cond == '(true = true)' else s.orelse
            return self.tr_stmts(live, env, ctx, cont)
        # 1st try: no branch leaves -> join the assigned variables
        text = self.if_join(s, cond, env, ctx, cont)
        if text is None:
            # some branch leaves (return/raise/break/continue/partial expression): the continuation is duplicated
            a = self.tr_stmts(s.body, env, ctx, cont)
            b = self.tr_stmts(s.orelse, env, ctx, cont)
            text = 'if %s then %s\nelse %s' % (cond, block(a), block(b))
        return self.with_binds(binds, text, ctx)

    def split_cond(self, test, then, orelse, at):
        """`if test: then else: orelse` with and/or/not unfolded into nested ifs on the operands (same meaning:
        this IS the short-circuit evaluation order); the branches are duplicated"""
        def mk(t, a, b):
            return [ast.copy_location(ast.If(test=t, body=a or [ast.copy_location(ast.Pass(), at)],
                                             orelse=b), at)]
        if isinstance(test, ast.UnaryOp) and isinstance(test.op, ast.Not):
            return self.split_cond(test.operand, orelse or [ast.copy_location(ast.Pass(), at)], then, at)
        if isinstance(test, ast.BoolOp):
            first, restv = test.values[0], test.values[1:]
            rest = restv[0] if len(restv) == 1 else ast.copy_location(ast.BoolOp(op=test.op, values=restv), test)
            if isinstance(test.op, ast.And):
                return self.split_cond(first, self.split_cond(rest, then, orelse, at), orelse, at)
            return self.split_cond(first, then, self.split_cond(rest, then, orelse, at), at)
        return mk(test, then, orelse)

    def if_join(self, s, cond, env, ctx, cont):
        probe = Ctx(lambda e, env_: '', lambda t: '', (lambda env_: '') if ctx.brk else None,
                    (lambda env_: '') if ctx.cont else None, ans_ty=ctx.ans_ty)
        names = [n for n in assigned_names(s.body + s.orelse)]
        saved = (self.ntmp, self.size)
        ends = []

        def fin(env_):
            self.njoin = getattr(self, 'njoin', 0) + 1
            ends.append((self.njoin, env_))
            return '<<JOIN%d>>' % self.njoin

        a = self.tr_stmts(s.body, env, probe, fin)
        b = self.tr_stmts(s.orelse, env, probe, fin)
        if probe.escaped:
            self.ntmp, self.size = saved
            return None
        # joined variables: assigned in a branch and defined at every end of both branches
        jn = [n for n in names if all(n in e for _, e in ends)]
        dropped = [n for n in names if n not in jn]
        env2 = dict(env)
        for n in dropped:
            env2.pop(n, None)          # defined on one path only: any later use is refused as unknown
        vars_ = []
        for n in jn:
            ty = ends[0][1][n].ty
            for _, e in ends[1:]:
                ty = self.join_types(ty, e[n].ty, s)
            vars_.append((n, ty))
            env2[n] = Var(lean_ident(n), ty, param=False,
                          fresh=all(e[n].fresh and not e[n].param for _, e in ends))
        if not vars_:
            # the branches have no effect on later code (possible only for effect-free statements)
            return cont(env2)

        def tup(endenv):
            parts = []
            for n, ty in vars_:
                parts.append(self.coerce(E(endenv[n].lean, endenv[n].ty), ty, s).text)
            return parts[0] if len(parts) == 1 else '(%s)' % ', '.join(parts)

        for k, e in ends:
            a = a.replace('<<JOIN%d>>' % k, tup(e))
            b = b.replace('<<JOIN%d>>' % k, tup(e))
        if len(vars_) == 1:
            n, ty = vars_[0]
            pat = '%s : %s' % (lean_ident(n), lean_type(ty))
            return 'let %s := if %s then %s else %s\n%s' % (pat, cond, block(a), block(b), cont(env2))
        j = self.tmp('j')
        return 'let %s := if %s then %s else %s\n%s%s' % (
            j, cond, block(a), block(b),
            destruct([lean_ident(n) for n, _ in vars_], [ty for _, ty in vars_], j), cont(env2))

    def if_none(self, s, nar, env, ctx, cont):
        """if x is None: A else: B   ->   match x with | none => A | some x => B   (x narrowed in B)"""
        name, is_none = nar
        var = env[name]
        env_some = dict(env)
        env_some[name] = Var(var.lean, var.ty[1], param=var.param, fresh=var.fresh)
        none_body, some_body = (s.body, s.orelse) if is_none else (s.orelse, s.body)

        # after the `if`, the variable is narrowed only if the none-branch always leaves; to keep the
        # translation simple the continuation is duplicated into both arms (each arm sees its own type)
        def cont_none(env_):
            return cont(env_)

        def cont_some(env_):
            return cont(env_)

        a = self.tr_stmts(none_body, env, ctx, cont_none)
        b = self.tr_stmts(some_body, env_some, ctx, cont_some)
        return 'match %s with\n| none => %s\n| some %s => %s' % (var.lean, block(a), var.lean, block(b))

    # -- loops
    def st_For(self, s, env, ctx, cont, rest):
        if s.orelse:
            self.refuse(s, 'for ... else')
        it = self.tr_iter(s.iter, env)
        ety = elem_type(it.ty)
        tvars = self.loop_target(s.target, ety)          # [(python name, type, projection)]
        body_assigned = assigned_names(s.body)
        tnames = [n for n, _, _ in tvars]
        if len(set(tnames)) != len(tnames):
            self.refuse(s.target, 'a name occurs twice in the loop target')
        state = [n for n in body_assigned if n in env and n not in tnames]
        # a loop target that exists before the loop keeps its last value afterwards
        carried_targets = [n for n in tnames if n in env]
        state_all = carried_targets + state
        st_names = [lean_ident(n) for n in state_all]
        st_types = [env[n].ty for n in state_all]

        def st_tuple(env_):
            parts = [env_[n].lean for n in state_all]
            if not parts:
                return '()'
            return parts[0] if len(parts) == 1 else '(%s)' % ', '.join(parts)

        st_lean_ty = 'Unit' if not st_types else (lean_type(st_types[0]) if len(st_types) == 1 else
                                                  ' × '.join(lean_type(t, False) for t in st_types))
        # inside the body: state variables keep their (pre-loop) types; the target variables are bound per element
        env_body = dict(env)
        for n in state_all:
            v = env[n].copy()
            v.param = False
            env_body[n] = v
        for n, ty, _ in tvars:
            env_body[n] = Var(lean_ident(n), ty)
        sv, ev = self.tmp('s'), self.tmp('x')
        prologue = destruct(st_names, st_types, sv) if state_all else ''
        # the element's components are bound AFTER the state, as the loop assigns its target at the top of each round
        prologue += ''.join('let %s : %s := %s%s\n' % (lean_ident(n), lean_type(ty), ev, pr) for n, ty, pr in tvars)
        lam = 'fun %s %s =>' % ('(%s : %s)' % (sv, st_lean_ty), '(%s : %s)' % (ev, lean_type(ety)))

        def check_types(env_):
            for n in state_all:
                if n not in env_:
                    self.refuse(s, 'loop state variable %r is undefined at the end of the body' % n)
                if env_[n].ty != env[n].ty:
                    self.refuse(s, 'loop state variable %r changes its type in the body (%s -> %s)' % (
                        n, env[n].ty, env_[n].ty))

        saved = (self.ntmp, self.size)
        # 1st try: the body never leaves the loop -> a fold
        probe = Ctx(lambda e, env_: '', lambda t: '', lambda env_: '', lambda env_: '', ans_ty=ctx.ans_ty)

        def fin_fold(env_):
            check_types(env_)
            return st_tuple(env_)

        body = self.tr_stmts(s.body, env_body, probe, fin_fold)
        env_after = dict(env)
        for n in state_all:
            v = env[n].copy()
            v.param = False
            env_after[n] = v
        for n in body_assigned + tnames:
            if n not in state_all:
                env_after.pop(n, None)        # bound only inside the body: not visible afterwards
        if not probe.escaped:
            if not state_all:
                return self.with_binds(it.binds, cont(env_after), ctx)   # no state, no exits: no effect
            loop = '(List.foldl (%s\n%s) %s %s)' % (lam, indent(prologue + body, 4), st_tuple(env), it.text)
            r = self.tmp('r')
            text = 'let %s : %s := %s\n%s%s' % (r, st_lean_ty, loop, destruct(st_names, st_types, r), cont(env_after))
            return self.with_binds(it.binds, text, ctx)
        self.ntmp, self.size = saved
        sv, ev = self.tmp('s'), self.tmp('x')
        prologue = destruct(st_names, st_types, sv) if state_all else ''
        prologue += ''.join('let %s : %s := %s%s\n' % (lean_ident(n), lean_type(ty), ev, pr) for n, ty, pr in tvars)
        lam = 'fun %s %s =>' % ('(%s : %s)' % (sv, st_lean_ty), '(%s : %s)' % (ev, lean_type(ety)))
        # general form: the body answers with a Step
        ret_ty = ctx.ans_ty
        lctx = Ctx(lambda e, env_: '(Yaql.Py.Step.ret %s)' % block(ctx.ret(e, env_)),
                   lambda t: '(Yaql.Py.Step.ret %s)' % block(ctx.raise_(t)),
                   lambda env_: (check_types(env_), '(Yaql.Py.Step.brk %s)' % st_tuple(env_))[1],
                   lambda env_: (check_types(env_), '(Yaql.Py.Step.next %s)' % st_tuple(env_))[1],
                   ans_ty='(Yaql.Py.Step (%s) %s)' % (st_lean_ty, ret_ty))

        def fin_step(env_):
            check_types(env_)
            return '(Yaql.Py.Step.next %s)' % st_tuple(env_)

        body = self.tr_stmts(s.body, env_body, lctx, fin_step)
        ctx.escaped = True
        loop = '(Yaql.Py.forLoop %s %s (%s\n%s) : Yaql.Py.Loop %s %s)' % (
            it.text, st_tuple(env), lam, indent(prologue + body, 4), '(' + st_lean_ty + ')', ret_ty)
        # a `return` inside the loop has already been rendered by ctx.ret as the function's (or the outer
        # loop's) way of leaving: the value is passed through unchanged
        r = self.tmp('r')
        after = (destruct(st_names, st_types, r) if state_all else '') + cont(env_after)
        text = 'match %s with\n| .ret r__ => r__\n| .done %s => %s' % (loop, r if state_all else '_', block(after))
        return self.with_binds(it.binds, text, ctx)

    def loop_target(self, tgt, ety, proj=''):
        """-> [(python name, type, projection from the element)]"""
        if isinstance(tgt, ast.Name):
            return [(tgt.id, ety, proj)]
        if isinstance(tgt, (ast.Tuple, ast.List)):
            if ety[0] != 'tup' or len(ety) - 1 != len(tgt.elts):
                self.refuse(tgt, 'loop target does not match the element type %s' % (ety,))
            out = []
            for el, ty, pr in zip(tgt.elts, ety[1:], projections(len(tgt.elts))):
                out += self.loop_target(el, ty, proj + pr)
            return out
        self.refuse(tgt, 'loop target outside the subset')

    def tr_iter(self, node, env):
        """the iterated expression as a list"""
        e = self.tr_expr(node, env)
        if e.ty[0] == 'dict':
            return E('(Yaql.Py.dictKeys %s)' % e.text, ('list', e.ty[1]), e.binds)
        if not is_seq(e.ty):
            self.refuse(node, 'iteration over a value of type %s' % (e.ty,))
        return e

    def st_While(self, s, env, ctx, cont, rest):
        if not self.t.fuel:
            self.refuse(s, 'while needs a fuel argument (declare fuel=True, raises=True in the typing entry)')
        if s.orelse:
            self.refuse(s, 'while ... else')
        body_assigned = assigned_names(s.body)
        state_all = [n for n in body_assigned if n in env]
        st_names = [lean_ident(n) for n in state_all]
        st_types = [env[n].ty for n in state_all]

        def st_tuple(env_):
            parts = [env_[n].lean for n in state_all]
            if not parts:
                return '()'
            return parts[0] if len(parts) == 1 else '(%s)' % ', '.join(parts)

        st_lean_ty = 'Unit' if not st_types else (lean_type(st_types[0]) if len(st_types) == 1 else
                                                  ' × '.join(lean_type(t, False) for t in st_types))
        env_body = dict(env)
        for n in state_all:
            v = env[n].copy()
            v.param = False
            env_body[n] = v

        def check_types(env_):
            for n in state_all:
                if n not in env_:
                    self.refuse(s, 'loop state variable %r is undefined at the end of the body' % n)
                if env_[n].ty != env[n].ty:
                    self.refuse(s, 'loop state variable %r changes its type in the body (%s -> %s)' % (
                        n, env[n].ty, env_[n].ty))

        sv = self.tmp('s')
        prologue = destruct(st_names, st_types, sv) if state_all else ''
        try:
            cbinds, cond = self.tr_cond(s.test, env_body)
        except Refuse as e:
            if 'short-circuit position' not in e.why:
                raise
            cbinds = [1]
        if cbinds:
            if getattr(s, '_split', False):
                self.refuse(s.test, 'loop condition that may raise')
            # while C: B   ==   while True: (if C: B else: break), with C evaluated operand by operand
            brk = [ast.copy_location(ast.Break(), s)]
            w = ast.copy_location(ast.While(test=ast.copy_location(ast.Constant(value=True), s),
                                            body=self.split_cond(s.test, s.body, brk, s), orelse=[]), s)
            w._split = True
            return self.st_While(w, env, ctx, cont, rest)
        ret_ty = ctx.ans_ty
        lctx = Ctx(lambda e, env_: '(Yaql.Py.Step.ret %s)' % block(ctx.ret(e, env_)),
                   lambda t: '(Yaql.Py.Step.ret %s)' % block(ctx.raise_(t)),
                   lambda env_: (check_types(env_), '(Yaql.Py.Step.brk %s)' % st_tuple(env_))[1],
                   lambda env_: (check_types(env_), '(Yaql.Py.Step.next %s)' % st_tuple(env_))[1],
                   ans_ty='(Yaql.Py.Step (%s) %s)' % (st_lean_ty, ret_ty))

        def fin_step(env_):
            check_types(env_)
            return '(Yaql.Py.Step.next %s)' % st_tuple(env_)

        body = self.tr_stmts(s.body, env_body, lctx, fin_step)
        ctx.escaped = True
        env_after = dict(env)
        for n in state_all:
            v = env[n].copy()
            v.param = False
            env_after[n] = v
        for n in body_assigned:
            if n not in state_all:
                env_after.pop(n, None)
        binder = '(%s : %s)' % (sv, st_lean_ty)
        loop = ('(Yaql.Py.whileLoop fuel %s\n    (fun %s =>\n%s)\n    (fun %s =>\n%s) : Option (Yaql.Py.Loop %s %s))' % (
            st_tuple(env), binder, indent(prologue + '(decide %s)' % cond, 6), binder, indent(prologue + body, 6),
            '(' + st_lean_ty + ')', ret_ty))
        r = self.tmp('r')
        after = (destruct(st_names, st_types, r) if state_all else '') + cont(env_after)
        return 'match %s with\n| none => %s\n| some (.ret r__) => r__\n| some (.done %s) => %s' % (
            loop, ctx.raise_('.fuel'), r if state_all else '_', block(after))

    # ------------------------------------------------------------------ expressions

    def lookup(self, name, node):
        return self.lookup_in(name, node, None)

    def lookup_in(self, name, node, env):
        if env is not None and name in env:
            return env[name]
        self.refuse(node, 'unknown variable %r (not a parameter/local on every path, or an unmodelled global)' % name)

    def kind_of(self, ty):
        return ty[1] if ty[0] == 'named' else ty[0]

    def tr_expr(self, node, env):
        self.budget(node)
        m = getattr(self, 'ex_' + type(node).__name__, None)
        if m is None:
            self.refuse(node, 'expression kind %s is outside the subset' % type(node).__name__)
        return m(node, env)

    def ex_Constant(self, n, env):
        v = n.value
        if v is None:
            return E('none', NONE)
        if v is True or v is False:
            return E('true' if v else 'false', BOOL)
        if isinstance(v, int):
            return E(str(v) if v >= 0 else '(%d)' % v, INT)
        if isinstance(v, str):
            return E(lean_str_lit(v), STR)
        self.refuse(n, 'constant of type %s' % type(v).__name__)

    def dotted(self, n):
        if isinstance(n, ast.Name):
            return n.id
        if isinstance(n, ast.Attribute):
            d = self.dotted(n.value)
            return d + '.' + n.attr if d else None
        return None

    def ex_Name(self, n, env):
        if n.id in env:
            v = env[n.id]
            return E(v.lean, v.ty, fresh=False)
        c = self.const_of(n.id)
        if c is not None:
            return E(c[0], T(c[1]))
        return E(self.lookup_in(n.id, n, env).lean, None)

    def const_of(self, dotted):
        if dotted in self.t.consts:
            return self.t.consts[dotted]
        return GLOBAL_CONSTS.get(dotted)

    def ex_Attribute(self, n, env):
        d = self.dotted(n)
        if d is not None and d.split('.')[0] not in env and self.const_of(d) is not None:
            txt, ty = self.const_of(d)
            return E(txt, T(ty))
        # field of a named structure: declared per universe
        recv = self.tr_expr(n.value, env)
        if recv.ty[0] == 'named':
            uni = self.universes.get(recv.ty[1], {})
            fld = uni.get('fields', {}).get(n.attr)
            if fld is not None:
                txt, ty = fld
                return E(txt.format(self=recv.text), T(ty), recv.binds)
        self.refuse(n, 'attribute access outside the subset')

    def ex_Tuple(self, n, env):
        es = [self.tr_expr(x, env) for x in n.elts]
        if any(isinstance(x, ast.Starred) for x in n.elts):
            self.refuse(n, 'starred element')
        binds = [b for e in es for b in e.binds]
        if not es:
            return E('[]', ('list', None), fresh=True)
        if len(es) == 1:
            return E('[%s]' % es[0].text, ('list', es[0].ty), binds, fresh=True)
        r = E('(%s)' % ', '.join(e.text for e in es), ('tup',) + tuple(e.ty for e in es), binds)
        r.parts = es
        return r

    def ex_List(self, n, env):
        if any(isinstance(x, ast.Starred) for x in n.elts):
            self.refuse(n, 'starred element')
        es = [self.tr_expr(x, env) for x in n.elts]
        binds = [b for e in es for b in e.binds]
        if not es:
            return E('[]', ('list', None), fresh=True)
        ty = es[0].ty
        for e in es[1:]:
            ty = self.join_types(ty, e.ty, n)
        es = [self.coerce(e, ty, n) for e in es]
        return E('[%s]' % ', '.join(e.text for e in es), ('list', ty), binds, fresh=True)

    def ex_UnaryOp(self, n, env):
        if isinstance(n.op, ast.Not):
            b, c = self.tr_cond(n, env)
            return E('(decide %s)' % c, BOOL, b)
        e = self.tr_expr(n.operand, env)
        if isinstance(n.op, ast.USub):
            if isinstance(n.operand, ast.Constant) and isinstance(n.operand.value, int) \
                    and not isinstance(n.operand.value, bool):
                return E('(-%d)' % n.operand.value, INT)
            if e.ty == INT:
                return E('(-%s)' % e.text, INT, e.binds)
        if isinstance(n.op, ast.UAdd) and e.ty == INT:
            return e
        if isinstance(n.op, ast.Invert) and e.ty == INT:
            return E('(Int.not %s)' % e.text, INT, e.binds)
        op = self.named_op(type(n.op).__name__, [e], n)
        if op is not None:
            return op
        self.refuse(n, 'unary operator on type %s' % (e.ty,))

    def named_op(self, opname, es, node):
        """operator on a named (closed-universe) type: looked up in the universe table"""
        for e in es:
            if e.ty is not None and e.ty[0] == 'named':
                uni = self.universes.get(e.ty[1], {})
                spec = uni.get('ops', {}).get(opname)
                if isinstance(spec, list):
                    # overloads: the first whose parameter types fit the operands
                    spec = next((sp for sp in spec if len(sp.args) == len(es) and all(
                        pt is None or self.compatible(x.ty, pt) for pt, x in zip(sp.args, es))), None)
                if spec is not None:
                    return self.apply_prim(spec, es, node)
        return None

    def ex_BinOp(self, n, env):
        a, b = self.tr_expr(n.left, env), self.tr_expr(n.right, env)
        binds = a.binds + b.binds
        op = type(n.op).__name__
        ta, tb = a.ty, b.ty
        if ta == INT and tb == INT:
            if op in ('Add', 'Sub', 'Mult'):
                return E('(%s %s %s)' % (a.text, {'Add': '+', 'Sub': '-', 'Mult': '*'}[op], b.text), INT, binds)
            if op in ('FloorDiv', 'Mod'):
                fn = {'FloorDiv': 'floordiv', 'Mod': 'mod'}[op]
                if isinstance(n.right, ast.Constant) and isinstance(n.right.value, int) and n.right.value != 0:
                    return E('(Yaql.Py.%s %s %s)' % (fn, a.text, b.text), INT, binds)
                t = self.tmp()
                return E(t, INT, binds + [(t, '(Yaql.Py.%s? %s %s)' % (fn, a.text, b.text))])
            if op in ('BitAnd', 'BitOr', 'BitXor'):
                fn = {'BitAnd': 'Int.land', 'BitOr': 'Int.lor', 'BitXor': 'Int.xor'}[op]
                return E('(%s %s %s)' % (fn, a.text, b.text), INT, binds)
            if op in ('LShift', 'RShift'):
                fn = {'LShift': 'shl?', 'RShift': 'shr?'}[op]
                t = self.tmp()
                return E(t, INT, binds + [(t, '(Yaql.Py.%s %s %s)' % (fn, a.text, b.text))])
        if op == 'Add' and is_seq(ta) and (self.compatible(tb, ta) or self.compatible(ta, tb)):
            ty = ta if not (ta[0] == 'list' and ta[1] is None) else tb
            a2, b2 = self.coerce(a, ty, n), self.coerce(b, ty, n)
            return E('(%s ++ %s)' % (a2.text, b2.text), ty, binds, fresh=True)
        if op == 'Mult' and is_seq(ta) and tb == INT:
            return E('(Yaql.Py.repeat_ %s %s)' % (a.text, b.text), ta, binds, fresh=True)
        if op == 'Mult' and ta == INT and is_seq(tb):
            return E('(Yaql.Py.repeat_ %s %s)' % (b.text, a.text), tb, binds, fresh=True)
        r = self.named_op(op, [a, b], n)
        if r is not None:
            return r
        self.refuse(n, 'operator %s on types %s, %s' % (op, ta, tb))

    def ex_BoolOp(self, n, env):
        es = [self.tr_expr(v, env) for v in n.values]
        if all(e.ty == BOOL for e in es):
            b, c = self.tr_cond(n, env)
            return E('(decide %s)' % c, BOOL, b)
        # `a or b` / `a and b` on non-booleans return an operand
        ty = es[0].ty
        for e in es[1:]:
            ty = self.join_types(ty, e.ty, n)
        es = [self.coerce(e, ty, n) for e in es]
        for e in es[1:]:
            if e.binds:
                self.refuse(n, 'operand of and/or that may raise (short-circuit position)')
        text = es[-1].text
        for e in reversed(es[:-1]):
            tr = self.truthy(e.text, ty, n)
            if isinstance(n.op, ast.Or):
                text = '(if %s then %s else %s)' % (tr, e.text, text)
            else:
                text = '(if %s then %s else %s)' % (tr, text, e.text)
        return E(text, ty, es[0].binds)

    def truthy(self, text, ty, node):
        """Prop text of `bool(x)`"""
        if ty == BOOL:
            return '(%s = true)' % text
        if ty == INT:
            return '(%s ≠ 0)' % text
        if ty[0] in ('str', 'list', 'dict'):
            return '(%s ≠ [])' % text
        if ty[0] == 'opt':
            inner = ty[1]
            if inner[0] in ('str', 'list', 'dict'):
                return '(%s ≠ none ∧ %s ≠ some [])' % (text, text)
            if inner == INT:
                return '(%s ≠ none ∧ %s ≠ some 0)' % (text, text)
            if inner[0] == 'named':
                uni = self.universes.get(inner[1], {})
                if uni.get('always_true'):
                    return '(%s ≠ none)' % text
        if ty[0] == 'named':
            uni = self.universes.get(ty[1], {})
            if 'truthy' in uni:
                return '(%s = true)' % uni['truthy'].format(text)
        self.refuse(node, 'truthiness of a value of type %s' % (ty,))

    def tr_cond(self, node, env):
        """-> (binds, Prop text)"""
        self.budget(node)
        if isinstance(node, ast.UnaryOp) and isinstance(node.op, ast.Not):
            b, c = self.tr_cond(node.operand, env)
            if c in ('(true = true)', '(false = true)'):       # statically decided
                return b, '(false = true)' if c == '(true = true)' else '(true = true)'
            return b, '(¬ %s)' % c
        if isinstance(node, ast.BoolOp) and len(node.values) >= 2:
            nar = self.narrowing(node.values[0], env)
            # `x is None or P(x)` / `x is not None and P(x)`: P sees x narrowed
            if nar is not None and nar[1] == isinstance(node.op, ast.Or):
                name = nar[0]
                var = env[name]
                env2 = dict(env)
                env2[name] = Var(var.lean, var.ty[1], param=var.param, fresh=var.fresh)
                restn = node.values[1] if len(node.values) == 2 else ast.copy_location(
                    ast.BoolOp(op=node.op, values=node.values[1:]), node)
                b, c = self.tr_cond(restn, env2)
                if b:
                    self.refuse(node, 'operand of and/or that may raise (short-circuit position)')
                dflt = 'true' if isinstance(node.op, ast.Or) else 'false'
                return [], '((match %s with | none => %s | some %s => %s) = true)' % (
                    var.lean, dflt, var.lean, self.bool_of(c))
        if isinstance(node, ast.BoolOp):
            parts = [self.tr_cond(v, env) for v in node.values]
            for b, _ in parts[1:]:
                if b:
                    self.refuse(node, 'operand of and/or that may raise (short-circuit position)')
            conds = [c for _, c in parts]
            if isinstance(node.op, ast.And):
                if '(false = true)' in conds:
                    return parts[0][0], '(false = true)'
                conds = [c for c in conds if c != '(true = true)'] or ['(true = true)']
            else:
                if '(true = true)' in conds:
                    return parts[0][0], '(true = true)'
                conds = [c for c in conds if c != '(false = true)'] or ['(false = true)']
            if len(conds) == 1:
                return parts[0][0], conds[0]
            op = ' ∧ ' if isinstance(node.op, ast.And) else ' ∨ '
            return parts[0][0], '(%s)' % op.join(conds)
        if isinstance(node, ast.Compare):
            return self.tr_compare(node, env)
        e = self.tr_expr(node, env)
        return e.binds, self.truthy(e.text, e.ty, node)

    def tr_compare(self, n, env):
        operands = [n.left] + list(n.comparators)
        es = [self.tr_expr(x, env) for x in operands]
        binds = [b for e in es for b in e.binds]
        if len(es) > 2 and any(e.binds for e in es[1:]):
            self.refuse(n, 'chained comparison with an operand that may raise')
        parts = []
        self._cmp_binds = []
        for (a, op, b, na, nb) in zip(es, n.ops, es[1:], operands, operands[1:]):
            parts.append(self.cmp1(a, op, b, n))
        if self._cmp_binds and len(parts) > 1:
            self.refuse(n, 'chained comparison with a comparison that may raise')
        binds = binds + self._cmp_binds
        self._cmp_binds = []
        return binds, parts[0] if len(parts) == 1 else '(%s)' % ' ∧ '.join(parts)

    def cmp1(self, a, op, b, n):
        o = type(op).__name__
        if o in ('Is', 'IsNot'):
            if b.ty == NONE and a.ty is not None and a.ty[0] == 'opt':
                return '(%s = none)' % a.text if o == 'Is' else '(%s ≠ none)' % a.text
            if b.ty == BOOL and a.ty == BOOL:
                return '(%s = %s)' % (a.text, b.text) if o == 'Is' else '(%s ≠ %s)' % (a.text, b.text)
            if a.ty is not None and a.ty[0] == 'named' and b.text in ('true', 'false', 'none'):
                tmpl = self.universes.get(a.ty[1], {}).get('is_const', {}).get(b.text)
                if tmpl is not None:
                    return '(%s = %s)' % (tmpl.format(a.text), 'true' if o == 'Is' else 'false')
            r = self.named_op(o, [a, b], n)
            if r is not None:
                return '(%s = true)' % r.text
            self.refuse(n, '`is` on types %s, %s' % (a.ty, b.ty))
        if o in ('In', 'NotIn'):
            r = self.contains_expr(a, b, n)
            return '(%s = true)' % r if o == 'In' else '(%s = false)' % r
        if a.ty == INT and b.ty == INT:
            sym = {'Lt': '<', 'LtE': '≤', 'Gt': '>', 'GtE': '≥', 'Eq': '=', 'NotEq': '≠'}[o]
            return '(%s %s %s)' % (a.text, sym, b.text)
        if a.ty == STR and b.ty == STR and o in ('Lt', 'LtE', 'Gt', 'GtE'):
            fn = {'Lt': 'lt', 'LtE': 'le', 'Gt': 'gt', 'GtE': 'ge'}[o]
            return '((Yaql.PyStr.%s %s %s) = true)' % (fn, a.text, b.text)
        if o in ('Eq', 'NotEq') and self.structural_eq(a.ty) and (self.compatible(a.ty, b.ty) or
                                                                 self.compatible(b.ty, a.ty)):
            ty = self.join_types(a.ty, b.ty, n)
            a2, b2 = self.coerce(a, ty, n), self.coerce(b, ty, n)
            return '(%s %s %s)' % (a2.text, '=' if o == 'Eq' else '≠', b2.text)
        r = self.named_op(o, [a, b], n)
        if r is not None:
            # a comparison primitive that may raise: its binding is collected by tr_compare
            self._cmp_binds += r.binds
            return '(%s = true)' % r.text
        self.refuse(n, 'comparison %s on types %s, %s' % (o, a.ty, b.ty))

    def structural_eq(self, ty):
        """types on which Python `==` is Lean `=`"""
        if ty in (INT, BOOL, STR, CHAR, UNIT, NONE):
            return True
        if ty[0] in ('opt', 'list'):
            return ty[1] is None or self.structural_eq(ty[1])
        if ty[0] == 'tup':
            return all(self.structural_eq(x) for x in ty[1:])
        if ty[0] == 'named':
            return bool(self.universes.get(ty[1], {}).get('structural_eq'))
        return False

    def contains_expr(self, a, b, n):
        """Bool text of `a in b`"""
        if b.ty[0] == 'tup' and len(set(b.ty[1:])) == 1 and not b.binds:
            # a fixed-size tuple of one element type used as a collection
            b = E('[%s]' % ', '.join('%s%s' % (b.text, pr) for pr in projections(len(b.ty) - 1)), ('list', b.ty[1]))
        if b.ty == STR and a.ty == STR:
            return '(Yaql.PyStr.contains %s %s)' % (b.text, a.text)
        if b.ty[0] == 'list' and self.structural_eq(b.ty[1]):
            a2 = self.coerce(a, b.ty[1], n)
            return '(Yaql.Py.contains %s %s)' % (b.text, a2.text)
        if b.ty[0] == 'dict' and self.structural_eq(b.ty[1]):
            a2 = self.coerce(a, b.ty[1], n)
            return '(Yaql.Py.dictHas %s %s)' % (b.text, a2.text)
        if b.ty[0] == 'dict' and self.key_dict_ops(b.ty) is not None:
            a2 = self.coerce(a, b.ty[1], n)
            return self.key_dict_ops(b.ty)['has'].format(b.text, a2.text)
        if b.ty[0] == 'list' and b.ty[1] is not None and b.ty[1][0] == 'named':
            eq = self.universes.get(b.ty[1][1], {}).get('ops', {}).get('Eq')
            if eq is not None and not isinstance(eq, list):
                a2 = self.coerce(a, b.ty[1], n)
                # `x in xs`: some element equals x (python compares element == x)
                return '(List.any %s fun y__ => %s)' % (b.text, eq.lean.format('y__', a2.text))
        r = self.named_op('In', [a, b], n)
        if r is not None and not r.binds:
            return r.text
        self.refuse(n, '`in` on types %s, %s' % (a.ty, b.ty))

    def key_dict_ops(self, dty):
        """dict primitives for keys compared by a universe's own equality (`dict` entry of the key's universe)"""
        if dty[1] is not None and dty[1][0] == 'named':
            return self.universes.get(dty[1][1], {}).get('dict')
        return None

    def ex_Compare(self, n, env):
        b, c = self.tr_cond(n, env)
        return E(self.bool_of(c), BOOL, b)

    @staticmethod
    def bool_of(c):
        """Bool text of a Prop text (`(b = true)` -> `b`)"""
        if c.startswith('(') and c.endswith(' = true)') and c.count('(') == c.count(')'):
            inner = c[1:-len(' = true)')]
            depth = 0
            ok = True
            for ch in inner:
                depth += ch == '('
                depth -= ch == ')'
                if depth < 0:
                    ok = False
                    break
            if ok and depth == 0 and (inner.startswith('(') or ' ' not in inner):
                return inner
        return '(decide %s)' % c

    def ex_IfExp(self, n, env):
        binds, cond = self.tr_cond(n.test, env)
        a, b = self.tr_expr(n.body, env), self.tr_expr(n.orelse, env)
        ty = self.join_types(a.ty, b.ty, n)
        a, b = self.coerce(a, ty, n), self.coerce(b, ty, n)
        if a.binds or b.binds:
            t = self.tmp()
            pa = self.wrap_partial(a)
            pb = self.wrap_partial(b)
            return E(t, ty, binds + [(t, '(if %s then %s else %s)' % (cond, pa, pb))])
        return E('(if %s then %s else %s)' % (cond, a.text, b.text), ty, binds)

    def ex_Subscript(self, n, env):
        recv = self.tr_expr(n.value, env)
        if isinstance(n.slice, ast.Slice):
            if n.slice.step is not None:
                self.refuse(n, 'slice with a step')
            if not is_seq(recv.ty):
                self.refuse(n, 'slice of a value of type %s' % (recv.ty,))
            binds = list(recv.binds)
            parts = []
            for bnd in (n.slice.lower, n.slice.upper):
                if bnd is None:
                    parts.append('none')
                else:
                    e = self.tr_expr(bnd, env)
                    if e.ty != INT:
                        self.refuse(n, 'slice bound of type %s' % (e.ty,))
                    binds += e.binds
                    parts.append('(some %s)' % e.text)
            return E('(Yaql.Py.slice %s %s %s)' % (recv.text, parts[0], parts[1]), recv.ty, binds, fresh=True)
        idx = self.tr_expr(n.slice, env)
        binds = recv.binds + idx.binds
        if recv.ty[0] == 'tup':
            if not (isinstance(n.slice, ast.Constant) and isinstance(n.slice.value, int)):
                self.refuse(n, 'fixed-size tuple indexed by a non-constant')
            i, k = n.slice.value, len(recv.ty) - 1
            if i < 0:
                i += k
            if not 0 <= i < k:
                self.refuse(n, 'tuple index out of range')
            proj = '.2' * i + ('.1' if i < k - 1 else '')
            return E('%s%s' % (recv.text, proj), recv.ty[1 + i], binds)
        if recv.ty[0] == 'list' and idx.ty == INT:
            t = self.tmp()
            return E(t, recv.ty[1], binds + [(t, '(Yaql.Py.index %s %s)' % (recv.text, idx.text))])
        if recv.ty == STR and idx.ty == INT:
            t = self.tmp()
            return E('[%s]' % t, STR, binds + [(t, '(Yaql.Py.index %s %s)' % (recv.text, idx.text))])
        if recv.ty[0] == 'dict' and self.structural_eq(recv.ty[1]):
            key = self.coerce(idx, recv.ty[1], n)
            t = self.tmp()
            return E(t, recv.ty[2], binds + [(t, '(Yaql.Py.dictIndex %s %s)' % (recv.text, key.text))])
        if recv.ty[0] == 'dict' and self.key_dict_ops(recv.ty) is not None:
            key = self.coerce(idx, recv.ty[1], n)
            t = self.tmp()
            return E(t, recv.ty[2], binds + [(t, '(Yaql.Py.ofOption %s .keyError)' % self.key_dict_ops(recv.ty)['get'].format(
                recv.text, key.text))])
        if recv.ty[0] == 'named' and isinstance(n.slice, ast.Constant) and isinstance(n.slice.value, int) \
                and n.slice.value in self.universes.get(recv.ty[1], {}).get('index_const', {}):
            tmpl, ty, partial = self.universes[recv.ty[1]]['index_const'][n.slice.value]
            if partial:
                t = self.tmp()
                return E(t, T(ty), recv.binds + [(t, tmpl.format(recv.text))])
            return E(tmpl.format(recv.text), T(ty), recv.binds)
        if recv.ty[0] == 'named' and isinstance(n.slice, ast.Constant) and isinstance(n.slice.value, str):
            item = self.universes.get(recv.ty[1], {}).get('items', {}).get(n.slice.value)
            if item is not None:          # a record held as a dict with constant string keys
                return E(item[0].format(self=recv.text), T(item[1]), recv.binds)
        r = self.named_op('Index', [recv, idx], n)
        if r is not None:
            return r
        self.refuse(n, 'subscript on types %s[%s]' % (recv.ty, idx.ty))

    # -- calls
    def apply_prim(self, prim, args, node, recv=None, kwargs=None):
        """args: translated E list"""
        kwargs = kwargs or {}
        nreq = len(prim.args) - prim.opt
        args = list(args)
        for k, v in kwargs.items():
            if k not in prim.kw:
                self.refuse(node, 'keyword argument %r of a primitive' % k)
            i = prim.kw.index(k)
            while len(args) < i:
                args.append(None)
            if i < len(args) and args[i] is not None:
                self.refuse(node, 'argument %r given twice' % k)
            if i == len(args):
                args.append(v)
            else:
                args[i] = v
        if len(args) < nreq or len(args) > len(prim.args) or any(a is None for a in args[:nreq]):
            self.refuse(node, 'primitive called with %d arguments (needs %d..%d)' % (len(args), nreq, len(prim.args)))
        binds = list(recv.binds) if recv is not None else []
        texts = []
        atys = []
        for i, pty in enumerate(prim.args):
            a = args[i] if i < len(args) else None
            optional = i >= nreq
            if a is None:
                if prim.defaults is not None:
                    texts.append(prim.defaults[i - nreq])
                else:
                    texts.append('none')
                atys.append(None)
                continue
            if pty == ('elem',):
                a = self.coerce(a, elem_type(recv.ty), node)
            elif pty is not None:
                a = self.coerce(a, pty, node)
            elif a.ty == NONE or (a.ty[0] == 'list' and a.ty[1] is None):
                self.refuse(node, 'untyped argument for a generic primitive parameter')
            binds += a.binds
            atys.append(a.ty)
            if optional and prim.optwrap and prim.defaults is None:
                texts.append('(some %s)' % a.text)
            else:
                texts.append(a.text)
        fmt = {'self': recv.text if recv is not None else ''}
        for (ln, _lt) in self.t.ambient:
            fmt[ln] = ln
        fmt['args'] = ' '.join(texts)
        try:
            text = prim.lean.format(*texts, **fmt)
        except KeyError as ex:
            self.refuse(node, 'primitive needs the ambient parameter %s, which the typing entry does not declare' % ex)
        if prim.mut:
            if prim.partial:
                t = self.tmp()
                return E(t, UNIT, binds + [(t, text)])
            return E(text, UNIT, binds)
        ret = prim.ret(recv.ty if recv is not None else None, atys) if callable(prim.ret) else T(prim.ret)
        if prim.partial:
            t = self.tmp()
            return E(t, ret, binds + [(t, text)], fresh=True)
        return E(text, ret, binds, fresh=True)

    def call_prim(self, prim, call, env, recv=None):
        if any(isinstance(a, ast.Starred) for a in call.args):
            self.refuse(call, 'starred argument')
        args = [self.tr_expr(a, env) for a in call.args]
        kwargs = {}
        for kw in call.keywords:
            if kw.arg is None:
                self.refuse(call, '** argument')
            kwargs[kw.arg] = self.tr_expr(kw.value, env)
        return self.apply_prim(prim, args, call, recv=recv, kwargs=kwargs)

    def ex_Call(self, n, env):
        f = n.func
        d = self.dotted(f)
        # 1. a callable parameter / local
        if isinstance(f, ast.Name) and f.id in env:
            v = env[f.id]
            if v.ty[0] == 'named' and 'call' in self.universes.get(v.ty[1], {}):
                return self.call_prim(self.universes[v.ty[1]]['call'], n, env, recv=E(v.lean, v.ty))
            if v.ty[0] != 'fn':
                self.refuse(n, 'call of a non-callable variable')
            if n.keywords or len(n.args) != len(v.ty[1]):
                self.refuse(n, 'callable parameter called with the wrong number of arguments')
            args = [self.coerce(self.tr_expr(a, env), ty, n) for a, ty in zip(n.args, v.ty[1])]
            binds = [b for a in args for b in a.binds]
            ret = v.ty[2]
            if ret[0] == 'except':
                t = self.tmp()
                return E(t, ret[1], binds + [(t, '(%s %s)' % (v.lean, ' '.join(a.text for a in args)))])
            return E('(%s %s)' % (v.lean, ' '.join(a.text for a in args)) if args else v.lean, ret, binds)
        # 2. primitives named in the typing entry (dotted name), unless the head is a local
        if d is not None and d.split('.')[0] not in env and (d in self.t.prims or d in GLOBAL_PRIMS):
            return self.call_prim(self.t.prims.get(d) or GLOBAL_PRIMS[d], n, env)
        # 2b. a translated function of another module, called by its dotted name
        if d is not None and d.split('.')[0] not in env and d in self.registry:
            return self.call_target(self.registry[d], n, env)
        # 3. builtins
        if isinstance(f, ast.Name):
            b = getattr(self, 'bi_' + f.id, None)
            if b is not None:
                return b(n, env)
            # 4. a sibling function that is itself a target
            if f.id in self.registry:
                return self.call_target(self.registry[f.id], n, env)
            self.refuse(n, 'call of %r: not a parameter, primitive, builtin of the subset or translated function' % f.id)
        # 5. method on a typed receiver
        if isinstance(f, ast.Attribute):
            recv = self.tr_expr(f.value, env)
            if recv.ty[0] == 'dict' and f.attr == 'get' and len(n.args) in (1, 2) and not n.keywords \
                    and self.key_dict_ops(recv.ty) is not None:
                key = self.coerce(self.tr_expr(n.args[0], env), recv.ty[1], n)
                got = self.key_dict_ops(recv.ty)['get'].format(recv.text, key.text)
                if len(n.args) == 1:
                    return E(got, ('opt', recv.ty[2]), recv.binds + key.binds)
                dflt = self.coerce(self.tr_expr(n.args[1], env), recv.ty[2], n)
                return E('(Option.getD %s %s)' % (got, dflt.text), recv.ty[2], recv.binds + key.binds + dflt.binds)
            if recv.ty[0] == 'dict' and f.attr == 'get' and len(n.args) == 2 and not n.keywords:
                key = self.coerce(self.tr_expr(n.args[0], env), recv.ty[1], n)
                if not self.structural_eq(recv.ty[1]):
                    self.refuse(n, 'dict.get on keys without structural equality')
                dflt = self.coerce(self.tr_expr(n.args[1], env), recv.ty[2], n)
                return E('(Yaql.Py.dictGetD %s %s %s)' % (recv.text, key.text, dflt.text), recv.ty[2],
                         recv.binds + key.binds + dflt.binds)
            if recv.ty == STR and f.attr in ('startswith', 'endswith') and len(n.args) == 1 and not n.keywords:
                a0 = self.tr_expr(n.args[0], env)
                if a0.ty == STR:
                    fn = 'isPrefixOf' if f.attr == 'startswith' else 'isSuffixOf'
                    return E('(List.%s %s %s)' % (fn, a0.text, recv.text), BOOL, recv.binds + a0.binds)
            kind = self.kind_of(recv.ty) if recv.ty else None
            prim = METHODS.get((recv.ty[0], f.attr))
            if prim is None and recv.ty[0] == 'named':
                prim = self.universes.get(recv.ty[1], {}).get('methods', {}).get(f.attr)
            if prim is None:
                self.refuse(n, 'method %s on a value of type %s has no primitive' % (f.attr, recv.ty))
            if prim.mut:
                self.refuse(n, 'mutating method used as an expression')
            return self.call_prim(prim, n, env, recv=recv)
        self.refuse(n, 'call form outside the subset')

    def call_target(self, tgt, n, env):
        if n.keywords:
            self.refuse(n, 'keyword arguments in a call of a translated function')
        if any(isinstance(a, ast.Starred) for a in n.args):
            self.refuse(n, 'starred argument')
        if tgt.vararg:
            k = len(tgt.params) - 1
            if len(n.args) < k:
                self.refuse(n, 'too few arguments')
            args = [self.coerce(self.tr_expr(a, env), ty, n) for a, (_p, ty) in zip(n.args[:k], tgt.params)]
            ety = tgt.params[-1][1][1]
            extra = [self.coerce(self.tr_expr(a, env), ety, n) for a in n.args[k:]]
            args.append(E('[%s]' % ', '.join(x.text for x in extra), tgt.params[-1][1],
                          [b for x in extra for b in x.binds]))
        else:
            if len(n.args) > len(tgt.params):
                self.refuse(n, 'too many arguments')
            args = [self.coerce(self.tr_expr(a, env), ty, n) for a, (_p, ty) in zip(n.args, tgt.params)]
        if len(args) < len(tgt.params):
            # omitted arguments take the Lean default values, which the callee's definition carries
            pass
        binds = [b for a in args for b in a.binds]
        amb = []
        mine = dict(self.t.ambient)
        for (ln, lt) in tgt.ambient:
            if ln not in mine:
                self.refuse(n, 'callee needs the ambient parameter %s' % ln)
            amb.append(ln)
        if tgt.fuel:
            if not self.t.fuel:
                self.refuse(n, 'callee needs fuel')
            amb.append('fuel')
        text = '(%s %s)' % (tgt.lean_name, ' '.join(amb + [a.text for a in args]))
        if tgt.raises:
            t = self.tmp()
            return E(t, tgt.ret, binds + [(t, text)])
        return E(text, tgt.ret, binds)

    # builtins
    def one_arg(self, n, env, name):
        if len(n.args) != 1 or n.keywords:
            self.refuse(n, '%s() with other than one positional argument' % name)
        return self.tr_expr(n.args[0], env)

    def bi_len(self, n, env):
        e = self.one_arg(n, env, 'len')
        if e.ty[0] == 'named' and 'len' in self.universes.get(e.ty[1], {}):
            return E(self.universes[e.ty[1]]['len'].format(e.text), INT, e.binds)
        if e.ty[0] not in ('str', 'list', 'dict'):
            self.refuse(n, 'len of a value of type %s' % (e.ty,))
        return E('(%s.length : Int)' % e.text, INT, e.binds)

    def bi_list(self, n, env):
        if not n.args and not n.keywords:
            return E('[]', ('list', None), fresh=True)
        e = self.one_arg(n, env, 'list')
        it = self.as_list(e, n)
        return E(it.text, it.ty, it.binds, fresh=True)

    bi_tuple = bi_list

    def as_list(self, e, n):
        if e.ty[0] == 'dict':
            return E('(Yaql.Py.dictKeys %s)' % e.text, ('list', e.ty[1]), e.binds)
        if e.ty == STR:
            return E('(%s.map fun c => [c])' % e.text, ('list', STR), e.binds)
        if e.ty[0] == 'iter':
            return E(e.text, ('list', e.ty[1]), e.binds)
        if e.ty[0] != 'list':
            self.refuse(n, 'conversion to a list of a value of type %s' % (e.ty,))
        return e

    def bi_enumerate(self, n, env):
        if n.keywords or not 1 <= len(n.args) <= 2:
            self.refuse(n, 'enumerate() argument form')
        e = self.as_list(self.tr_expr(n.args[0], env), n)
        if len(n.args) == 2:
            st = self.tr_expr(n.args[1], env)
            if st.ty != INT:
                self.refuse(n, 'enumerate start of type %s' % (st.ty,))
            return E('(Yaql.Py.enumFrom %s %s)' % (st.text, e.text), ('list', ('tup', INT, e.ty[1])),
                     e.binds + st.binds)
        return E('(Yaql.Py.enumerate %s)' % e.text, ('list', ('tup', INT, e.ty[1])), e.binds)

    def bi_range(self, n, env):
        if n.keywords or not 1 <= len(n.args) <= 2:
            self.refuse(n, 'range() with a step or keywords')
        es = [self.tr_expr(a, env) for a in n.args]
        if any(e.ty != INT for e in es):
            self.refuse(n, 'range() bound that is not an int')
        binds = [b for e in es for b in e.binds]
        if len(es) == 1:
            return E('(Yaql.Py.range 0 %s)' % es[0].text, ('list', INT), binds)
        return E('(Yaql.Py.range %s %s)' % (es[0].text, es[1].text), ('list', INT), binds)

    def bi_zip(self, n, env):
        if n.keywords or len(n.args) != 2:
            self.refuse(n, 'zip() with other than two arguments')
        a, b = [self.as_list(self.tr_expr(x, env), n) for x in n.args]
        return E('(List.zip %s %s)' % (a.text, b.text), ('list', ('tup', a.ty[1], b.ty[1])), a.binds + b.binds)

    def bi_reversed(self, n, env):
        e = self.as_list(self.one_arg(n, env, 'reversed'), n)
        return E('(List.reverse %s)' % e.text, e.ty, e.binds, fresh=True)

    def bi_map(self, n, env):
        if n.keywords or len(n.args) != 2:
            self.refuse(n, 'map() with other than two arguments')
        fn = n.args[0]
        xs = self.as_list(self.tr_expr(n.args[1], env), n)
        if isinstance(fn, ast.Name) and fn.id in env and env[fn.id].ty[0] == 'fn':
            fty = env[fn.id].ty
            if len(fty[1]) != 1 or fty[2][0] == 'except':
                self.refuse(n, 'map() of a callable that is not unary and total')
            if not self.compatible(xs.ty[1], fty[1][0]):
                self.refuse(n, 'map(): element type %s, callable takes %s' % (xs.ty[1], fty[1][0]))
            return E('(List.map %s %s)' % (env[fn.id].lean, xs.text), ('list', fty[2]), xs.binds, fresh=True)
        self.refuse(n, 'map() of something that is not a callable parameter')

    def bi_abs(self, n, env):
        e = self.one_arg(n, env, 'abs')
        if e.ty == INT:
            return E('(Yaql.Py.iabs %s)' % e.text, INT, e.binds)
        r = self.named_op('Abs', [e], n)
        if r is not None:
            return r
        self.refuse(n, 'abs of type %s' % (e.ty,))

    def bi_min(self, n, env):
        return self.minmax(n, env, 'imin')

    def bi_max(self, n, env):
        return self.minmax(n, env, 'imax')

    def minmax(self, n, env, fn):
        if n.keywords or len(n.args) != 2:
            self.refuse(n, 'min/max with other than two positional arguments')
        a, b = [self.tr_expr(x, env) for x in n.args]
        if a.ty != INT or b.ty != INT:
            self.refuse(n, 'min/max on types %s, %s' % (a.ty, b.ty))
        return E('(Yaql.Py.%s %s %s)' % (fn, a.text, b.text), INT, a.binds + b.binds)

    def bi_callable(self, n, env):
        e = self.one_arg(n, env, 'callable')
        if e.ty[0] == 'named' and 'callable' in self.universes.get(e.ty[1], {}):
            return E(self.universes[e.ty[1]]['callable'].format(e.text), BOOL, e.binds)
        if e.ty[0] == 'fn':
            return E('true', BOOL, e.binds)
        if e.ty[0] in ('int', 'str', 'bool', 'list', 'dict', 'tup'):
            return E('false', BOOL, e.binds)
        self.refuse(n, 'callable() of a value of type %s' % (e.ty,))

    def bi_str(self, n, env):
        e = self.one_arg(n, env, 'str')
        if e.ty == STR:
            return e
        if e.ty == INT:
            return E('(Yaql.Py.intStr %s)' % e.text, STR, e.binds)
        if e.ty[0] == 'named' and 'str' in self.universes.get(e.ty[1], {}):
            return E(self.universes[e.ty[1]]['str'].format(e.text), STR, e.binds)
        self.refuse(n, 'str() of a value of type %s' % (e.ty,))

    def bi_bool(self, n, env):
        e = self.one_arg(n, env, 'bool')
        return E('(decide %s)' % self.truthy(e.text, e.ty, n), BOOL, e.binds)

    def bi_isinstance(self, n, env):
        if n.keywords or len(n.args) != 2:
            self.refuse(n, 'isinstance() argument form')
        e = self.tr_expr(n.args[0], env)
        if e.ty[0] in STATIC_CLASSES:
            # the typing entry fixes the class of the value: the test is decided statically (the other branch is
            # outside the domain of this translation and is not translated)
            cls = n.args[1]
            names = [self.dotted(c) for c in cls.elts] if isinstance(cls, ast.Tuple) else [self.dotted(cls)]
            yes, no = STATIC_CLASSES[e.ty[0]]
            names = [c.split('.')[-1] if c else c for c in names]
            yes, no = {c.split('.')[-1] for c in yes}, {c.split('.')[-1] for c in no}
            if any(c in yes for c in names):
                return E('true', BOOL, e.binds)
            if all(c in no for c in names):
                return E('false', BOOL, e.binds)
            self.refuse(n, 'isinstance of a %s value against %s: not in the static class table' % (e.ty[0], names))
        if e.ty[0] != 'named' or 'isinstance' not in self.universes.get(e.ty[1], {}):
            self.refuse(n, 'isinstance on a value of type %s: no closed universe declared' % (e.ty,))
        table = self.universes[e.ty[1]]['isinstance']
        cls = n.args[1]
        names = [self.dotted(c) for c in cls.elts] if isinstance(cls, ast.Tuple) else [self.dotted(cls)]
        parts = []
        for c in names:
            if c is None or c not in table:
                self.refuse(n, 'isinstance against %s: class not in the universe of %s' % (c, e.ty[1]))
            parts.append(table[c].format(e.text))
        text = parts[0] if len(parts) == 1 else '(%s)' % ' || '.join(parts)
        return E(text, BOOL, e.binds)


# ------------------------------------------------------------------------------------ files

def load_module_ast(repo, module):
    path = os.path.join(repo, *module.split('.')) + '.py'
    if not os.path.exists(path):
        path = os.path.join(repo, *module.split('.'), '__init__.py')
    src = open(path).read()
    return ast.parse(src), path


def translate_target(repo, target, registry=None, universes=None, cache=None):
    """-> dict(text=lean def, digest=.., line=.., path=..)   raises Refuse"""
    cache = cache if cache is not None else {}
    if target.module not in cache:
        try:
            cache[target.module] = load_module_ast(repo, target.module)
        except (OSError, SyntaxError) as e:
            raise Refuse(target.qual, None, 'cannot read/parse the module: %r' % (e,))
    tree, path = cache[target.module]
    fnode = find_function(tree, target.func)
    if fnode is None:
        raise Refuse(target.qual, None, 'function not found in %s' % path)
    tr = FnTranslator(target, fnode, registry=registry, universes=universes)
    try:
        text = tr.translate()
    except Refuse:
        raise
    except Exception as e:      # a defect of the translator on this input: refuse loudly, never guess
        import traceback
        where = traceback.extract_tb(e.__traceback__)[-1]
        raise Refuse(target.qual, fnode, 'translator internal error %r at py2lean.py:%d - treated as outside the subset'
                     % (e, where.lineno))
    return dict(text=text, digest=source_digest(fnode), line=fnode.lineno, path=os.path.relpath(path, repo))
