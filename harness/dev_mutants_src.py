"""Self-test of the source tie by mutation (development tool, not part of a check).

For every translated function (harness/srcgen_targets.py) small source mutants are made in a scratch worktree of
the repo under test (off-by-one, flipped comparison, dropped branch, swapped operands, flipped constant) and for
each it is recorded whether
  refused     the translator refuses the mutated function (outside the subset),
  unproved    the equivalence theorem no longer checks (Props/Src<Area>.lean does not elaborate),
  differs     (only when the theorems still check) the source-level differential finds an input on which the mutated
              function and the model disagree - that would be a hole in the tie,
  equivalent  theorems check and no difference found: the mutation does not change the function's meaning
and, with --check, what `./check Cxx --tier quick` prints for the owning property (must exit 1 unless equivalent).

usage: dev_mutants_src.py [--area A]... [--target name]... [--check N] [--harmless] [--out file.json]
Runs sequentially (the generated Lean files of the worktree are shared)."""
import argparse
import ast
import copy
import json
import os
import subprocess
import sys
import time

sys.path.insert(0, os.path.dirname(os.path.abspath(__file__)))
SCRATCH = '/tmp/wr-srcgen-mut'
os.environ['YAQL_REPO'] = SCRATCH
import common  # noqa: E402
import py2lean  # noqa: E402
import srcgen_targets as ST  # noqa: E402
import srcobl  # noqa: E402


def sh(*cmd, **kw):
    return subprocess.run(cmd, stdout=subprocess.PIPE, stderr=subprocess.STDOUT, text=True, **kw)


def fresh_scratch():
    sh('git', '-C', '/repo', 'worktree', 'remove', '--force', SCRATCH)
    r = sh('git', '-C', '/repo', 'worktree', 'add', '--detach', SCRATCH, 'HEAD')
    if r.returncode:
        raise SystemExit(r.stdout)


def drop_scratch():
    sh('git', '-C', '/repo', 'worktree', 'remove', '--force', SCRATCH)
    sh('git', '-C', '/repo', 'worktree', 'prune')


# ------------------------------------------------------------------ mutation operators on a FunctionDef

FLIP = {ast.Lt: ast.LtE, ast.LtE: ast.Lt, ast.Gt: ast.GtE, ast.GtE: ast.Gt, ast.Eq: ast.NotEq, ast.NotEq: ast.Eq,
        ast.Is: ast.IsNot, ast.IsNot: ast.Is, ast.In: ast.NotIn, ast.NotIn: ast.In}
NONCOMM = (ast.Sub, ast.FloorDiv, ast.Mod, ast.Div, ast.LShift, ast.RShift, ast.Pow)


def body_nodes(f):
    body = py2lean.strip_doc(f.body)
    for st in body:
        for n in ast.walk(st):
            yield n


def mutants_of(fnode):
    """[(kind, description, mutated FunctionDef)]: at most one per kind, the first applicable site"""
    out = []

    def attempt(kind, pred, change):
        f = copy.deepcopy(fnode)
        for n in body_nodes(f):
            if pred(n):
                desc = change(n)
                if desc:
                    ast.fix_missing_locations(f)
                    out.append((kind, desc, f))
                    return

    def flip_cmp(n):
        old = ast.unparse(n)
        n.ops[0] = FLIP[type(n.ops[0])]()
        return '%s -> %s' % (old, ast.unparse(n))

    attempt('flip-comparison', lambda n: isinstance(n, ast.Compare) and type(n.ops[0]) in FLIP, flip_cmp)

    def off_by_one(n):
        old = n.value
        n.value = old + 1
        return 'constant %d -> %d' % (old, old + 1)

    attempt('off-by-one', lambda n: isinstance(n, ast.Constant) and isinstance(n.value, int)
            and not isinstance(n.value, bool), off_by_one)
    if not any(k == 'off-by-one' for k, _, _ in out):
        # no integer constant: add 1 to the first integer-looking arithmetic / slice bound / call argument
        def plus_one(n):
            if isinstance(n, ast.BinOp) and isinstance(n.op, (ast.Add, ast.Sub)):
                old = ast.unparse(n)
                n.right = ast.BinOp(left=n.right, op=ast.Add(), right=ast.Constant(value=1))
                return '%s -> %s' % (old, ast.unparse(n))
            if isinstance(n, ast.Slice) and n.upper is not None:
                old = ast.unparse(n)
                n.upper = ast.BinOp(left=n.upper, op=ast.Add(), right=ast.Constant(value=1))
                return 'slice %s -> %s' % (old, ast.unparse(n))
            return None
        attempt('off-by-one', lambda n: isinstance(n, (ast.BinOp, ast.Slice)), plus_one)

    def swap(n):
        old = ast.unparse(n)
        if isinstance(n, ast.BinOp):
            n.left, n.right = n.right, n.left
        elif isinstance(n, ast.Compare):
            n.left, n.comparators[0] = n.comparators[0], n.left
        else:
            n.args[0], n.args[1] = n.args[1], n.args[0]
        new = ast.unparse(n)
        return None if new == old else '%s -> %s' % (old, new)

    attempt('swap-operands',
            lambda n: (isinstance(n, ast.BinOp) and isinstance(n.op, NONCOMM)) or
            (isinstance(n, ast.Call) and len(n.args) >= 2 and not any(isinstance(a, ast.Starred) for a in n.args)) or
            (isinstance(n, ast.Compare) and len(n.ops) == 1 and isinstance(n.ops[0], (ast.Lt, ast.Gt, ast.LtE, ast.GtE))),
            swap)

    # dropped branch: the first `if` statement loses its body (or its else)
    f = copy.deepcopy(fnode)
    done = [False]

    class Drop(ast.NodeTransformer):
        def visit_FunctionDef(self, node):
            if node is f:
                self.generic_visit(node)
            return node

        def visit_If(self, node):
            if done[0]:
                return node
            done[0] = True
            self.desc = 'dropped `if %s:` branch' % ast.unparse(node.test)
            return node.orelse if node.orelse else ast.Pass()

    d = Drop()
    d.desc = None
    d.visit(f)
    if done[0]:
        ast.fix_missing_locations(f)
        out.append(('drop-branch', d.desc, f))

    def flip_const(n):
        if n.value is True or n.value is False:
            n.value = not n.value
            return 'constant %r -> %r' % (not n.value, n.value)
        return None

    attempt('flip-constant', lambda n: isinstance(n, ast.Constant) and isinstance(n.value, bool), flip_const)

    def change_op(n):
        old = ast.unparse(n)
        table = {ast.Add: ast.Sub, ast.Sub: ast.Add, ast.Mult: ast.Add, ast.FloorDiv: ast.Mod, ast.Mod: ast.FloorDiv,
                 ast.Div: ast.Mult, ast.BitAnd: ast.BitOr, ast.BitOr: ast.BitAnd, ast.LShift: ast.RShift,
                 ast.RShift: ast.LShift}
        n.op = table[type(n.op)]()
        return '%s -> %s' % (old, ast.unparse(n))

    if len(out) < 2:
        attempt('change-operator', lambda n: isinstance(n, ast.BinOp) and type(n.op) in (
            ast.Add, ast.Sub, ast.Mult, ast.FloorDiv, ast.Mod, ast.Div, ast.BitAnd, ast.BitOr, ast.LShift, ast.RShift),
            change_op)

    def bool_op(n):
        old = ast.unparse(n)
        n.op = ast.Or() if isinstance(n.op, ast.And) else ast.And()
        return '%s -> %s' % (old, ast.unparse(n))

    if len(out) < 2:
        attempt('and-or', lambda n: isinstance(n, ast.BoolOp), bool_op)

    def ret_other(n):
        # `return f(a, b)` of a one-liner: return the first argument instead
        if isinstance(n.value, ast.Call) and n.value.args:
            old = ast.unparse(n)
            n.value = n.value.args[0]
            return '%s -> %s' % (old, ast.unparse(n))
        return None

    if len(out) < 2:
        attempt('return-argument', lambda n: isinstance(n, ast.Return) and n.value is not None, ret_other)
    return out[:3]


HARMLESS = ['rename-local', 'swap-if-branches', 'commute-add']


def harmless_of(fnode):
    out = []
    # rename a local variable
    f = copy.deepcopy(fnode)
    params = {a.arg for a in f.args.args} | ({f.args.vararg.arg} if f.args.vararg else set())
    locs = [n for n in py2lean.assigned_names(py2lean.strip_doc(f.body)) if n not in params and n != py2lean.OUT]
    if locs:
        old = locs[0]
        for n in ast.walk(f):
            if isinstance(n, ast.Name) and n.id == old:
                n.id = old + '_renamed'
        out.append(('rename-local', '%s -> %s_renamed' % (old, old), f))
    # if a: X else: Y  ->  if not a: Y else: X
    f = copy.deepcopy(fnode)
    for n in body_nodes(f):
        if isinstance(n, ast.If) and n.orelse:
            n.test = ast.UnaryOp(op=ast.Not(), operand=n.test)
            n.body, n.orelse = n.orelse, n.body
            ast.fix_missing_locations(f)
            out.append(('swap-if-branches', 'if not (%s): else-branch first' % ast.unparse(n.test.operand), f))
            break
    # a + b -> b + a on ints (only sites where both sides are clearly integer expressions are taken: names / len())
    f = copy.deepcopy(fnode)
    for n in body_nodes(f):
        if isinstance(n, ast.BinOp) and isinstance(n.op, ast.Add) and not isinstance(n.left, ast.Constant) \
                and not (isinstance(n.right, ast.Constant) and isinstance(n.right.value, str)):
            old = ast.unparse(n)
            n.left, n.right = n.right, n.left
            out.append(('commute-add', '%s -> %s' % (old, ast.unparse(n)), f))
            break
    return out


def apply_mutant(t, fnode_orig, fmut):
    """write the mutated function over the original in the scratch tree"""
    tree, path = py2lean.load_module_ast(SCRATCH, t.module)
    lines = open(path).read().split('\n')
    start = min([d.lineno for d in fnode_orig.decorator_list] + [fnode_orig.lineno])
    end = fnode_orig.end_lineno
    indent_ = ' ' * fnode_orig.col_offset
    new = [indent_ + ln if ln else ln for ln in ast.unparse(fmut).split('\n')]
    lines[start - 1:end] = new
    open(path, 'w').write('\n'.join(lines))
    return path


def restore(path):
    sh('git', '-C', SCRATCH, 'checkout', '--', os.path.relpath(path, SCRATCH))


def fast_verdict(t):
    """translate + elaborate the theorems of the owner's areas"""
    pid = t.owners[0]
    info = srcobl.generate(pid)
    broken = info.get('_broken', [])
    mine = [b for b in broken if t.qual in b or t.theorem in b or ('.' + t.name + ' ') in b]
    if any('refuses' in b for b in mine):
        return 'refused', mine[0]
    if mine:
        return 'unproved', mine[0]
    if broken:
        return 'unproved', broken[0]
    return None, ''


def differential_verdict(t):
    ok, out = common.lake_build(['yaqlmodel'])
    if not ok:
        return 'driver-broken', out[-300:]
    for m in [m for m in list(sys.modules) if m.startswith('yaql')]:
        del sys.modules[m]          # the real function of the mutated tree
    res = common.Result()
    drv = common.Driver()
    try:
        srcobl.differential(dict(driver=drv, seed=0, tier='quick'), res, t.owners[0], per_target=400, only=[t.name])
    finally:
        drv.close()
    if res.failures:
        return 'differs', res.failures[0].what[:300]
    return 'equivalent', ''


def run_check(pid):
    t0 = time.time()
    env = dict(os.environ, YAQL_REPO=SCRATCH)
    r = sh(os.path.join(common.ROOT, 'check'), pid, '--tier', 'quick', env=env, timeout=1800)
    line = [ln for ln in r.stdout.split('\n') if ln.startswith('VIOLATION') or ln.startswith('KNOWN')]
    return dict(exit=r.returncode, line=(line[0] if line else r.stdout.strip().split('\n')[-1])[:200],
                wall=round(time.time() - t0, 1))


def main():
    ap = argparse.ArgumentParser()
    ap.add_argument('--area', action='append')
    ap.add_argument('--target', action='append')
    ap.add_argument('--check', type=int, default=0, help='run ./check for the first N mutants of every function')
    ap.add_argument('--harmless', action='store_true', help='harmless rewrites instead of mutants')
    ap.add_argument('--out', default=None)
    args = ap.parse_args()
    targets = [t for t in ST.TARGETS if (not args.area or t.area in args.area) and
               (not args.target or t.name in args.target)]
    fresh_scratch()
    rows = []
    try:
        for t in targets:
            tree, path = py2lean.load_module_ast(SCRATCH, t.module)
            fnode = py2lean.find_function(tree, t.func)
            if fnode is None:
                continue
            muts = harmless_of(fnode) if args.harmless else mutants_of(fnode)
            for k, (kind, desc, fmut) in enumerate(muts):
                path = apply_mutant(t, fnode, fmut)
                row = dict(function=t.qual, name=t.name, area=t.area, owner=t.owners[0], kind=kind, mutation=desc)
                try:
                    v, why = fast_verdict(t)
                    if v is None:
                        v, why = differential_verdict(t)
                    row['verdict'], row['why'] = v, why[:300]
                    if args.check and k < args.check:
                        row['check'] = run_check(t.owners[0])
                except Exception as e:  # noqa
                    row['verdict'], row['why'] = 'tool-error', repr(e)[:300]
                finally:
                    restore(path)
                rows.append(row)
                print('%-28s %-16s %-11s %s %s' % (t.name, kind, row['verdict'], desc[:70],
                                                   row.get('check', '')), flush=True)
    finally:
        drop_scratch()
        # put the generated files back to the unchanged tree
        os.environ['YAQL_REPO'] = '/repo'
        subprocess.run([sys.executable, '-W', 'ignore', os.path.join(common.ROOT, 'harness', 'pyfacts.py')] +
                       sorted({'Src' + t.area for t in targets}), env=dict(os.environ, YAQL_REPO='/repo'),
                       stdout=subprocess.DEVNULL)
    if args.out:
        json.dump(rows, open(args.out, 'w'), indent=1)
    tally = {}
    for r in rows:
        tally[r['verdict']] = tally.get(r['verdict'], 0) + 1
    print(tally)


if __name__ == '__main__':
    main()
