"""usage: runseeds.py [--only-missing] [name ...]
Runs, for each seeded change under /verif/seeded/<name>/ (default: all), the check of the property it
breaks (plus extra check ids listed in meta['also_checks']) against a scratch tree with the change applied,
and records the outcome in meta.json['checks'].  Sequential (the Gen files and the lake build are shared)."""
import json
import os
import subprocess
import sys

ROOT = os.path.dirname(os.path.dirname(os.path.abspath(__file__)))


def main():
    args = sys.argv[1:]
    only_missing = '--only-missing' in args
    if only_missing:
        args.remove('--only-missing')
    names = args or sorted(n for n in os.listdir(os.path.join(ROOT, 'seeded')) if not n.startswith('_'))
    for name in names:
        d = os.path.join(ROOT, 'seeded', name)
        mp = os.path.join(d, 'meta.json')
        if not os.path.exists(mp):
            continue
        m = json.load(open(mp))
        checks = [m['property']] + list(m.get('also_checks', []))
        checks = [c for c in checks if os.path.exists(os.path.join(ROOT, 'harness', 'props', c.lower() + '.py'))]
        if only_missing:
            checks = [c for c in checks if c not in (m.get('checks') or {})]
        if not checks:
            continue
        r = subprocess.run(['/venv/bin/python', os.path.join(ROOT, 'harness', 'seedtest.py'), d] + checks,
                           stdout=subprocess.PIPE, text=True)
        try:
            out = json.loads(r.stdout)
        except Exception:
            print(name, 'seedtest failed', r.stdout[-500:])
            continue
        m.setdefault('checks', {})
        for c, v in out['checks'].items():
            m['checks'][c] = dict(caught=(v['rc'] == 1), rc=v['rc'],
                                  verdict=[l for l in v['lines'] if l.startswith(('VIOLATION', 'HARNESS'))][:1],
                                  what=v.get('what', ''))
        json.dump(m, open(mp, 'w'), indent=1)
        print(name, {c: ('caught' if v['caught'] else 'MISSED rc=%s' % v['rc']) for c, v in m['checks'].items()}, flush=True)


if __name__ == '__main__':
    main()
