import sys, os, collections
sys.path.insert(0, os.path.dirname(os.path.abspath(__file__)))
sys.path.insert(0, os.path.join(os.path.dirname(os.path.abspath(__file__)), 'props'))
import common, c13, seqgen
fns = sys.argv[1].split(',') if len(sys.argv) > 1 and sys.argv[1] != 'all' else c13.FUNCTIONS
n = int(sys.argv[2]) if len(sys.argv) > 2 else 100
seed = int(sys.argv[3]) if len(sys.argv) > 3 else 0
tot = collections.Counter()
for f in fns:
    out = c13.work((f, n, seed, True))
    tot['n'] += out['n']; tot['ood'] += out['ood']; tot['err'] += sum(out['errs'].values())
    for kind, key, what, rp in out['failures']:
        print('[%s] %s %s: %s' % (f, kind, key, what))
    print('%-22s n=%d ood=%d errs=%s' % (f, out['n'], out['ood'], dict(out['errs'])), flush=True)
print(dict(tot))
