"""authoring helper: expands `@"text"` in a .lean.in template into a `List Char` literal and `#"text"` into
the list of its code points (Model files cannot use
String functions: the kernel does not unfold them).  usage: expand_names.py in.lean.in out.lean"""
import re
import sys


def chars(s):
    return '[' + ', '.join("'%s'" % (c if c not in "'\\" else '\\' + c) for c in s) + ']'


src = open(sys.argv[1]).read()
out = re.sub(r'@"([^"]*)"', lambda m: chars(m.group(1)), src)
out = re.sub(r'#"([^"]*)"', lambda m: '[' + ', '.join(str(ord(c)) for c in m.group(1)) + ']', out)
open(sys.argv[2], 'w').write(out)
