import sys, os, collections
sys.path.insert(0, os.path.dirname(os.path.abspath(__file__)))
import common
import props.c14 as c14
n = int(sys.argv[1]) if len(sys.argv) > 1 else 30
seed = int(sys.argv[2]) if len(sys.argv) > 2 else 0
rng = common.make_rng(seed, 'C14')
drv = common.Driver()
focuses = c14.STREAM_OPS + c14.TERMINAL_OPS
cases = [c14.gen_case(rng, f) for f in focuses for _ in range(n)]
replies = c14.ask(drv, cases)
cnt = collections.Counter()
shown = 0
for case, mr in zip(cases, replies):
    f, info = c14.evaluate_case(case, mr)
    if info.get('skipped'):
        cnt['skipped'] += 1; continue
    cnt['run'] += 1
    real, mod, ref = info['real'], info['model'], info['ref']
    if real['kind'] == 'ok':
        cnt['dp=%d' % (real['pulls'] - mod['pulls'])] += 1
        cnt['da=%d' % (real['apps'] - mod['apps'])] += 1
        if ref['kind'] == 'ok':
            cnt['rp=%d' % (real['pulls'] - ref['pulls'])] += 1
            cnt['ra=%d' % (real['apps'] - ref['apps'])] += 1
    else:
        cnt['real_' + real['kind']] += 1
    if f and shown < 25:
        shown += 1
        print(f[0], f[1][:400])
print(sorted(cnt.items()))
drv.close()
