"""Shared by the resolution checks C05, C06, C11, C12: builds overload families on real
`Context` chains from JSON-able specs, builds real argument objects, runs
`runner.call`, encodes the REAL FunctionDefinition / expression objects for the Lean
model (`Yaql.Drv.Resolve`), and holds the independent transcription of the written
resolution rules (`spec_resolve`)."""
import collections.abc

import common  # noqa: F401  (sets sys.path for YAQL_REPO)
import yaql
from yaql.language import contexts, exceptions, expressions, factory, runner, specs, utils, yaqltypes


# ---------------------------------------------------------------- the class lattice and the value corpus

class Base(object):
    pass


class L(Base):
    pass


class R(Base):
    pass


class D(L, R):
    pass


# multiple inheritance over UNRELATED classes (round 5): with these, "more specific than" on parameter lists is not
# transitive - E is an LL, an L and an R; L || R, R || LL, LL < L;  G is a D and a U;  U is unrelated to all of Base
class LL(L):
    pass


class E(LL, R):
    pass


class U(object):
    pass


class G(D, U):
    pass


for _c in (Base, L, R, D, LL, E, U, G):
    _c.__repr__ = lambda self: '<%s>' % type(self).__name__

LATTICE = dict(Base=Base, L=L, R=R, D=D, int=int, str=str, object=object, NoneType=type(None), bool=bool,
               float=float, LL=LL, E=E, U=U, G=G)

# tag = index; 0..11 are what every generator written before round 5 draws from
CORPUS = [Base(), L(), R(), D(), D(), 0, 7, True, 'a', 'bb', 2.5, (1, 2), E(), G(), LL(), U()]
CONSTS = [1, 0, 'a', 'k', True, False, None, 2.5, 'abc']                      # tag = 1000 + index


class Tables:
    """class ids, validator ids, expression-kind ids: grow on demand, stable within a run"""

    def __init__(self):
        self.classes = []
        self.validators = []
        self.vkeys = []
        self.ekinds = [expressions.Constant, expressions.KeywordConstant, expressions.Function,
                       expressions.GetContextValue, expressions.Wrap, expressions.MappingRuleExpression]
        for c in vars(expressions).values():        # every other expression class of the module, fixed order
            if isinstance(c, type) and issubclass(c, expressions.Expression) and c not in self.ekinds:
                self.ekinds.append(c)
        for c in (object, type(utils.NO_VALUE), utils.MappingRule):
            self.cls(c)

    def cls(self, c):
        for i, x in enumerate(self.classes):
            if x is c:
                return i
        self.classes.append(c)
        return len(self.classes) - 1

    @staticmethod
    def _vkey(v):
        code = getattr(v, '__code__', None)
        if code is None:
            return ('obj', id(v))
        try:
            cells = tuple(id(c.cell_contents) for c in (v.__closure__ or ()))
        except ValueError:
            cells = ('?', id(v))
        return (code, cells)

    def validator(self, v):
        """validators are identified by their code and captured objects: every PythonType instance
        makes its own `lambda _: True`"""
        k = self._vkey(v)
        for i, x in enumerate(self.vkeys):
            if x == k:
                return i
        self.vkeys.append(k)
        self.validators.append(v)
        return len(self.validators) - 1

    def ekind(self, t):
        if t not in self.ekinds:
            self.ekinds.append(t)
        return self.ekinds.index(t)

    def passes(self, value):
        out = []
        for i, v in enumerate(self.validators):
            try:
                if v(value):
                    out.append(i)
            except Exception:
                pass
        return out

    def lattice(self):
        sub = []
        for i, a in enumerate(self.classes):
            for j, b in enumerate(self.classes):
                try:
                    if issubclass(a, b):
                        sub.append([i, j])
                except TypeError:
                    pass
        return dict(sub=sub, marker=self.val(utils.NO_VALUE))

    def tag(self, v):
        for i, x in enumerate(CORPUS):
            if x is v:
                return i
        for i, x in enumerate(CONSTS):
            if type(x) is type(v) and x == v:
                return 1000 + i
        if type(v) is tuple:            # an entry point that converts its input hands over an equal copy
            for i, x in enumerate(CORPUS):
                if type(x) is tuple and x == v:
                    return i
        return 9999

    def val(self, v):
        if v is None:
            return None
        return dict(c=self.cls(type(v)), p=self.passes(v), t=self.tag(v))


T = Tables()


# ---------------------------------------------------------------- types

TYPE_SPECS = {
    # name -> constructor of the real smart type
    'String': lambda: yaqltypes.String(), 'StringN': lambda: yaqltypes.String(nullable=True),
    'Integer': lambda: yaqltypes.Integer(), 'Number': lambda: yaqltypes.Number(),
    'Lambda': lambda: yaqltypes.Lambda(), 'LambdaM': lambda: yaqltypes.Lambda(method=True),
    'MappingRule': lambda: yaqltypes.MappingRule(),
    'YaqlExpression': lambda: yaqltypes.YaqlExpression(),
    'YaqlExpressionF': lambda: yaqltypes.YaqlExpression(expressions.Function),
    'Constant': lambda: yaqltypes.Constant(False), 'ConstantN': lambda: yaqltypes.Constant(True),
    'StringConstant': lambda: yaqltypes.StringConstant(), 'NumericConstant': lambda: yaqltypes.NumericConstant(),
    'BooleanConstant': lambda: yaqltypes.BooleanConstant(), 'Keyword': lambda: yaqltypes.Keyword(),
    'Context': lambda: yaqltypes.Context(), 'Engine': lambda: yaqltypes.Engine(),
    'Receiver': lambda: yaqltypes.Receiver(), 'YaqlInterface': lambda: yaqltypes.YaqlInterface(),
    'Iterable': lambda: yaqltypes.Iterable(), 'Sequence': lambda: yaqltypes.Sequence(),
}
HIDDEN_SPECS = ('Context', 'Engine', 'Receiver', 'YaqlInterface')
LAZY_SPECS = ('Lambda', 'LambdaM', 'MappingRule', 'YaqlExpression', 'YaqlExpressionF')


def warm_up():
    """register every class / validator the generated families can mention, so that the
    `passes` lists of values do not depend on the order of encoding"""
    for c in LATTICE.values():
        T.cls(c)
    for v in CORPUS + CONSTS:
        T.cls(type(v))
    for mk in TYPE_SPECS.values():
        enc_type(mk())
    enc_type(yaqltypes.PythonType(object, True))


REJECTED = (4, 9, 13)     # corpus indices a Picky type turns down when CONVERTING: the second D, 'bb', the G


class Picky(yaqltypes.PythonType):
    """a smart type in the style of a date / identifier / JSON string type: `check()` is PythonType's (the class of the
    value), `convert()` validates the VALUE and raises ArgumentValueException for the ones it turns down - so a call
    can pass resolution and fail in the chosen overload's argument conversion"""
    __slots__ = tuple()

    def convert(self, value, receiver, context, function_spec, engine, *args, **kwargs):
        value = super().convert(value, receiver, context, function_spec, engine, *args, **kwargs)
        if any(value is CORPUS[i] for i in REJECTED) or (type(value) is str and value == CORPUS[9]):
            raise exceptions.ArgumentValueException()
        return value


def picky_rows(fds):
    """for the model of the phase after choose_overload: [[fid, [positions], [keyword keys], star]] of the parameters
    whose type validates in convert()"""
    rows = []
    for fid, fd in sorted(fds.items()):
        ps, ks, star = [], [], False
        for key, p in fd.parameters.items():
            if isinstance(p.value_type, Picky):
                if key == '*':
                    star = True
                elif p.position is not None:
                    ps.append(p.position)
                elif key != '**':
                    ks.append(key)
        if ps or ks or star:
            rows.append([fid, ps, ks, star])
    return rows


def make_type(ts):
    """ts: None (undeclared) | 'String' .. | ['py', clsname, nullable] | ['py', [clsname, ..], nullable] (a tuple of
    classes, as `Number()` has) | ['picky', clsname, nullable] (a PythonType subclass whose convert() validates)"""
    if ts is None:
        return None
    if isinstance(ts, (list, tuple)):
        if ts[0] == 'picky':        # ['picky', clsname, nullable]: the class decides check(), convert() validates the value
            return Picky(LATTICE[ts[1]], ts[2])
        if isinstance(ts[1], (list, tuple)):
            return yaqltypes.PythonType(tuple(LATTICE[c] for c in ts[1]), ts[2])
        return yaqltypes.PythonType(LATTICE[ts[1]], ts[2])
    return TYPE_SPECS[ts]()


class Unsupported(Exception):
    pass


def expression_kinds(vt):
    """the expression classes a YaqlExpression smart type accepts, found out through its public `check`
    on one blank instance of every known expression class ([] = every Expression)"""
    ks = [i for i, c in enumerate(T.ekinds) if vt.check(c.__new__(c), None, None)]
    return [] if len(ks) == len(T.ekinds) else ks


def enc_type(vt):
    if isinstance(vt, yaqltypes.Lambda):
        return dict(t='lambda', m=bool(vt.method))
    if isinstance(vt, yaqltypes.MappingRule):
        return dict(t='mr')
    if isinstance(vt, yaqltypes.YaqlExpression):
        return dict(t='ye', ks=expression_kinds(vt))
    if isinstance(vt, yaqltypes.Keyword):
        return dict(t='kw')
    if isinstance(vt, yaqltypes.Constant):
        kind = {yaqltypes.StringConstant: 'string', yaqltypes.BooleanConstant: 'boolean',
                yaqltypes.NumericConstant: 'numeric', yaqltypes.Constant: 'any'}.get(type(vt))
        if kind is None:
            raise Unsupported(type(vt).__name__)
        return dict(t='const', n=bool(vt.nullable), kind=kind)
    if isinstance(vt, yaqltypes.HiddenParameterType):
        h = {yaqltypes.Context: 'context', yaqltypes.Engine: 'engine', yaqltypes.Receiver: 'receiver',
             yaqltypes.Super: 'super', yaqltypes.Delegate: 'delegate', yaqltypes.FunctionDefinition: 'fdef',
             yaqltypes.YaqlInterface: 'yaqlInterface'}.get(type(vt))
        if h is None:
            raise Unsupported(type(vt).__name__)
        return dict(t='hid', h=h)
    if isinstance(vt, yaqltypes.PythonType) and type(vt).check in (
            yaqltypes.GenericType.check,):
        d = dict(t='py', n=bool(vt.nullable), vs=[T.validator(v) for v in vt.validators])
        if isinstance(vt.python_type, tuple):
            d['many'] = [T.cls(c) for c in vt.python_type]
        else:
            d['one'] = T.cls(vt.python_type)
        return d
    if isinstance(vt, yaqltypes.Iterable):          # Iterable.check differs only under yaql.iterableDicts
        d = dict(t='py', n=bool(vt.nullable), vs=[T.validator(v) for v in vt.validators])
        d['one'] = T.cls(vt.python_type)
        return d
    raise Unsupported(type(vt).__name__)


def lit_of(v):
    if v is None:
        return 'null'
    if type(v) is bool:
        return 'bool'
    if isinstance(v, str):
        return 'str'
    if isinstance(v, (int, float)):
        return 'num'
    return 'other'


warm_up()


class Probes:
    """probe ids and results of the expression objects of one call"""

    def __init__(self):
        self.probe = {}
        self.result = {}
        self.obj = {}
        self.keep = []

    def add(self, e, probe, result):
        self.probe[id(e)] = probe
        self.result[id(e)] = result
        self.obj[probe] = e
        self.keep.append(e)


_MR_SAMPLE = utils.MappingRule(None, None)
SILENT = 10000   # probe ids >= SILENT belong to expressions that do not log (context reads)


def enc_arg(a, pr):
    if a is utils.NO_VALUE or a is specs.NO_DEFAULT:
        return dict(k='nv')
    if isinstance(a, expressions.MappingRuleExpression):
        return dict(k='m', s=enc_arg(a.source, pr), d=enc_arg(a.destination, pr),
                    r=dict(T.val(_MR_SAMPLE), t=9998), ek=T.ekind(type(a)))
    if isinstance(a, expressions.Constant):
        return dict(k='c', v=T.val(a.value), lit=lit_of(a.value),
                    kw=a.value if isinstance(a, expressions.KeywordConstant) else None, ek=T.ekind(type(a)))
    if isinstance(a, expressions.Expression):
        return dict(k='e', ek=T.ekind(type(a)), probe=pr.probe[id(a)], ur=bool(a.uses_receiver),
                    r=T.val(pr.result[id(a)]))
    return dict(k='v', v=T.val(a))


_ENC_FD = {}


def enc_fd(fd, fid):
    """the definition as the model reads it; cached per definition object (definitions are not mutated by the
    harness after they were built)"""
    c = _ENC_FD.get(id(fd))
    if c is not None and c[0] is fd and c[1] == fid:
        return c[2]
    if len(_ENC_FD) > 20000:
        _ENC_FD.clear()
    d = _enc_fd(fd, fid)
    _ENC_FD[id(fd)] = (fd, fid, d)
    return d


def _enc_fd(fd, fid):
    ps = []
    for key, p in fd.parameters.items():
        ps.append({'key': key, 'name': p.name, 'alias': p.alias or None, 'pos': p.position,
                   'def': None if p.default is specs.NO_DEFAULT else enc_arg(p.default, None),
                   'ty': enc_type(p.value_type)})
    return dict(id=fid, fn=bool(fd.is_function), me=bool(fd.is_method), nk=bool(fd.no_kwargs), ps=ps)


# ---------------------------------------------------------------- building real families

REC = []       # (fid, locals) of payload invocations
LOG = []       # probe ids in evaluation order


def tick(id, value):
    LOG.append(id)
    return value


PAYLOAD_MODULE = 'yaqlgen_payloads'      # every generated payload lives in this (virtual) module
_FACTORIES = {}


def signature_text(params):
    """params: [{name, kind: pos|star|kwonly|starstar, default?}] -> the text between the parentheses"""
    sig = []
    star_seen = False
    for p in params:
        n = p['name']
        d = ('=DEFAULTS[%r]' % n) if 'default' in p else ''
        if p['kind'] == 'pos':
            sig.append(n + d)
        elif p['kind'] == 'star':
            sig.append('*' + n)
            star_seen = True
        elif p['kind'] == 'kwonly':
            if not star_seen:
                sig.append('*')
                star_seen = True
            sig.append(n + d)
        else:
            sig.append('**' + n)
    return ', '.join(sig)


_CODE = {}


def _compiled(src):
    c = _CODE.get(src)
    if c is None:
        if len(_CODE) > 4000:
            _CODE.clear()
        c = _CODE[src] = compile(src, '<generated payload>', 'exec')
    return c


def make_payload(fid, params, defaults, style='def', pyname='payload'):
    """a real Python callable with the given signature that records what it received and returns its tag.
    style: 'def' (module-level function) | 'factory' (closure of ONE factory per signature: all its closures
    share code, __module__ and __qualname__) | 'lambda' | 'classfn' (function of a class made by one factory)"""
    sig = signature_text(params)
    if style == 'def':
        src = 'def %s(%s):\n    REC.append((FID, dict(locals())))\n    return FID\n' % (pyname, sig)
        env = dict(REC=REC, FID=fid, DEFAULTS=defaults, __name__=PAYLOAD_MODULE)
        exec(_compiled(src), env)
        return env[pyname]
    if style == 'lambda':
        src = 'payload = lambda %s: (REC.append((FID, dict(locals()))), FID)[1]\n' % sig
        env = dict(REC=REC, FID=fid, DEFAULTS=defaults, __name__=PAYLOAD_MODULE)
        exec(_compiled(src), env)
        return env['payload']
    key = (style, sig, pyname)
    if key not in _FACTORIES:
        if style == 'factory':
            src = ('def make(FID, DEFAULTS):\n'
                   '    def %s(%s):\n'
                   '        REC.append((FID, dict(locals())))\n'
                   '        return FID\n'
                   '    return %s\n') % (pyname, sig, pyname)
        elif style == 'classfn':
            src = ('def make(FID, DEFAULTS):\n'
                   '    class Holder:\n'
                   '        @staticmethod\n'
                   '        def %s(%s):\n'
                   '            REC.append((FID, dict(locals())))\n'
                   '            return FID\n'
                   '    return Holder.%s\n') % (pyname, sig, pyname)
        else:
            raise ValueError(style)
        env = dict(REC=REC, __name__=PAYLOAD_MODULE)
        exec(src, env)
        _FACTORIES[key] = env['make']
        if len(_FACTORIES) > 4000:
            _FACTORIES.pop(next(iter(_FACTORIES)))
    return _FACTORIES[key](fid, defaults)


def value_of(vs):
    """value spec: ['corpus', i] | ['lit', python literal] | ['none'] | ['novalue']"""
    if vs[0] == 'corpus':
        return CORPUS[vs[1]]
    if vs[0] == 'lit':
        return vs[1]
    if vs[0] == 'novalue':
        return utils.NO_VALUE
    return None


# An overload spec (`ospec`) is a Python SIGNATURE plus decorators:
#   {id, kind: function|method|extension, nk, fname?, x?,
#    params: [{name, kind: pos|star|kwonly|starstar, default?: valuespec, ty: typespec, alias?, nullable?,
#              byname?: hidden through its NAME (no decorator), byindex?: decorated by position}],
#    py?: {style: def|factory|lambda|classfn, dseed: decorators applied in an order shuffled by this seed,
#          via: fd | fdconv | callable, nameby: arg | deco | pyname, meta: value?}}
# typespec: None (undeclared) | 'String' .. (a smart type object is handed to the decorator) |
#           ['py', cls, nullable] (PythonType object) | ['cls', cls, nullable|None] (the bare Python class)

HIDDEN_BY_NAME = {'context': yaqltypes.Context, '__context': yaqltypes.Context,
                  'engine': yaqltypes.Engine, '__engine': yaqltypes.Engine,
                  'yaql_interface': yaqltypes.YaqlInterface, '__yaql_interface': yaqltypes.YaqlInterface}


def _py(ospec):
    return ospec.get('py') or {}


def py_name(ospec):
    """the Python name of the payload function"""
    if _py(ospec).get('nameby') == 'pyname' and _py(ospec).get('style', 'def') != 'lambda':
        return ospec.get('fname', 'f') + '_' * _py(ospec).get('underscores', 1)
    return 'payload'


def decorator_list(ospec):
    """the decorators of the overload as (label, decorator, declaration) in the order they are applied
    (innermost first); declaration: what a parameter decorator passes to set_parameter, as data"""
    ds = []
    pos = 0
    npos = sum(1 for p in ospec['params'] if p['kind'] == 'pos')
    for p in ospec['params']:
        index = pos if p['kind'] == 'pos' else npos if p['kind'] == 'star' else None
        if p['kind'] == 'pos':
            pos += 1
        if p.get('byname'):
            continue
        ts = p.get('ty')
        if ts is None and 'alias' not in p and p.get('nullable') is None:
            continue
        ref = index if p.get('byindex') and index is not None else p['name']
        decl = dict(alias=p.get('alias'))
        decl['index' if isinstance(ref, int) else 'name'] = ref
        if isinstance(ts, (list, tuple)) and ts[0] == 'cls':
            decl.update(ty=dict(cls=LATTICE[ts[1]]), nullable=ts[2])
            ds.append(('parameter:' + p['name'],
                       specs.parameter(ref, LATTICE[ts[1]], nullable=ts[2], alias=p.get('alias')), decl))
            continue
        ty = make_type(ts)
        if isinstance(ty, yaqltypes.HiddenParameterType):
            decl.update(ty=dict(smart=ty), nullable=None)
            ds.append(('inject:' + p['name'], specs.inject(ref, ty, alias=p.get('alias')), decl))
        else:
            decl.update(ty=None if ty is None else dict(smart=ty), nullable=p.get('nullable'))
            ds.append(('parameter:' + p['name'], specs.parameter(ref, ty, nullable=p.get('nullable'),
                                                               alias=p.get('alias')), decl))
    if ospec['kind'] == 'method':
        ds.append(('method', specs.method, None))
    elif ospec['kind'] == 'extension':
        ds.append(('extension_method', specs.extension_method, None))
    if ospec.get('nk'):
        ds.append(('no_kwargs', specs.no_kwargs, None))
    if _py(ospec).get('nameby') == 'deco':
        ds.append(('name', specs.name(ospec.get('fname', 'f')), None))
    if 'meta' in _py(ospec):
        ds.append(('meta', specs.meta('category', _py(ospec)['meta']), None))
    if _py(ospec).get('dseed') is not None:
        import random
        random.Random(_py(ospec)['dseed']).shuffle(ds)
    return ds


def sig_request(ospec, convention):
    """the Python signature and the decorators of an overload, as the Lean model of get_function_definition
    (`Yaql.Signature.define`) reads them"""
    ps = ospec['params']
    args = [p for p in ps if p['kind'] == 'pos']
    kwonly = [p for p in ps if p['kind'] == 'kwonly']
    star = [p['name'] for p in ps if p['kind'] == 'star']
    sstar = [p['name'] for p in ps if p['kind'] == 'starstar']
    decls = []
    for _, _, d in decorator_list(ospec):
        if d is None:
            continue
        d = dict(d)
        if d['ty'] is not None:
            d['ty'] = dict(cls=T.cls(d['ty']['cls'])) if 'cls' in d['ty'] else dict(smart=enc_type(d['ty']['smart']))
        decls.append(d)
    conv = None
    if convention:
        conv = [[p['name'], camel_case(p['name'].rstrip('_'))] for p in ps]
    return dict(args=[p['name'] for p in args],
                defaults=[enc_arg(value_of(p['default']), None) for p in args if 'default' in p],
                varargs=star[0] if star else None, kwonly=[p['name'] for p in kwonly],
                kwdefaults=[[p['name'], enc_arg(value_of(p['default']), None)] for p in kwonly if 'default' in p],
                varkw=sstar[0] if sstar else None, decls=decls, conv=conv)


def ask_tables(drv, items):
    """items: [(ospec, convention, real FunctionDefinition)] -> [(ospec, differences)] where the table of the Lean
    model of get_function_definition differs from the definition yaql built"""
    if not drv or not items:
        return []
    out = drv.ask(dict(p='Resolve', op='sig', lat=T.lattice(), consts=sig_consts(),
                       sigs=[sig_request(o, conv) for o, conv, _ in items]))['out']
    bad = []
    for (o, conv, fd), m in zip(items, out):
        d = table_vs_model(fd, m)
        if d:
            bad.append((o, d))
    return bad


def sig_consts():
    return dict(object=T.cls(object), vTrue=T.validator(yaqltypes.PythonType(object).validators[0]))


def _norm_default(d):
    if d is None:
        return None
    if d['k'] == 'nv':
        return ['nv']
    v = d.get('v')
    return [d['k'], None if v is None else [v['c'], v['t']]]


def table_vs_model(fd, m):
    """the real FunctionDefinition against the table of the Lean model, in dict order -> list of differences"""
    if 'err' in m:
        return ['the model refuses the declarations (%s), yaql built a definition' % m['err']]
    real = enc_fd(fd, 0)['ps']
    if [p['key'] for p in real] != [p['key'] for p in m['ps']]:
        return ['parameter keys in dict order: real %r, model %r' % ([p['key'] for p in real], [p['key'] for p in m['ps']])]
    out = []
    for r, q in zip(real, m['ps']):
        for what in ('name', 'alias', 'pos', 'ty'):
            if r[what] != q[what]:
                out.append('%s.%s: real %r, model %r' % (r['key'], what, r[what], q[what]))
        if _norm_default(r['def']) != _norm_default(q['def']):
            out.append('%s.default: real %r, model %r' % (r['key'], r['def'], q['def']))
    return out


def build_callable(ospec):
    """the decorated Python callable of an overload spec"""
    defaults = {p['name']: value_of(p['default']) for p in ospec['params'] if 'default' in p}
    f = make_payload(ospec['id'], ospec['params'], defaults, _py(ospec).get('style', 'def'), py_name(ospec))
    for _, d, _ in decorator_list(ospec):
        f = d(f)
    return f


def name_arg(ospec):
    """the `name=` argument of register_function / get_function_definition (None: taken from the decorator or
    from the Python name of the function)"""
    return ospec.get('fname', 'f') if _py(ospec).get('nameby', 'arg') == 'arg' else None


def uses_convention(ospec):
    """is the definition made with the naming convention of the context (CamelCase for the harness's contexts)"""
    return _py(ospec).get('via', 'fd') in ('callable', 'fdconv')


def build_fd(ospec, convention=None):
    """ospec -> FunctionDefinition (via the real decorators and get_function_definition)"""
    f = build_callable(ospec)
    if _py(ospec).get('via') == 'fdconv' and convention is None:
        convention = ROOT.convention
    return specs.get_function_definition(f, name=name_arg(ospec), convention=convention)


# ---------------------------------------------------------------- the definition the documented rules prescribe
# doc/source/extending_yaql.rst ("Extending yaql with new functions", "Specifying function parameter types",
# "Auto-injected function parameters", "Automatic parameters", "Naming conventions") + the docstring-level contract of
# specs.parameter / inject / method / extension_method / no_kwargs / name / meta, derived from the overload SPEC
# alone - no yaql function is asked what it made of the Python callable.

class ExpParam:
    __slots__ = ('name', 'alias', 'position', 'default', 'value_type')

    def __init__(self, name, alias, position, default, value_type):
        self.name, self.alias, self.position, self.default, self.value_type = name, alias, position, default, value_type


class ExpFD:
    """the expected FunctionDefinition: duck-typed for spec_resolve / enc_fd"""
    __slots__ = ('parameters', 'is_function', 'is_method', 'no_kwargs', 'name', 'meta', 'tag')

    def __init__(self, tag):
        self.parameters = {}
        self.tag = tag


def camel_case(name):
    """CamelCaseConvention: every `_x` that is not at the start becomes `X`"""
    out = []
    i = 0
    while i < len(name):
        c = name[i]
        if c == '_' and i > 0 and i + 1 < len(name) and (name[i + 1].isalnum() or name[i + 1] == '_'):
            out.append(name[i + 1].upper())
            i += 2
        else:
            out.append(c)
            i += 1
    return ''.join(out)


def expected_type(p, default):
    ts = p.get('ty')
    if p.get('byname'):
        return HIDDEN_BY_NAME[p['name']]()
    if ts is None:
        plain = default is None or default is specs.NO_DEFAULT or default is utils.NO_VALUE
        nullable = p.get('nullable')
        return yaqltypes.PythonType(object if plain else type(default), True if nullable is None else nullable)
    if isinstance(ts, (list, tuple)) and ts[0] == 'cls':
        return yaqltypes.PythonType(LATTICE[ts[1]], ts[2] if ts[2] is not None else default is None)
    return make_type(ts)            # a smart type is taken as it is (a `nullable=` next to it is ignored)


def expected_fd(ospec, convention=None):
    """convention: None (definition prepared without one) | True (the context's CamelCaseConvention)"""
    if convention is None:
        convention = uses_convention(ospec)
    e = ExpFD(ospec['id'])
    npos = sum(1 for p in ospec['params'] if p['kind'] == 'pos')
    pos = 0
    for p in ospec['params']:
        kind = p['kind']
        name = p['name']
        if kind == 'pos':
            key, position = name, pos
            pos += 1
        elif kind == 'star':
            key, position = '*', npos
        elif kind == 'kwonly':
            key, position = name, None
        else:
            key, position = '**', None
        default = value_of(p['default']) if 'default' in p and kind in ('pos', 'kwonly') else specs.NO_DEFAULT
        alias = p.get('alias')
        if alias is None and convention:
            alias = camel_case(name.rstrip('_'))
        e.parameters[key] = ExpParam(name, alias, position, default, expected_type(p, default))
    e.is_function = ospec['kind'] in ('function', 'extension')
    e.is_method = ospec['kind'] in ('method', 'extension')
    e.no_kwargs = bool(ospec.get('nk'))
    e.name = ospec.get('fname', 'f')
    e.meta = {'category': _py(ospec)['meta']} if 'meta' in _py(ospec) else {}
    return e


def _same_default(a, b):
    if a is b:
        return True
    if a is specs.NO_DEFAULT or b is specs.NO_DEFAULT or a is utils.NO_VALUE or b is utils.NO_VALUE:
        return False
    return type(a) is type(b) and a == b


def table_diff(fd, exp):
    """how the FunctionDefinition yaql built differs from the expected one -> list of strings"""
    out = []
    for what in ('name', 'is_function', 'is_method', 'no_kwargs'):
        if getattr(fd, what) != getattr(exp, what):
            out.append('%s: real %r, documented %r' % (what, getattr(fd, what), getattr(exp, what)))
    # (fd.meta is not compared: what the metadata dictionary holds does not enter resolution)
    if set(fd.parameters) != set(exp.parameters):
        out.append('parameter keys: real %r, documented %r' % (sorted(fd.parameters), sorted(exp.parameters)))
        return out
    for key, e in exp.parameters.items():
        r = fd.parameters[key]
        if r.name != e.name:
            out.append('%s.name: real %r, documented %r' % (key, r.name, e.name))
        if (r.alias or None) != (e.alias or None):
            out.append('%s.alias: real %r, documented %r' % (key, r.alias, e.alias))
        if r.position != e.position:
            out.append('%s.position: real %r, documented %r' % (key, r.position, e.position))
        if not _same_default(r.default, e.default):
            out.append('%s.default: real %r, documented %r' % (key, r.default, e.default))
        try:
            rt, et = enc_type(r.value_type), enc_type(e.value_type)
        except Unsupported:
            rt, et = type(r.value_type).__name__, type(e.value_type).__name__
        if rt != et:
            out.append('%s.value_type: real %s %r, documented %s %r' % (
                key, type(r.value_type).__name__, rt, type(e.value_type).__name__, et))
    return out


def register_callable(ctx, f, reg_name, def_name, exclusive):
    """ctx.register_function(<python callable>[, name=reg_name], exclusive=..) -> the FunctionDefinition the
    context made of it, found through the public get_functions (what is there under the documented name
    `def_name` afterwards and was not before); None when nothing new is there.
    InvalidMethodException passes through."""
    before = list(ctx.get_functions(def_name)[0])
    if reg_name is None:
        ctx.register_function(f, exclusive=exclusive)
    else:
        ctx.register_function(f, name=reg_name, exclusive=exclusive)
    new = [fd for fd in ctx.get_functions(def_name)[0] if not any(fd is x for x in before)]
    return new[0] if len(new) == 1 else None


ENGINE = factory.YaqlFactory().create()
ROOT = yaql.create_context()


class ListContext(contexts.Context):
    """a Context whose get_functions enumerates the overloads in a prescribed order"""

    def __init__(self, parent_context=None, data=utils.NO_VALUE, convention=None):
        super().__init__(parent_context, data, convention)
        self.order = {}

    def get_functions(self, name, predicate=None, use_convention=False):
        s, excl = super().get_functions(name, predicate, use_convention)
        name = name.rstrip('_')
        order = self.order.get(name)
        if order is None:
            return s, excl
        return [fd for fd in order if fd in s], excl


RELAY = {}     # 'body': what the function with the injected `yaql_interface` does when it is called next


def relay(yaql_interface):
    """a host function that gets the hidden `yaql_interface` parameter and makes calls through it"""
    return RELAY['body'](yaql_interface)


RELAY_NAME = '#relay'


def _base_context():
    ctx = ROOT.create_child_context()
    ctx.register_function(tick, name='tick')
    ctx.register_function(relay, name=RELAY_NAME)
    for i, v in enumerate(CORPUS):
        ctx['$v%d' % i] = v
    return ctx


class Family:
    """layers: [{fns: [ospec], x: bool, shape?}] nearest first.  Builds root <- tick layer <- layer[n-1] <- .. <- layer[0].
    A layer is one context: a plain Context (default), a LinkedContext over a parentless Context that holds the
    overloads (shape {'k': 'linked'}), or a MultiContext whose members' overload sets make up the layer (shape
    {'k': 'multi', 'n': members, 'split': [member of the j-th overload], 'morder': order of the members in the
    MultiContext, 'mparents': 'first' | 'all'}).
    An overload is registered with exclusive=True when its layer has `x` or the ospec itself has `x` (only some
    registrations of a layer saying so).  `reg_order`: [(layer index, overload id)] - the order of the
    register_function calls (default: layer by layer from the outermost, each in list order); `reuse`: a Family
    whose FunctionDefinition objects / Python callables are registered again instead of building new ones.
    The family keeps its OWN record of what was registered where (never reads yaql's state): `held`, `excl`,
    and per overload the definition the documented rules prescribe (`exp`)."""

    def __init__(self, layers, ordered=False, reg_order=None, reuse=None):
        self.spec = layers
        self.fds = {}           # fid -> FunctionDefinition
        self.exp = {}           # fid -> ExpFD (what the documented rules make of the Python callable)
        self.callables = {}     # fid -> the decorated Python callable (overloads registered as callables)
        self.prepared = {}      # fid -> FunctionDefinition prepared by get_function_definition
        self.invalid = []       # fids that register_function rejected
        self.table_fails = []   # (fid, [differences between the real and the documented definition])
        self.ordered = ordered
        cls = ListContext if ordered else contexts.Context
        ctx = _base_context()
        n = len(layers)
        self.layer_ctx = [None] * n     # the context that makes up the layer
        self.first_member = {}
        self.members = [None] * n       # the plain contexts behind it
        # the same construction as the model is told it (the tick / root layers below hold no overload of the name)
        self.msteps = []
        self.handle = {}                # id(context object) -> handle
        prev = None

        def new(step, obj):
            self.msteps.append(step)
            self.handle[id(obj)] = len(self.handle)
            return obj

        def plain(parent_obj, parent_handle):
            c = cls(parent_obj, convention=ROOT.convention)
            return new(dict(k='root') if parent_handle is None else dict(k='child', i=parent_handle), c)
        for li in reversed(range(n)):
            shape = layers[li].get('shape') or {}
            k = shape.get('k', 'plain')
            ph = None if prev is None else self.handle[id(prev)]
            if k == 'linked':
                target = new(dict(k='root'), cls(convention=ROOT.convention))
                ctx = new(dict(k='linked', p=ph, t=self.handle[id(target)]), contexts.LinkedContext(ctx, target))
                self.members[li] = [target]
            elif k == 'multi':
                nm = max(1, shape.get('n', 2))
                ms = []
                for j in range(nm):
                    if j == 0 or shape.get('mparents') == 'all':
                        ms.append(plain(ctx, ph))
                    else:
                        ms.append(new(dict(k='root'), cls(convention=ROOT.convention)))
                order = [j for j in shape.get('morder', range(nm)) if j < nm]
                order += [j for j in range(nm) if j not in order]
                ctx = new(dict(k='multi', ms=[self.handle[id(ms[j])] for j in order]),
                          contexts.MultiContext([ms[j] for j in order]))
                self.members[li] = ms
                self.first_member[li] = order[0]
            else:
                ctx = plain(ctx, ph)
                self.members[li] = [ctx]
            self.layer_ctx[li] = ctx
            prev = ctx
        self.ctxs = self.layer_ctx
        self.ctx = ctx
        self.held = [[] for _ in layers]
        self.member_of = {}
        self.excl = [False] * n
        if reg_order is None:
            reg_order = [(li, o['id']) for li in reversed(range(n)) for o in layers[li]['fns']]
        by_id = {(li, o['id']): (j, o) for li, layer in enumerate(layers) for j, o in enumerate(layer['fns'])}
        for li, fid in reg_order:
            j, o = by_id[(li, fid)]
            self._register(li, j, o, reuse)
        if ordered:
            for li, layer in enumerate(layers):
                self.set_order(li, [o['id'] for o in layer['fns']])

    def _target(self, li, j, o):
        """the context object register_function is called on, and the member that ends up holding the overload"""
        shape = self.spec[li].get('shape') or {}
        k = shape.get('k', 'plain')
        if k == 'linked':
            return (self.layer_ctx[li] if o['id'] % 2 == 0 else self.members[li][0]), 0
        if k == 'multi':
            split = shape.get('split') or []
            mi = split[j] % len(self.members[li]) if j < len(split) else 0
            if mi == self.first_member[li] and o['id'] % 2 == 0:
                return self.layer_ctx[li], mi          # MultiContext.register_function goes to its first member
            return self.members[li][mi], mi
        return self.layer_ctx[li], 0

    def _register(self, li, j, o, reuse):
        fid = o['id']
        x = bool(self.spec[li].get('x')) or bool(o.get('x'))
        ctx, mi = self._target(li, j, o)
        known = reuse is not None and fid in reuse.exp
        exp = reuse.exp[fid] if known else expected_fd(o)
        try:
            if _py(o).get('via') == 'callable':
                f = reuse.callables[fid] if reuse is not None and fid in reuse.callables else build_callable(o)
                self.callables[fid] = f
                fd = register_callable(ctx, f, name_arg(o), exp.name, x)
                if fd is None:
                    self.table_fails.append((fid, ['no new definition under the documented name %r after '
                                                   'register_function' % exp.name]))
                    return
            else:
                fd = reuse.fds[fid] if reuse is not None and fid in reuse.fds else build_fd(o)
                ctx.register_function(fd, exclusive=x)
        except exceptions.InvalidMethodException:
            self.invalid.append(fid)
            return
        self.fds[fid] = fd
        self.exp[fid] = exp
        self.held[li].append(fid)
        self.msteps.append(dict(k='reg', i=self.handle[id(ctx)], name=exp.name, fid=fid, x=x))
        self.member_of[fid] = mi
        self.excl[li] = self.excl[li] or x
        d = table_diff(fd, exp) if not (known and fd is reuse.fds.get(fid)) else None
        if d:
            self.table_fails.append((fid, d))

    def layer_exclusive(self, li):
        """the layer is exclusive for the name when ANY accepted registration said so"""
        return self.excl[li]

    def chain(self, name='f'):
        """the harness's record: [(documented definitions held by the layer under `name`, exclusive)] nearest first"""
        return [([self.exp[f] for f in self.held[li] if self.exp[f].name == name], self.excl[li])
                for li in range(len(self.spec))]

    def enc_layers(self):
        out = []
        for li, layer in enumerate(self.spec):
            fs = []
            for o in layer['fns']:
                if o['id'] in self.fds:
                    fs.append(enc_fd(self.fds[o['id']], o['id']))
            out.append(dict(fs=fs, x=self.layer_exclusive(li)))
        return out

    def model_hist(self, calls):
        """the construction, the registrations in the order they were made and the calls from the nearest
        context, as a history for the model (`Yaql.ResolveCtx.run` / `resolveIn`)"""
        top = self.handle[id(self.ctx)]
        return dict(defs=[enc_fd(fd, i) for i, fd in sorted(self.fds.items())],
                    steps=self.msteps + [dict(k='call', i=top, name='f', call=c.enc()) for c in calls])

    def sig_items(self):
        return [(o, uses_convention(o), self.fds[o['id']]) for l in self.spec for o in l['fns'] if o['id'] in self.fds]

    def set_order(self, layer_index, fids):
        """the enumeration order of a layer: every plain context behind it enumerates its own overloads in the
        order they have in `fids`"""
        for mi, m in enumerate(self.members[layer_index]):
            m.order['f'] = [self.fds[i] for i in fids if i in self.fds and self.member_of.get(i) == mi]


class History:
    """A forest of real contexts driven step by step through the public API (Context / MultiContext /
    LinkedContext constructors, create_child_context, register_function, delete_function, runner.call).  Keeps
    its OWN record (`ctxrecord.Forest`) of what the API was told - which definitions each plain context holds
    under which name and for which names some registration said exclusive=True (delete_function drops the
    definition and the name's flag, as Context does) - and never reads yaql's state.
    steps: ['root'] | ['child', i] | ['multi', [i, ..]] | ['linked', parent | None, target] |
           ['reg', i, fid, exclusive]              the prepared FunctionDefinition of overload fid (one object per fid)
           ['regc', i, fid, exclusive, did]        the Python CALLABLE of overload fid (one object per fid) is handed
                                                   to register_function; the definition made of it is `did`
           ['del', i, did] | ['call', i, cspec, name] | ['call', i, cspec, name, via]
           via: how the host makes the call - None: ctx(name, engine, receiver)(..); 'yi': through THE YaqlInterface of
           context i (yi.name(..) / yi.on(receiver).name(..)); 'yid': through the interface derived last with on();
           'yir': through an interface made with a receiver; 'inj': inside a host function, through the
           `yaql_interface` it gets injected (consecutive 'inj' calls from one context share one invocation)
    defs: {fid: ospec}.  Definition ids: did = fid for prepared definitions."""

    def __init__(self, defs, cls=None):
        import ctxrecord
        self.defs = {int(k): v for k, v in defs.items()}
        self.cls = cls or contexts.Context
        self.fds = {}           # did -> FunctionDefinition
        self.exp = {}           # did -> ExpFD
        self.tag = {}           # did -> fid (the tag its payload returns)
        self.by_tag = {}        # fid -> some FunctionDefinition with that payload
        self.conv = {}          # did -> made with the naming convention
        self.callables = {}
        self.base = _base_context()
        self.ctxs = []
        self.rec = ctxrecord.Forest()
        self.msteps = []        # the steps as the model is told them
        self.invalid = []
        self.table_fails = []
        # the host entry point YaqlInterface: ONE interface per context, kept for the whole history, the interfaces
        # derived from it with on() (the last one per context is kept alive too), one made WITH a receiver;
        # value = (interface object, handle of the model)
        self.yi = {}
        self.derived = {}
        self.yir = {}
        self.n_yi = 0

    # ---- calls through YaqlInterface (yi.name(..), yi.on(obj).name(..), the injected yaql_interface)
    def _handle(self, step):
        self.msteps.append(step)
        self.n_yi += 1
        return self.n_yi - 1

    def _through(self, base, i, call, name, keep=True):
        """the call made through the interface family of `base` = (interface, model handle): without receiver
        through the interface itself, with one through base.on(receiver) - or through base itself when that IS
        its receiver"""
        obj, h = base
        if call.recv is not utils.NO_VALUE and obj.sender is not call.recv:
            obj, h = obj.on(call.recv), self._handle(dict(k='on', y=h, recv=T.val(call.recv)))
            if keep:
                self.derived[i] = (obj, h)
        self.msteps.append(dict(k='ycall', y=h, name=name, call=call.enc()))
        return lambda n, recv, args, kw: getattr(obj, n)(*args, **kw)

    def _invoker(self, i, via, call, name):
        """-> the `invoke` of run_real for this way of calling (and tells the model the same steps)"""
        from yaql import yaql_interface
        ctx = self.ctxs[i]
        norecv = call.recv is utils.NO_VALUE
        if via == 'yir' and not norecv:
            if i not in self.yir:
                self.yir[i] = (yaql_interface.YaqlInterface(ctx, ENGINE, call.recv),
                               self._handle(dict(k='yi', i=i, recv=T.val(call.recv))))
            return self._through(self.yir[i], i, call, name, keep=False)
        if via == 'yid' and i in self.derived and not norecv:
            return self._through(self.derived[i], i, call, name)
        if via in ('yi', 'yid', 'yir'):
            if i not in self.yi:
                self.yi[i] = (yaql_interface.YaqlInterface(ctx, ENGINE), self._handle(dict(k='yi', i=i)))
            return self._through(self.yi[i], i, call, name)
        self.msteps.append(dict(k='call', i=i, name=name, call=call.enc()))
        return None

    def call_group(self, items):
        """consecutive call steps [(step, BuiltCall)] from ONE context, all made inside one invocation of a host
        function through the `yaql_interface` it gets injected -> [(real outcome, rules' outcome)]"""
        i = items[0][0][1]
        v = self.view(i)
        out = []
        injected = (None, self._handle(dict(k='inject', i=i)))

        def body(yi):
            base = (yi, injected[1])
            for st, call in items:
                invoke = self._through(base, i, call, st[3], keep=False)
                real = run_real(v, call, st[3], invoke)
                exp = spec_resolve(v, call, st[3], chain=self.chain(i, st[3]))
                if 'id' in exp:
                    exp['id'] = exp['id'].tag
                out.append((real, exp))
        RELAY['body'] = body
        try:
            self.ctxs[i](RELAY_NAME, ENGINE)()
        except Exception as e:          # the host function itself could not be called / returned abnormally
            failure = dict(log=[], err='host function with injected yaql_interface: ' + err_class(e))
        else:
            failure = dict(log=[], err='host function with injected yaql_interface did not run')
        finally:
            RELAY.pop('body', None)
        for st, call in items[len(out):]:
            self.msteps.append(dict(k='call', i=i, name=st[3], call=call.enc()))
            exp = spec_resolve(v, call, st[3], chain=self.chain(i, st[3]))
            if 'id' in exp:
                exp['id'] = exp['id'].tag
            out.append((dict(failure), exp))
        return out

    def callable_of(self, fid):
        """ONE Python callable per overload spec: prepared definitions and register_function(<callable>) calls all
        start from the same decorated function object"""
        if fid not in self.callables:
            self.callables[fid] = build_callable(self.defs[fid])
        return self.callables[fid]

    def fd(self, fid):
        if fid not in self.fds:
            o = self.defs[fid]      # a PREPARED definition: the convention only when it was asked for
            conv = _py(o).get('via') == 'fdconv'
            fd = specs.get_function_definition(self.callable_of(fid), name=name_arg(o),
                                               convention=ROOT.convention if conv else None)
            self._new_def(fid, fid, fd, expected_fd(o, convention=conv), conv)
        return self.fds[fid]

    def recheck_tables(self):
        """at the end: every definition still is what it was made as (registrations elsewhere, clones and calls
        leave a definition object alone)"""
        for did, fd in sorted(self.fds.items()):
            d = table_diff(fd, self.exp[did])
            if d and not any(f == self.tag[did] for f, _ in self.table_fails):
                self.table_fails.append((self.tag[did], ['after the history: ' + x for x in d]))

    def _new_def(self, did, fid, fd, exp, conv):
        self.conv[did] = conv
        self.fds[did] = fd
        self.exp[did] = exp
        self.tag[did] = fid
        self.by_tag.setdefault(fid, fd)
        d = table_diff(fd, exp)
        if d:
            self.table_fails.append((fid, d))

    def fname(self, did):
        return self.defs[self.tag.get(did, did)].get('fname', 'f')

    def chain(self, i, name):
        return [([self.exp[d] for d in ids], x) for ids, x in self.rec.layers(i, name)]

    def view(self, i):
        return _View(self.ctxs[i], self.by_tag)

    def do(self, st):
        """one non-call step on the real contexts and in the record"""
        k = st[0]
        if k == 'root':
            self.ctxs.append(self.cls(self.base))
            self.rec.root()
            self.msteps.append(dict(k='root'))
        elif k == 'child':
            if not self.rec.can_child(st[1]):
                return
            self.ctxs.append(self.ctxs[st[1]].create_child_context())
            self.rec.child(st[1])
            self.msteps.append(dict(k='child', i=st[1]))
        elif k == 'multi':
            self.ctxs.append(contexts.MultiContext([self.ctxs[m] for m in st[1]]))
            self.rec.multi(st[1])
            self.msteps.append(dict(k='multi', ms=list(st[1])))
        elif k == 'linked':
            self.ctxs.append(contexts.LinkedContext(None if st[1] is None else self.ctxs[st[1]], self.ctxs[st[2]]))
            self.rec.linked(st[1], st[2])
            self.msteps.append(dict(k='linked', p=st[1], t=st[2]))
        elif k == 'reg':
            _, i, fid, x = st
            fd = self.fd(fid)
            try:
                self.ctxs[i].register_function(fd, exclusive=bool(x))
            except exceptions.InvalidMethodException:
                self.invalid.append(fid)
                return
            self.rec.register(i, self.fname(fid), fid, bool(x))
            self.msteps.append(dict(k='reg', i=i, name=self.fname(fid), fid=fid, x=bool(x)))
        elif k == 'regc':
            _, i, fid, x, did = st
            o = self.defs[fid]
            self.callable_of(fid)
            conv = self.rec.write_conv(i)
            exp = expected_fd(o, convention=conv)
            try:
                fd = register_callable(self.ctxs[i], self.callables[fid], name_arg(o), exp.name, bool(x))
            except exceptions.InvalidMethodException:
                self.invalid.append(fid)
                return
            if fd is None:
                self.table_fails.append((fid, ['no new definition under the documented name %r after '
                                               'register_function' % exp.name]))
                return
            self._new_def(did, fid, fd, exp, conv)
            self.rec.register(i, exp.name, did, bool(x))
            self.msteps.append(dict(k='reg', i=i, name=exp.name, fid=did, x=bool(x)))
        elif k == 'del':
            _, i, did = st
            if did not in self.fds:
                if did not in self.defs:
                    return
                self.fd(did)
            self.ctxs[i].delete_function(self.fds[did])
            self.rec.delete(i, self.fname(did), did)
            self.msteps.append(dict(k='del', i=i, name=self.fname(did), fid=did))
        else:
            raise ValueError(st)

    def call(self, st, call):
        """a call step: (real outcome, what the written rules give for the family of this moment)"""
        i, name = st[1], st[3]
        via = st[4] if len(st) > 4 else None
        if via == 'inj':
            return self.call_group([(st, call)])[0]
        v = self.view(i)
        real = run_real(v, call, name, self._invoker(i, via, call, name))
        exp = spec_resolve(v, call, name, chain=self.chain(i, name))
        if 'id' in exp:
            exp['id'] = exp['id'].tag
        return real, exp

    def enc(self):
        return dict(defs=[enc_fd(fd, did) for did, fd in sorted(self.fds.items())], steps=self.msteps)

    def sig_items(self):
        """[(overload spec, made with the convention, the real definition)] for the model of get_function_definition"""
        return [(self.defs[self.tag[did]], self.conv[did], fd) for did, fd in sorted(self.fds.items())]


class _View:
    def __init__(self, ctx, fds):
        self.ctx = ctx
        self.fds = fds


# ---------------------------------------------------------------- calls

def build_arg(aspec, pr):
    """aspec: ['nv'] | ['c', literal] | ['kwc', name] | ['tick', probe, corpus index] | ['wrap', probe, corpus index]
    | ['var', probe>=SILENT, corpus index] | ['m', aspec, aspec] | ['v', valuespec]"""
    k = aspec[0]
    if k == 'nv':
        return utils.NO_VALUE
    if k == 'c':
        return expressions.Constant(aspec[1])
    if k == 'kwc':
        return expressions.KeywordConstant(aspec[1])
    if k in ('tick', 'wrap'):
        e = expressions.Function('tick', expressions.Constant(aspec[1]),
                                 expressions.GetContextValue(expressions.Constant('$v%d' % aspec[2])))
        if k == 'wrap':
            e = expressions.Wrap(e)
        pr.add(e, aspec[1], CORPUS[aspec[2]])
        return e
    if k == 'var':
        e = expressions.GetContextValue(expressions.Constant('$v%d' % aspec[2]))
        pr.add(e, aspec[1], CORPUS[aspec[2]])
        return e
    if k == 'm':
        return expressions.MappingRuleExpression(build_arg(aspec[1], pr), build_arg(aspec[2], pr))
    return value_of(aspec[1])


class BuiltCall:
    def __init__(self, cspec):
        """cspec: {recv?: valuespec, args: [aspec], kw: [[name, aspec]]}"""
        self.spec = cspec
        self.pr = Probes()
        self.recv = value_of(cspec['recv']) if 'recv' in cspec else utils.NO_VALUE
        self.args = [build_arg(a, self.pr) for a in cspec['args']]
        self.kw = [(n, build_arg(a, self.pr)) for n, a in cspec.get('kw', [])]

    def enc(self):
        d = dict(args=[enc_arg(a, self.pr) for a in self.args],
                 kw=[[n, enc_arg(a, self.pr)] for n, a in self.kw])
        if 'recv' in self.spec:
            d['recv'] = T.val(self.recv)
        return d


ERR = [(exceptions.NoFunctionRegisteredException, 'Unknown'), (exceptions.NoMethodRegisteredException, 'Unknown'),
       (exceptions.NoMatchingFunctionException, 'NoMatching'), (exceptions.NoMatchingMethodException, 'NoMatching'),
       (exceptions.AmbiguousFunctionException, 'Ambiguous'), (exceptions.AmbiguousMethodException, 'Ambiguous'),
       (exceptions.MappingTranslationException, 'MappingTranslation'),
       (exceptions.ArgumentException, 'ArgumentException')]


def err_class(e):
    for c, n in ERR:
        if type(e) is c:
            return n
    return type(e).__name__


def describe(obj, call, engine=None):
    """what a payload received, in the vocabulary of the model's slots"""
    if callable(obj) and hasattr(obj, '__unwrapped__'):
        obj = obj.__unwrapped__
    if obj is utils.NO_VALUE or obj is specs.NO_DEFAULT:
        return ['nv']
    if isinstance(obj, expressions.MappingRuleExpression):
        return ['m', describe(obj.source, call), describe(obj.destination, call)]
    if isinstance(obj, utils.MappingRule):
        return ['v', 9998]
    if isinstance(obj, expressions.Constant):
        return ['v', None if obj.value is None else T.tag(obj.value)]
    if isinstance(obj, expressions.Expression):
        return ['e', call.pr.probe.get(id(obj), -1)]
    if obj is None:
        return ['v', None]
    if isinstance(obj, contexts.ContextBase):
        return ['hid', 'context']
    if obj is (engine or ENGINE):
        return ['hid', 'engine']
    return ['v', T.tag(obj)]


def describe_model_arg(a):
    k = a['k']
    if k == 'nv':
        return ['nv']
    if k == 'c':
        return ['v', None if a['v'] is None else a['v']['t']]
    if k == 'e':
        return ['e', a['probe']]
    if k == 'm':
        return ['m', describe_model_arg(a['s']), describe_model_arg(a['d'])]
    if k == 'hid':
        return ['hid', a.get('h')]
    return ['v', None if a['v'] is None else a['v']['t']]


def real_bound(fd, loc, call):
    """{param name -> descriptor} of what the payload got; hidden Receiver is compared by identity"""
    out = {}
    for key, p in fd.parameters.items():
        v = loc[p.name]
        if isinstance(p.value_type, yaqltypes.HiddenParameterType):
            if isinstance(p.value_type, yaqltypes.Receiver):
                out[p.name] = ['hid', 'receiver'] if v is call.recv else ['hid', 'receiver-wrong']
            elif isinstance(p.value_type, yaqltypes.Context):
                out[p.name] = ['hid', 'context'] if isinstance(v, contexts.ContextBase) else ['hid', 'context-wrong']
            elif isinstance(p.value_type, yaqltypes.Engine):
                out[p.name] = ['hid', 'engine'] if v is ENGINE else ['hid', 'engine-wrong']
            elif isinstance(p.value_type, yaqltypes.YaqlInterface):
                out[p.name] = ['hid', 'yaqlInterface'] if type(v).__name__ == 'YaqlInterface' \
                    else ['hid', 'yaqlInterface-wrong']
            else:
                out[p.name] = ['hid', '?']
        elif key == '*':
            out['*'] = [describe(x, call) for x in v]
        elif key == '**':
            out['**'] = {k: describe(x, call) for k, x in v.items()}
        else:
            out[p.name] = describe(v, call)
    return out


def _converted(p, d):
    """MappingRule.convert turns the expression into a utils.MappingRule"""
    if isinstance(p.value_type, yaqltypes.MappingRule) and d[0] == 'm':
        return ['v', 9998]
    return d


def model_bound(fd, m):
    """the same dictionary from the model's Bound"""
    out = {}
    by_pos = {p.position: (key, p) for key, p in fd.parameters.items() if p.position is not None and key != '*'}
    for i, s in enumerate(m['pos']):
        key, p = by_pos.get(i, (None, None))
        if p is None:
            out['?pos%d' % i] = s
        else:
            out[p.name] = None if s is None else _converted(p, describe_model_arg(s))
    if '*' in fd.parameters:
        out['*'] = [describe_model_arg(a) for a in m['extra']]
    elif m['extra']:
        out['*'] = ['unexpected']
    names = {p.name for key, p in fd.parameters.items() if p.position is None and key != '**'}
    if '**' in fd.parameters:
        out['**'] = {}
    for n, s in m['kw']:
        if n in names:
            out[n] = _converted(fd.parameters[n], describe_model_arg(s))
        else:
            out.setdefault('**', {})[n] = describe_model_arg(s)
    return out


PHASE = {}
_orig_choose = runner.choose_overload


def _choose_overload(*a, **k):
    """run-time hook: remember that resolution finished, so that an exception out of the chosen
    delegate (argument conversion, the payload call itself) is not taken for a resolution error"""
    PHASE['depth'] = PHASE.get('depth', 0) + 1
    try:
        d = _orig_choose(*a, **k)
    finally:
        PHASE['depth'] -= 1
    if PHASE['depth'] == 0:          # nested calls (argument evaluation) do not count
        PHASE['chosen'] = True
    return d


runner.choose_overload = _choose_overload


def run_real(fam, call, name='f', invoke=None):
    """`invoke(name, receiver, args, kwargs)`: another host entry point that makes the same call (default: the
    context itself, `ctx(name, engine, receiver)(*args, **kwargs)`)"""
    del LOG[:]
    del REC[:]
    PHASE['chosen'] = False
    PHASE['depth'] = 0
    try:
        if invoke is None:
            fam.ctx(name, ENGINE, call.recv)(*call.args, **dict(call.kw))
        else:
            invoke(name, call.recv, call.args, dict(call.kw))
    except Exception as e:
        if PHASE['chosen']:
            return dict(log=list(LOG), delegate_error=type(e).__name__)
        return dict(log=list(LOG), err=err_class(e))
    if not REC:
        return dict(log=list(LOG), err='no-payload-ran')
    fid, loc = REC[-1]
    return dict(log=list(LOG), id=fid, bound=real_bound(fam.fds[fid], loc, call))


# ---------------------------------------------------------------- the written rules, transcribed independently
# doc/source/extending_yaql.rst "Function resolution rules" + the property's "single most specific match".
# Works on the harness's own record of the registrations (which definitions each layer holds, which layers some
# registration declared exclusive) and on the definitions the documented rules prescribe for the Python
# callables (`expected_fd`: parameter table with position, default, alias, type), and asks the smart types only
# `check` and `python_type`.  It does not share structure with map_args/get_delegate: binding is done
# by lining the visible positional parameters up with the argument slots.

def _visible(fd):
    vis = [p for k, p in fd.parameters.items()
           if p.position is not None and k != '*' and not isinstance(p.value_type, yaqltypes.HiddenParameterType)]
    vis.sort(key=lambda p: p.position)
    kwonly = [p for k, p in fd.parameters.items()
              if p.position is None and k != '**' and not isinstance(p.value_type, yaqltypes.HiddenParameterType)]
    return vis, kwonly, fd.parameters.get('*'), fd.parameters.get('**')


def _argname(p):
    return p.alias or p.name


def _bind(fd, args, kwargs):
    """line the visible parameters up with the call: None when the overload cannot be called by this
    syntax, else (owner of every argument slot, {keyword -> parameter}, [(param, how, value)])"""
    vis, kwonly, star, starstar = _visible(fd)
    owners = []
    kw_owner = {}
    bound = []
    for i, p in enumerate(vis):
        an = _argname(p)
        if i < len(args) and args[i] is not utils.NO_VALUE:
            if an in kwargs:
                return None                         # given twice
            bound.append((p, 'pos', args[i]))
        elif an in kwargs:
            kw_owner[an] = p
            bound.append((p, 'kw', kwargs[an]))
        elif p.default is specs.NO_DEFAULT:
            return None                             # mandatory parameter without an argument
        else:
            bound.append((p, 'default', p.default))
    for p in kwonly:
        an = _argname(p)
        if an in kwargs:
            kw_owner[an] = p
            bound.append((p, 'kw', kwargs[an]))
        elif p.default is specs.NO_DEFAULT:
            return None
        else:
            bound.append((p, 'default', p.default))
    for i in range(len(args)):                      # every argument slot must be owned by a parameter
        if i < len(vis) and (args[i] is not utils.NO_VALUE or _argname(vis[i]) not in kwargs):
            owners.append(vis[i])
        elif star is not None:
            owners.append(star)
        else:
            return None                             # too many arguments / an empty slot nobody owns
    for k in kwargs:
        if k not in kw_owner:
            if starstar is None:
                return None                         # no such parameter
            kw_owner[k] = starstar
    return owners, kw_owner, bound


def spec_callable(fd, args, kwargs, ctx):
    """rule 3, with the constants known before evaluation already type-checked where the
    implementation looks at them: every argument slot (an empty one through its owner's default)
    and the keywords that go to **"""
    b = _bind(fd, args, kwargs)
    if b is None:
        return None
    owners, kw_owner, bound = b
    vis, kwonly, star, starstar = _visible(fd)
    for i, p in enumerate(owners):
        v = args[i] if args[i] is not utils.NO_VALUE else p.default
        if not p.value_type.check(v, ctx, ENGINE):
            return None
    for k, v in kwargs.items():
        if kw_owner[k] is starstar and (k not in {_argname(p) for p in vis + kwonly}):
            if not starstar.value_type.check(v, ctx, ENGINE):
                return None
    return [p.value_type for p in owners], {k: p.value_type for k, p in kw_owner.items()}


def spec_compatible(fd, args, kwargs, ctx):
    """rule 5: every parameter's (evaluated) argument or default passes its smart type"""
    b = _bind(fd, args, kwargs)
    if b is None:
        return False
    owners, kw_owner, bound = b
    vis, kwonly, star, starstar = _visible(fd)
    for p, how, v in bound:
        if not p.value_type.check(v, ctx, ENGINE):
            return False
    for a in args[len(vis):]:
        if not star.value_type.check(a, ctx, ENGINE):
            return False
    for k, v in kwargs.items():
        if kw_owner[k] is starstar and (k not in {_argname(p) for p in vis + kwonly}):
            if not starstar.value_type.check(v, ctx, ENGINE):
                return False
    return True


def _strict_sub(t1, t2):
    """t1 is a proper specialization of t2 (PythonTypes over single classes only)"""
    if not isinstance(t1, yaqltypes.PythonType) or not isinstance(t2, yaqltypes.PythonType):
        return False
    a, b = t1.python_type, t2.python_type
    if isinstance(a, tuple) or isinstance(b, tuple):
        return False
    return issubclass(a, b) and not issubclass(b, a)


def _more_specific(m1, m2):
    pairs = list(zip(m1[0], m2[0])) + [(m1[1][k], m2[1][k]) for k in m1[1]]
    if any(_strict_sub(b, a) for a, b in pairs):
        return False
    return any(_strict_sub(a, b) for a, b in pairs)


def _nontransitive(ms):
    """input statistic: three of the matches with a > b, b > c and NOT a > c (a, c incomparable)"""
    for _, a in ms:
        for _, b in ms:
            if b is a or not _more_specific(a, b):
                continue
            for _, c in ms:
                if c is not a and c is not b and _more_specific(b, c) and not _more_specific(a, c):
                    return True
    return False


def _is_lazy(t):
    return isinstance(t, yaqltypes.LazyParameterType)


def spec_resolve(fam, call, name='f', chain=None):
    """-> dict(err=..) | dict(id=.., log=[..]); `log` is None when the rules do not determine it.
    `chain`: the contexts from the nearest outward as [(definitions registered under the name, exclusive)] from
    the caller's own record of what was registered (default: `fam.chain(name)`); a chosen overload is returned as
    the definition object of that record.  The result also carries `nmapped` / `nmatch` (candidates that passed rule 3 /
    type-compatible candidates of the deciding layer) for the input statistics."""
    r = _spec_resolve(fam, call, name, chain)
    r.setdefault('nmapped', 0)
    r.setdefault('nmatch', 0)
    return r


def _spec_resolve(fam, call, name, chain):
    method = call.recv is not utils.NO_VALUE
    # rules 1, 2: layers, nearest first, stop behind an exclusive layer
    layers = []
    if chain is None:
        chain = fam.chain(name)
    for registered, exclusive in chain:
        fns = [fd for fd in registered if (fd.is_method if method else fd.is_function)]
        if fns:
            layers.append(fns)
        if exclusive:
            break
    if not layers:
        return dict(err='Unknown', log=[])
    allc = [fd for layer in layers for fd in layer]
    if len({bool(fd.no_kwargs) for fd in allc}) > 1:
        return dict(err='Ambiguous', log=[])
    args = ([call.recv] if method else []) + list(call.args)
    kwargs = {}
    if allc[0].no_kwargs:
        if call.kw:
            return dict(err='ArgumentException', log=[])
        pos = args
    else:
        pos = []
        for a in args:
            if isinstance(a, expressions.MappingRuleExpression):
                if not isinstance(a.source, expressions.KeywordConstant):
                    return dict(err='MappingTranslation', log=[])
                kwargs[a.source.value] = a.destination
            else:
                pos.append(a)
        for k, v in call.kw:
            if k in kwargs:
                return dict(err='MappingTranslation', log=[])
            kwargs[k] = v
    # rule 3
    callable_ = [[(fd, spec_callable(fd, pos, kwargs, fam.ctx)) for fd in layer] for layer in layers]
    callable_ = [[(fd, m) for fd, m in layer if m is not None] for layer in callable_]
    flat = [x for layer in callable_ for x in layer]
    # rule 4
    sigs = set()
    for fd, (st, kt) in flat:
        sigs.add((tuple(_is_lazy(t) for t in st), tuple(sorted((k, _is_lazy(t)) for k, t in kt.items()))))
    if len(sigs) > 1:
        return dict(err='Ambiguous', log=[], nmapped=len(flat))
    if not flat:
        return dict(err='NoMatching', log=[])
    # rule 5: evaluate the non-lazy arguments once
    lz_pos, lz_kw = next(iter(sigs))
    lz_kw = dict(lz_kw)
    log = []

    def ev(a, lazy):
        if lazy or not isinstance(a, expressions.Expression) or isinstance(a, expressions.Constant):
            return a
        return _evaluate(a, call, log)
    pos2 = [ev(a, lz) for a, lz in zip(pos, lz_pos)]
    kwargs2 = {k: ev(v, lz_kw[k]) for k, v in kwargs.items()}
    # rules 5-8
    for layer in callable_:
        ms = []
        for fd, m in layer:
            if spec_compatible(fd, pos2, kwargs2, fam.ctx):
                ms.append((fd, m))
        if not ms:
            continue
        best = [fd for fd, m in ms if all(o is fd or _more_specific(m, om) for o, om in ms)]
        nt = _nontransitive(ms) if len(ms) >= 3 else False
        if len(best) == 1:
            return dict(id=best[0], log=log, nmapped=len(flat), nmatch=len(ms), nontransitive=nt)
        return dict(err='Ambiguous', log=log, nmapped=len(flat), nmatch=len(ms), nontransitive=nt)
    return dict(err='NoMatching', log=log, nmapped=len(flat))


def _evaluate(a, call, log):
    """value and probes of an argument expression, from the generator's bookkeeping (no yaql involved)"""
    if isinstance(a, expressions.MappingRuleExpression):
        s = a.source.value if isinstance(a.source, expressions.Constant) else _evaluate(a.source, call, log)
        d = a.destination.value if isinstance(a.destination, expressions.Constant) \
            else _evaluate(a.destination, call, log)
        return utils.MappingRule(s, d)
    p = call.pr.probe[id(a)]
    if p < SILENT:
        log.append(p)
    return call.pr.result[id(a)]
