"""Python side of the lexer model's JSON interface (lean/Yaql/Drv/LexJson.lean): builds the
configuration a driver request needs from a live YaqlFactory, and tokenises with the real lexer
into the same canonical form the model prints.  Used by C16 (and reusable by C01/C02/C03).

canonical token : {'k': KIND, ['s': [cp..]], 'v': None | {'t': [cp..]} | {'i': '123'} | {'f': float}, 'p': lexpos}
(the model sends {'f': 'ddd.ddd', 'b': '<IEEE bits, decimal>'}; norm_model turns the bits into the float)
canonical result: {'ok': [token..]} | {'err': {'v': [cp..], 'pos': n}} | {'foreign': 'ExcType: msg'}
"""
import re
import sys
import unicodedata

from yaql.language import exceptions
from yaql.language import factory as yfactory

NONWORD_FIXED = " \t\r\n'\"`\\$.()[]{},"      # Yaql.Lexer.nonWordChars

_classes = None


def char_classes():
    """(set of code points matched by \\w, {code point: int(ch)} for those matched by \\d), read
    from the running interpreter's `re` (re.UNICODE, str patterns) - surrogates excluded."""
    global _classes
    if _classes is None:
        allc = ''.join(chr(c) for c in range(0x110000) if not 0xD800 <= c <= 0xDFFF)
        word = set(map(ord, re.findall(r'\w', allc, re.UNICODE)))
        digit = {ord(ch): int(ch) for ch in re.findall(r'\d', allc, re.UNICODE)}
        _classes = (word, digit)
    return _classes


def check_hypotheses():
    """the CharCfg hypotheses, checked on the interpreter's classes: returns a list of complaints"""
    word, digit = char_classes()
    bad = []
    if not set(digit) <= word:
        bad.append('a \\d character is not a \\w character: %r' % sorted(set(digit) - word)[:5])
    if ord('_') not in word or ord('_') in digit:
        bad.append("'_' must be \\w and not \\d")
    for ch in NONWORD_FIXED:
        if ord(ch) in word:
            bad.append('%r is a word character' % ch)
    if any(not 0 <= v <= 9 for v in digit.values()):
        bad.append('digit value out of range')
    return bad


def cps(s):
    return [ord(c) for c in s]


def uncps(l):
    return ''.join(chr(c) for c in l)


def table_of(fac):
    """(ops, has_indexer, has_map, name_value_op) of a YaqlFactory: what Lexer.__init__ receives,
    re-derived from the public operator list (distinct symbols in order of first occurrence)."""
    ops, seen = [], set()
    nvo = None
    for rec in fac.operators:
        if not rec:
            continue
        sym, typ = rec[0], rec[1]
        if typ == yfactory.OperatorType.NAME_VALUE_PAIR:
            nvo = sym
            continue
        if sym not in seen:
            seen.add(sym)
            ops.append(sym)
    return [o for o in ops if o not in ('[]', '{}')], '[]' in seen, '{}' in seen, nvo


_NAME_RE = re.compile(r'(?=\\N\{([^}]+)\})')


def cfg_json(fac, texts, names=None, max_digits=None):
    """the "cfg" object of a driver request. `texts`: every text of the request (the character
    classes are sent for the code points that occur). `names`: function name -> char or None, asked
    for every `\\N{..}` candidate that occurs in the texts (default: `resolve_name`)."""
    word, digit = char_classes()
    names = names or resolve_name
    used = set()
    cand = set()
    for t in texts:
        used.update(map(ord, t))
        if '\\N{' in t:
            cand.update(_NAME_RE.findall(t))
    ops, idx, mp, nvo = table_of(fac)
    for o in ops + ([nvo] if nvo else []):
        used.update(map(ord, o))
    nm = []
    for n in sorted(cand):
        v = names(n)
        nm.append([cps(n), (ord(v) if v is not None else None)])
    return dict(
        ops=[cps(o) for o in ops], idx=idx, map=mp, nvo=cps(nvo) if nvo else None, names=nm,
        maxDigits=sys.get_int_max_str_digits() if max_digits is None else max_digits,
        word=sorted(used & word), digit=sorted([c, digit[c]] for c in used & set(digit)))


def resolve_name(name):
    """what `\\N{name}` denotes according to unicodedata (a single character) or None"""
    try:
        v = unicodedata.lookup(name)
    except (KeyError, ValueError, UnicodeError):
        return None
    return v if len(v) == 1 else None


def has_surrogate(s):
    return any(0xD800 <= ord(c) <= 0xDFFF for c in s)


def canon_token(t):
    ty, v = t.type, t.value
    if ty in ('KEYWORD_STRING', 'QUOTED_STRING', 'FUNC', 'DOLLAR', 'INDEXER', 'MAP', 'MAPPING'):
        return dict(k=ty, v=dict(t=cps(v)), p=t.lexpos)
    if ty == 'NUMBER':
        if isinstance(v, bool) or not isinstance(v, (int, float)):
            return dict(k=ty, v=dict(other=repr(v)), p=t.lexpos)
        return dict(k=ty, v=(dict(i=str(v)) if isinstance(v, int) else dict(f=v)), p=t.lexpos)
    if ty in ('TRUE', 'FALSE', 'NULL'):
        ok = (ty == 'TRUE' and v is True) or (ty == 'FALSE' and v is False) or (ty == 'NULL' and v is None)
        return dict(k=ty, v=None if ok else dict(other=repr(v)), p=t.lexpos)
    if ty.startswith('OP_'):
        return dict(k='OP', s=cps(v), v=dict(t=cps(v)), p=t.lexpos)
    if len(ty) == 1:
        return dict(k='LIT', s=cps(ty), v=dict(t=cps(v)), p=t.lexpos)
    return dict(k=ty, v=dict(other=repr(v)), p=t.lexpos)


def real_lex(engine, text):
    """tokenise `text` with a clone of the engine's ply lexer"""
    lx = engine.lexer.clone()
    lx.input(text)
    out = []
    try:
        while True:
            t = lx.token()
            if t is None:
                return dict(ok=out)
            out.append(canon_token(t))
    except exceptions.YaqlLexicalException as e:
        v = e.value if isinstance(e.value, str) else repr(e.value)
        return dict(err=dict(v=cps(v), pos=e.position))
    except Exception as e:          # C03: nothing else may escape
        return dict(foreign='%s: %s' % (type(e).__name__, e))


def real_next(engine, text, pos):
    """one token() call on the state {lexdata=text, lexpos=pos}"""
    lx = engine.lexer.clone()
    lx.input(text)
    lx.lexpos = pos
    try:
        t = lx.token()
        if t is None:
            return dict(eof=True)
        return dict(tok=canon_token(t), next=lx.lexpos)
    except exceptions.YaqlLexicalException as e:
        return dict(err=dict(v=cps(e.value), pos=e.position))
    except Exception as e:
        return dict(foreign='%s: %s' % (type(e).__name__, e))


def big_int(s):
    """int(s) for ASCII digits without the interpreter's digit limit"""
    if len(s) <= 4000:
        return int(s)
    k = len(s) // 2
    return big_int(s[:k]) * 10 ** (len(s) - k) + big_int(s[k:])


def model_float(text):
    """the float a model literal `ddd.ddd` (ASCII) denotes: the decimal rational, correctly rounded"""
    a, b = text.split('.')
    num, den = big_int(a + b), 10 ** len(b)
    try:
        return num / den          # int / int is correctly rounded
    except OverflowError:
        return float('inf')


def same_float(x, y):
    import struct
    return struct.pack('>d', x) == struct.pack('>d', y)


def float_of_bits(b):
    import struct
    return struct.unpack('>d', struct.pack('>Q', int(b)))[0]


def norm_model(res):
    """model result -> comparable with real_lex: a float token carries the IEEE bits the MODEL computed
    (`Lexer.literalFloat` = `FloatRound.roundRat digits (10^k)`), compared bit for bit with the real value"""
    if 'ok' in res:
        toks = []
        for t in res['ok']:
            t = dict(t)
            if isinstance(t.get('v'), dict) and 'f' in t['v']:
                t['v'] = dict(f=float_of_bits(t['v']['b']))
            toks.append(t)
        return dict(ok=toks)
    if 'tok' in res:
        return dict(tok=norm_model(dict(ok=[res['tok']]))['ok'][0], next=res['next'])
    return res


def same_result(real, model):
    """real_lex / real_next result vs norm_model(model result)"""
    def tok_eq(a, b):
        if a.get('k') != b.get('k') or a.get('s') != b.get('s') or a.get('p') != b.get('p'):
            return False
        va, vb = a.get('v'), b.get('v')
        if isinstance(va, dict) and isinstance(vb, dict) and 'f' in va and 'f' in vb:
            return same_float(va['f'], vb['f'])
        return va == vb
    if 'ok' in real and 'ok' in model:
        return len(real['ok']) == len(model['ok']) and all(tok_eq(a, b) for a, b in zip(real['ok'], model['ok']))
    if 'tok' in real and 'tok' in model:
        return real['next'] == model['next'] and tok_eq(real['tok'], model['tok'])
    return real == model
