"""C12 worker: one interpreter per creation order of contexts.  Creates one context per entry of `order`
('camel' = yaql.create_context(), 'python' = create_context(convention=PythonConvention()), 'none' = a root
context without a convention), IN THIS ORDER and before anything else has created a context in this interpreter,
keeps them all alive, then runs the C12 spelling sweep (props/c12.py:sweep_context) in each of them with the
keyword names the context's own convention promises.
stdin: {"order": [...], "seed": n, "per_fd": n, "replay": case|null}; stdout: {"hist":…, "cases":…, "fails":…}."""
import json
import os
import sys

sys.path.insert(0, os.path.dirname(os.path.abspath(__file__)))
import common  # noqa: E402,F401  (sets sys.path for YAQL_REPO)
import gens.registry as greg  # noqa: E402  (imports yaql, creates no context)


def main():
    req = json.load(sys.stdin)
    ctxs = [greg.make_context(c) for c in req['order']]
    from props import c12            # imports resolvelib, which creates a default context of its own - after ours
    out = c12.worker_main(req, ctxs)
    json.dump(out, sys.stdout, default=repr)


if __name__ == '__main__':
    main()
