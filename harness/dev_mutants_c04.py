"""Development aid for C04: the mutants of notes/C04.md as (file, old text, new text) edits.

usage (never against /repo itself):
  git -C /repo worktree add --detach /tmp/wr-c04 HEAD
  /venv/bin/python harness/dev_mutants_c04.py <mutant> /tmp/wr-c04      # checks the tree out afresh, applies one mutant
  YAQL_REPO=/tmp/wr-c04 ./check C04 --tier quick                        # must print VIOLATION ... replay=
  /venv/bin/python harness/dev_mutants_c04.py list
  git -C /repo worktree remove --force /tmp/wr-c04
"""
M = {
 'm1_dynamic_def': [('yaql/standard_library/system.py',
   "@specs.parameter('func', yaqltypes.Lambda())\ndef def_(name, func, context):",
   "@specs.parameter('func', yaqltypes.Lambda(with_context=True))\ndef def_(name, func, context):"),
   ('yaql/standard_library/system.py',
   "    @specs.name(name)\n    def wrapper(*args, **kwargs):\n        return func(*args, **kwargs)",
   "    @specs.name(name)\n    @specs.inject('ctx__', yaqltypes.Context())\n    def wrapper(ctx__, *args, **kwargs):\n        return func(ctx__, *args, **kwargs)")],
 'm1b_lambda_calling_ctx': [('yaql/language/yaqltypes.py',
   "            else:\n                new_receiver, new_context = \\\n                    utils.NO_VALUE, context.create_child_context()\n\n            return self._call(value, new_receiver, new_context,",
   "            else:\n                new_receiver, new_context = \\\n                    utils.NO_VALUE, (Lambda._current or context).create_child_context()\n\n            return self._call(value, new_receiver, new_context,"),
   ('yaql/language/yaqltypes.py',
   "    def _call(self, value, receiver, context, engine, args, kwargs):\n        self._publish_params(context, args, kwargs)\n        if isinstance(value, expressions.Expression):\n            result = value(receiver, context, engine)",
   "    _current = None\n\n    def _call(self, value, receiver, context, engine, args, kwargs):\n        self._publish_params(context, args, kwargs)\n        if isinstance(value, expressions.Expression):\n            saved, Lambda._current = Lambda._current, context\n            try:\n                result = value(receiver, context, engine)\n            finally:\n                Lambda._current = saved")],
 'm2_no_child_ctx': [('yaql/language/specs.py',
   "            new_context = context.create_child_context()\n            result = self.payload(",
   "            new_context = context\n            result = self.payload(")],
 'm3_let_parent': [('yaql/standard_library/system.py',
   "    for i, value in enumerate(args, 1):\n        __context__[str(i)] = value\n\n    for key, value in kwargs.items():\n        __context__[key] = value\n    return __context__",
   "    target = __context__.parent or __context__\n    for i, value in enumerate(args, 1):\n        target[str(i)] = value\n\n    for key, value in kwargs.items():\n        target[key] = value\n    return __context__")],
 'm4_dollar_not_alias': [('yaql/language/contexts.py',
   "        if name == '$':\n            name = '$1'\n        return name",
   "        return name")],
 'm5_with_from_zero': [('yaql/standard_library/system.py',
   "    for i, t in enumerate(args, 1):\n        context[str(i)] = t\n    return context\n\n\n@specs.inject('__context__'",
   "    for i, t in enumerate(args):\n        context[str(i)] = t\n    return context\n\n\n@specs.inject('__context__'")],
 'm6_member_first_only': [('yaql/standard_library/queries.py',
   "    return map(lambda t: operator(t, attribute), collection)",
   "    return map(lambda t: operator(t, attribute), itertools.islice(collection, 1))")],
 'm6b_member_not_mapped': [('yaql/standard_library/queries.py',
   "    return map(lambda t: operator(t, attribute), collection)",
   "    return operator(next(iter(collection)), attribute)")],
 'm7_def_leaks': [('yaql/standard_library/system.py',
   "    context.register_function(wrapper)\n    return context",
   "    (context.parent or context).register_function(wrapper)\n    return context")],
 'm8_unknown_raises': [('yaql/standard_library/system.py',
   "    return context[name]",
   "    value = context.get_data(name, utils.NO_VALUE)\n    if value is utils.NO_VALUE:\n        raise KeyError(name)\n    return value")],
 'm9_publish_into_defining': [('yaql/language/yaqltypes.py',
   "            else:\n                new_receiver, new_context = \\\n                    utils.NO_VALUE, context.create_child_context()\n\n            return self._call(value, new_receiver, new_context,",
   "            else:\n                new_receiver, new_context = \\\n                    utils.NO_VALUE, context\n\n            return self._call(value, new_receiver, new_context,")],
 'm10_unpack_from_zero': [('yaql/standard_library/system.py',
   "        for i, t in enumerate(itertools.chain(lst, sequence), 1):",
   "        for i, t in enumerate(itertools.chain(lst, sequence)):")],
 's7_def_closure_parent': [('yaql/standard_library/system.py',
   "@specs.parameter('func', yaqltypes.Lambda())\ndef def_(name, func, context):",
   "@specs.parameter('func', yaqltypes.YaqlExpression())\n@specs.inject('mk', yaqltypes.Context())\ndef def_(name, func, context, mk):"),
   ('yaql/standard_library/system.py',
   "    @specs.name(name)\n    def wrapper(*args, **kwargs):\n        return func(*args, **kwargs)",
   "    engine_ = None\n    @specs.name(name)\n    @specs.inject('engine', yaqltypes.Engine())\n    def wrapper(engine, *args, **kwargs):\n        c = (context.parent or context).create_child_context()\n        yaqltypes.Lambda._publish_params(c, args, kwargs)\n        return func(utils.NO_VALUE, c, engine)")],
 's12_always_publish_first': [('yaql/language/yaqltypes.py',
   "        for i, param in enumerate(args):\n            context['$' + str(i + 1)] = param",
   "        context['$1'] = None\n        for i, param in enumerate(args):\n            context['$' + str(i + 1)] = param")],
 's14_member_skips_null': [('yaql/standard_library/queries.py',
   "    return map(lambda t: operator(t, attribute), collection)",
   "    return map(lambda t: operator(t, attribute),\n               filter(lambda t: t is not None, collection))")],
 's15_lookup_skips_empty_string': [('yaql/language/contexts.py',
   "        if name in self._data:\n            return self._data[name]",
   "        if self._data.get(name):\n            return self._data[name]")],
 'm11_arrow_child': [('yaql/standard_library/system.py',
   "    return right(left)",
   "    return right(left.parent or left)")],
 # ---- round 4: names out of the implementation's own vocabulary, values the host language takes for equal
 'r4_let_context_param': [('yaql/standard_library/system.py',
   "@specs.inject('__context__', yaqltypes.Context())\ndef let(__context__, *args, **kwargs):",
   "@specs.inject('context', yaqltypes.Context())\ndef let(context, *args, **kwargs):"),
   ('yaql/standard_library/system.py',
   "    for i, value in enumerate(args, 1):\n        __context__[str(i)] = value\n\n    for key, value in kwargs.items():\n        __context__[key] = value\n    return __context__",
   "    for i, value in enumerate(args, 1):\n        context[str(i)] = value\n\n    for key, value in kwargs.items():\n        context[key] = value\n    return context")],
 'r4_select_memo': [('yaql/standard_library/queries.py',
   "    return map(selector, collection)\n",
   "    seen = {}\n\n    def cached(item):\n        try:\n            return seen[item]\n        except KeyError:\n            seen[item] = selector(item)\n            return seen[item]\n        except TypeError:\n            return selector(item)\n    return map(cached, collection)\n")],
 'r4_def_last_call': [('yaql/standard_library/system.py',
   "    def wrapper(*args, **kwargs):\n        return func(*args, **kwargs)",
   "    last = []\n\n    def wrapper(*args, **kwargs):\n        if last and last[0] == (args, kwargs):\n            return last[1]\n        result = func(*args, **kwargs)\n        last[:] = [(args, kwargs), result]\n        return result")],
 'r4_intern_input': [('yaql/language/utils.py',
   "        return map(lambda v: rec(v, rec), obj)\n    else:\n        return obj\n",
   "        return map(lambda v: rec(v, rec), obj)\n    elif isinstance(obj, (int, float)):\n        return _INTERNED.setdefault(obj, obj)\n    else:\n        return obj\n\n\n_INTERNED = {}\n")],
 'r4_kwargs_via_format': [('yaql/language/yaqltypes.py',
   "        for arg_name, arg_value in kwargs.items():\n            context['$' + arg_name] = arg_value",
   "        for arg_name, arg_value in kwargs.items():\n            context['${name}'.format(name=arg_name, **kwargs)] = arg_value")],
}
import sys, subprocess, os
def apply(name, root):
    subprocess.run(['git', '-C', root, 'checkout', '-q', '.'], check=True)
    for f, old, new in M[name]:
        p = os.path.join(root, f)
        s = open(p).read()
        assert s.count(old) == 1, (name, f, s.count(old))
        open(p, 'w').write(s.replace(old, new))
if __name__ == '__main__':
    if sys.argv[1] == 'list':
        print(' '.join(M))
    else:
        apply(sys.argv[1], sys.argv[2])
