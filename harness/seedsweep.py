"""usage: seedsweep.py <VERIF_SEED> [name ...]
Re-runs every seeded change (default: all) against the check of its property with ANOTHER random seed and prints which
are still caught - a measure of how much a catch depends on the sampled cases.  Writes nothing into seeded/*/meta.json;
the table goes to stdout and to replays/seedsweep-<seed>.json."""
import json
import os
import subprocess
import sys

ROOT = os.path.dirname(os.path.dirname(os.path.abspath(__file__)))


def main():
    seed = sys.argv[1]
    names = sys.argv[2:] or sorted(n for n in os.listdir(os.path.join(ROOT, 'seeded')) if not n.startswith('_'))
    out = {}
    for name in names:
        d = os.path.join(ROOT, 'seeded', name)
        if not os.path.exists(os.path.join(d, 'meta.json')):
            continue
        m = json.load(open(os.path.join(d, 'meta.json')))
        checks = [m['property']] + list(m.get('also_checks', []))
        r = subprocess.run(['/venv/bin/python', os.path.join(ROOT, 'harness', 'seedtest.py'), d] + checks,
                           stdout=subprocess.PIPE, text=True, env=dict(os.environ, VERIF_SEED=seed))
        try:
            res = json.loads(r.stdout)['checks']
            out[name] = {c: v['rc'] for c, v in res.items()}
        except Exception:
            out[name] = {'error': r.stdout[-300:]}
        print(name, out[name], flush=True)
    os.makedirs(os.path.join(ROOT, 'replays'), exist_ok=True)
    json.dump(out, open(os.path.join(ROOT, 'replays', 'seedsweep-%s.json' % seed), 'w'), indent=1)
    missed = [n for n, v in out.items() if not any(rc == 1 for rc in v.values() if isinstance(rc, int))]
    print('MISSED with seed %s: %s' % (seed, missed))


if __name__ == '__main__':
    main()
