"""Source obligations: the tie between the hand-written Lean models and yaql's SOURCE.

For every property `Cxx` this module knows (from harness/srcgen_targets.py) which functions of yaql are
translated into Lean on every run (lean/Yaql/Gen/Src<Area>.lean, by harness/py2lean.py) and which theorem of
lean/Yaql/Props/Src<Area>.lean states that the translated definition equals the hand-written model function
the property theorems are about.  A property module uses it like this:

    LEAN_MODULES = [...] + srcobl.modules('C19')
    REQUIRED_THEOREMS = [...] + srcobl.theorems('C19')
    def generate():  info = ...; info.update(srcobl.generate('C19')); return info
    def run(env, res):  ...; srcobl.differential(env, res, 'C19', oracle=src_oracle)

* generate() re-translates the current source.  A function the translator refuses, or whose translation no
  longer elaborates, is reported under `_broken` (runcheck: a broken proof obligation; the theorem about it
  does not build either).
* differential() runs, on generated arguments incl. boundaries, (a) the REAL python function, (b) the
  translated definition and (c) the model expression of the theorem (both through the compiled driver,
  handler `Src`).  (a) != (b): the translator / prelude is wrong about this function -> 'mismatch'.
  (a) != (c): the source no longer does what the model says on this input - the candidate failing input; it is
  handed to the property's `oracle` callback, which decides on the real code alone whether the property
  fails on it ('oracle', a failing input) - otherwise it is reported as a 'mismatch'.
"""
import importlib
import os
import sys

sys.path.insert(0, os.path.dirname(os.path.abspath(__file__)))
import common  # noqa
import srcgen_targets as ST  # noqa


def targets(pid):
    return ST.by_owner(pid)


def areas(pid):
    """areas of the property's targets, the areas they build on first"""
    out = []

    def add(a):
        for u in ST.AREAS[a].uses:
            add(u)
        if a not in out:
            out.append(a)

    for t in targets(pid):
        add(t.area)
    return out


def own_areas(pid):
    out = []
    for t in targets(pid):
        if t.area not in out:
            out.append(t.area)
    return out


def modules(pid):
    return ['Yaql.Props.Src' + a for a in own_areas(pid)]


def theorems(pid):
    return ['Yaql.Props.Src%s.%s' % (t.area, t.theorem) for t in targets(pid) if t.theorem]


def generate(pid):
    import pyfacts
    info = pyfacts.run(['Src' + a for a in areas(pid)])
    broken = []
    mine = {t.name for t in targets(pid)}
    out = {}
    for a, i in info.items():
        # an area may be shared by several properties: each carries only its own functions' obligations
        for b in i.get('_broken', []):
            broken.append(b)
        out[a] = dict(translated=i['translated'], targets=i['targets'])
    for a in own_areas(pid):
        broken += check_props(a, [t for t in targets(pid) if t.area == a])
    res = dict(src=out)
    if broken:
        res['_broken'] = broken
    return res


def check_props(area, mine):
    """When the translated text of an area changed since its equivalence theorems last checked: elaborate
    Props/Src<Area>.lean once here, to NAME the theorems (and source functions) that no longer check.  (The
    ordinary `lake build` of the check then fails on the same module; this only makes the report precise.)"""
    import re
    import subprocess
    gen = os.path.join(common.LEAN, 'Yaql', 'Gen', 'Src%s.lean' % area)
    props_rel = os.path.join('Yaql', 'Props', 'Src%s.lean' % area)
    props = os.path.join(common.LEAN, props_rel)
    stamp = gen + '.props-ok'
    try:
        key = common.digest([open(gen).read(), open(props).read()])
    except OSError:
        return []
    try:
        if open(stamp).read() == key:
            return []
    except OSError:
        pass
    ok, out = common.lake_build(['Yaql.Gen.Src' + area, 'Yaql.Lemmas.PyPrelude'])
    if not ok:
        return []        # the Gen module itself is broken: reported by the build step
    try:
        p = subprocess.run(['lake', 'env', 'lean', props_rel], cwd=common.LEAN, stdout=subprocess.PIPE,
                           stderr=subprocess.STDOUT, text=True, timeout=900)
    except subprocess.TimeoutExpired:
        return ['Props/Src%s.lean: elaboration timed out' % area]
    if p.returncode == 0:
        open(stamp, 'w').write(key)
        return []
    lines = open(props).read().split('\n')
    starts = [(i + 1, m.group(1)) for i, ln in enumerate(lines)
              for m in [re.match(r'\s*(?:private |protected )?theorem\s+(\S+)', ln)] if m]
    bad = {}
    for m in re.finditer(r'^[^\n:]+:(\d+):\d+: error: ([^\n]*)', p.stdout, re.M):
        line = int(m.group(1))
        name = None
        for st, nm in starts:
            if st <= line:
                name = nm
        if name is not None:
            bad.setdefault(name, m.group(2))
    by_thm = {t.theorem: t for t in ST.TARGETS if t.area == area}
    out_ = []
    for name, msg in bad.items():
        t = by_thm.get(name)
        if t is not None:
            if t in mine:
                out_.append('equivalence theorem Yaql.Props.Src%s.%s no longer checks against the current source of %s '
                            '(the hand-written model expression `%s`): %s' % (area, name, t.qual, t.model, msg[:200]))
        else:
            out_.append('lemma Yaql.Props.Src%s.%s no longer checks: %s' % (area, name, msg[:200]))
    return out_


# ------------------------------------------------------------------ python <-> wire

def enc(ty, v):
    k = ty[0]
    if k == 'int':
        return str(int(v))
    if k == 'bool':
        return bool(v)
    if k == 'str':
        return [ord(c) for c in v]
    if k == 'char':
        return ord(v)
    if k == 'unit':
        return None
    if k == 'opt':
        return None if v is None else {'some': enc(ty[1], v)}
    if k in ('list', 'iter'):
        return [enc(ty[1], x) for x in v]
    if k == 'dict':
        return [[enc(ty[1], a), enc(ty[2], b)] for a, b in v.items()]
    if k == 'tup':
        return [enc(t, x) for t, x in zip(ty[1:], v)]
    if k == 'named':
        c = NAMED.get(ty[1])
        if c:
            return c[0](v)
    if k == 'fn' and not ty[1]:
        return enc(ty[2], v)        # a total thunk is its value
    if k == 'fn':
        return str(int(v))          # the code of a member of the closed family
    raise TypeError('cannot encode %r as %r' % (v, ty))


def enc_atom(v):
    if v is None or isinstance(v, bool):
        return v
    if isinstance(v, int):
        return {'i': str(v)}
    return {'s': [ord(c) for c in v]}


# ---- the yaqlization universe (abstract generated form -> wire / python object)

def yq_entry_wire(e):
    if e[0] == 'str':
        return dict(k='str', s=e[1])
    if e[0] == 'rx':
        return dict(k='rx', start=e[1], end=e[3], atoms=list(e[2]))
    return dict(k='table', acc=list(e[1]))


def yq_entry_py(e):
    import re
    if e[0] == 'str':
        return e[1]
    if e[0] == 'rx':
        return re.compile(('^' if e[1] else '') + ''.join('.' if a is None else re.escape(a) for a in e[2]) +
                          ('$' if e[3] else ''))
    acc = set(e[1])
    return lambda n: n in acc


def yq_remap_wire(r):
    if r[0] == 'name':
        return dict(n=r[1], tuple=False)
    return dict(n=r[1], tuple=True, argmap=None if r[2] is None else [list(p) for p in r[2]])


def yq_remap_py(r):
    if r[0] == 'name':
        return r[1]
    return (r[1],) if r[2] is None else (r[1], dict(r[2]))


def yq_remap_of_py(v):
    """result of the real `_remap_name` -> wire"""
    if isinstance(v, str):
        return dict(n=v, tuple=False)
    return dict(n=v[0], tuple=True, argmap=None if len(v) < 2 else [[a, b] for a, b in v[1].items()])


def yq_settings_wire(s):
    return dict(whitelist=[yq_entry_wire(e) for e in s['whitelist']], blacklist=[yq_entry_wire(e) for e in s['blacklist']],
                remap=[[k, yq_remap_wire(v)] for k, v in s['remap']], auto=s['auto'])


def yq_settings_py(s):
    return {'whitelist': [yq_entry_py(e) for e in s['whitelist']], 'blacklist': [yq_entry_py(e) for e in s['blacklist']],
            'attributeRemapping': {k: yq_remap_py(v) for k, v in s['remap']}, 'autoYaqlizeResult': s['auto']}


YQ_NAMES = ['a', 'b', 'ab', 'ba', '_a', 'a_', '', 'abc']


def gen_yq_entry(rng, ctx):
    r = rng.random()
    if r < 0.45:
        return ('str', rng.choice(YQ_NAMES))
    if r < 0.8:
        atoms = [rng.choice(['a', 'b', '_', None]) for _ in range(rng.choice([0, 1, 1, 2, 3]))]
        return ('rx', rng.random() < 0.4, atoms, rng.random() < 0.4)
    return ('table', [rng.choice(YQ_NAMES) for _ in range(rng.choice([0, 1, 2]))])


def gen_yq_remap(rng, ctx):
    r = rng.random()
    n = rng.choice(YQ_NAMES)
    if r < 0.6:
        return ('name', n)
    if r < 0.8:
        return ('tuple', n, None)
    return ('tuple', n, [(rng.choice(YQ_NAMES), rng.choice(YQ_NAMES))])


def gen_yq_settings(rng, ctx):
    keys = []
    for _ in range(rng.choice([0, 0, 1, 2])):
        k = rng.choice(YQ_NAMES)
        if k not in keys:
            keys.append(k)
    return dict(whitelist=[gen_yq_entry(rng, ctx) for _ in range(rng.choice([0, 0, 1, 2]))],
                blacklist=[gen_yq_entry(rng, ctx) for _ in range(rng.choice([0, 1, 2]))],
                remap=[(k, gen_yq_remap(rng, ctx)) for k in keys], auto=rng.random() < 0.5)


PY_ERRS = {'KeyError': KeyError, 'AttributeError': AttributeError, 'ValueError': ValueError, 'TypeError': TypeError}


def enc_value(v):
    import values
    return values.enc(v)


NAMED_WIRE = {
    'Yaql.Yaqlized.Entry': yq_entry_wire,
    'Yaql.Yaqlized.Settings': yq_settings_wire,
    'Yaql.Yaqlized.RemapTarget': yq_remap_wire,
    'Yaql.Py.Err': lambda v: v,
}
NAMED = {
    'Yaql.Yaqlized.Entry': (None, yq_entry_py),
    'Yaql.Yaqlized.Settings': (None, yq_settings_py),
    'Yaql.Yaqlized.RemapTarget': (yq_remap_of_py, yq_remap_py),
    'Yaql.Py.Err': (None, lambda v: PY_ERRS[v]),
    'Yaql.Value': (enc_value, None),
    'Yaql.Scalar.SVal': (enc_value, None),
    'Yaql.Scalar.Num': (enc_value, None),
    'Yaql.Strings.Atom': (enc_atom, None),
    'Nat': (lambda v: str(int(v)), None),
}


def real_callable(qual):
    mod, path = qual.split(':')
    obj = importlib.import_module(mod)
    for part in path.split('.'):
        obj = getattr(obj, part)
    return obj


def err_name(t, e):
    n = type(e).__name__
    import py2lean
    table = {}
    for k, v in list(py2lean.DEFAULT_ERRORS.items()) + list(t.errors.items()):
        table[k.split('.')[-1]] = v
    if n in table and table[n].startswith('(.other') or n in table and table[n].startswith('.other'):
        return 'other' + ''.join(ch for ch in table[n] if ch.isdigit())
    return n


def run_real(t, args):
    """the real function on python arguments (in parameter order, fixed callables included) -> wire outcome"""
    fn = real_callable(t.qual)
    pos = []
    import ast as _ast  # noqa
    for (p, ty), a in zip(t.params, args):
        pos.append(a)
    try:
        if t.vararg:
            r = fn(*pos[:-1], *pos[-1])
        else:
            r = fn(*pos)
        if t.is_generator:
            r = list(r)
        elif t.ret[0] == 'list' and not isinstance(r, (list, tuple)):
            r = list(r)
        v = enc(t.ret, r)
    except Exception as e:  # noqa: the exception class is the observation
        return {'err': err_name(t, e)}
    return {'ok': v} if t.raises else v


def to_python(ty, v):
    """generated abstract value -> the python object handed to the real function"""
    k = ty[0]
    if k == 'list':
        return tuple(to_python(ty[1], x) for x in v)
    if k == 'iter':
        return iter([to_python(ty[1], x) for x in v])
    if k == 'opt':
        return None if v is None else to_python(ty[1], v)
    if k == 'dict':
        return dict((to_python(ty[1], a), to_python(ty[2], b)) for a, b in v)
    if k == 'tup':
        return tuple(to_python(t, x) for t, x in zip(ty[1:], v))
    if k == 'named' and NAMED.get(ty[1], (None, None))[1] is not None:
        return NAMED[ty[1]][1](v)
    if k == 'fn' and not ty[1]:
        val = to_python(ty[2], v)
        return lambda: val
    if k == 'fn':
        return ST.FN_FAMILIES[ty][1][v]
    return v


def to_wire(ty, v):
    k = ty[0]
    if k == 'dict':
        return [[to_wire(ty[1], a), to_wire(ty[2], b)] for a, b in v]
    if k in ('list', 'iter'):
        return [to_wire(ty[1], x) for x in v]
    if k == 'opt':
        return None if v is None else {'some': to_wire(ty[1], v)}
    if k == 'tup':
        return [to_wire(t, x) for t, x in zip(ty[1:], v)]
    if k == 'named' and ty[1] in NAMED_WIRE:
        return NAMED_WIRE[ty[1]](v)
    return enc(ty, v)


# ------------------------------------------------------------------ generic, boundary-seeking argument generator

ALPHA = 'ab'


def gen_str(rng, ctx, maxlen=6):
    if 'str_pool' in ctx:
        return rng.choice(ctx['str_pool'])
    pool = ctx.setdefault('strs', [])
    r = rng.random()
    if pool and r < 0.35:
        s = rng.choice(pool)
        if s:
            i = rng.randrange(len(s) + 1)
            j = rng.randrange(i, len(s) + 1)
            out = s[i:j]
        else:
            out = ''
    else:
        alpha = ALPHA + (' \t' if rng.random() < 0.4 else '') + ('éx' if rng.random() < 0.15 else '')
        n = rng.choice([0, 0, 1, 1, 2, 3, 4, 5, maxlen])
        out = ''.join(rng.choice(alpha) for _ in range(n))
    pool.append(out)
    return out


def gen_int(rng, ctx):
    lens = [len(s) for s in ctx.get('strs', [])] + [len(x) for x in ctx.get('lists', [])] or [0]
    r = rng.random()
    if r < 0.55:
        n = rng.choice(lens)
        return rng.choice([-n - 2, -n - 1, -n, -n + 1, -1, 0, 1, n - 1, n, n + 1, n + 2])
    if r < 0.9:
        return rng.randint(-4, 8)
    return rng.choice([-10 ** 6, 10 ** 6, 2 ** 63, -2 ** 63 - 1, 97, -97])


def gen_value(rng, ty, ctx, depth=0):
    k = ty[0]
    if k == 'int':
        return gen_int(rng, ctx)
    if k == 'bool':
        return rng.random() < 0.5
    if k == 'str':
        return gen_str(rng, ctx)
    if k == 'char':
        return rng.choice(ALPHA + ' ')
    if k == 'unit':
        return None
    if k == 'opt':
        return None if rng.random() < 0.3 else gen_value(rng, ty[1], ctx, depth)
    if k in ('list', 'iter'):
        n = rng.choice([0, 1, 1, 2, 3, 4, 6]) if depth == 0 else rng.choice([0, 1, 2])
        out = [gen_value(rng, ty[1], ctx, depth + 1) for _ in range(n)]
        if depth == 0:
            ctx.setdefault('lists', []).append(out)
        return out
    if k == 'dict':
        n = rng.choice([0, 1, 2, 3])
        out, seen = [], []
        for _ in range(n):
            key = gen_value(rng, ty[1], ctx, depth + 1)
            if any(py_eq(key, s) for s in seen):
                continue
            seen.append(key)
            out.append((key, gen_value(rng, ty[2], ctx, depth + 1)))
        return out
    if k == 'tup':
        return tuple(gen_value(rng, t, ctx, depth + 1) for t in ty[1:])
    if k == 'named':
        g = NAMED_GEN.get(ty[1])
        if g:
            return g(rng, ctx)
    if k == 'fn' and not ty[1]:
        return gen_value(rng, ty[2], ctx, depth)
    if k == 'fn' and ty in ST.FN_FAMILIES:
        return rng.randrange(len(ST.FN_FAMILIES[ty][1]))
    raise TypeError('no generator for %r' % (ty,))


def py_eq(a, b):
    # python dict-key equality: True == 1, False == 0
    try:
        return a == b
    except Exception:
        return False


def gen_atom(rng, ctx):
    r = rng.random()
    if r < 0.15:
        return None
    if r < 0.3:
        return rng.random() < 0.5
    if r < 0.5:
        return rng.choice([0, 1, -1, 7, 10, -12, 255, 10 ** 12])
    return gen_str(rng, ctx, 3)


def gen_yvalue(rng, ctx, depth=0):
    """a small yaql value: scalars that collide under python `==` (1, True, 1.0 are excluded: floats are not
    generated here), strings, nested tuples"""
    r = rng.random()
    if r < 0.12:
        return None
    if r < 0.27:
        return rng.random() < 0.5
    if r < 0.62:
        return rng.choice([0, 1, 1, 2, 2, 3, -1, 7])
    if r < 0.85 or depth >= 1:
        return rng.choice(['', 'a', 'b', 'ab', 'a'])
    return tuple(gen_yvalue(rng, ctx, depth + 1) for _ in range(rng.choice([0, 1, 2])))


FLOATS = [0.0, -0.0, 0.5, 1.0, -1.0, 1.5, -2.5, 3.0, 1e16, 2.0 ** 53, 1e308, -1e308, 5e-324, float('inf'), float('-inf')]
INTS = [0, 1, -1, 2, 3, -3, 7, -7, 10, 2 ** 53, 2 ** 53 + 1, -2 ** 63, 2 ** 64, 10 ** 400, -10 ** 400]


def gen_num(rng, ctx):
    return rng.choice(INTS) if rng.random() < 0.6 else rng.choice(FLOATS)


def gen_sval(rng, ctx):
    r = rng.random()
    if r < 0.15:
        return None
    if r < 0.3:
        return rng.random() < 0.5
    if r < 0.75:
        return gen_num(rng, ctx)
    return rng.choice(['', 'a', 'b', 'ab', 'A', 'é'])


NAMED_GEN = {
    'Yaql.Yaqlized.Entry': gen_yq_entry,
    'Yaql.Yaqlized.Settings': gen_yq_settings,
    'Yaql.Yaqlized.RemapTarget': gen_yq_remap,
    'Yaql.Py.Err': lambda rng, ctx: rng.choice(['KeyError', 'AttributeError']),
    'Yaql.Scalar.SVal': gen_sval,
    'Yaql.Scalar.Num': gen_num,
    'Yaql.Value': gen_yvalue,
    'Yaql.Strings.Atom': gen_atom,
    'Nat': lambda rng, ctx: rng.choice([0, 32, 33, 40, 48, 56, 64, 100, 1000]),
}


def gen_args(rng, t):
    gen = CUSTOM_GEN.get(t.gen) if t.gen else None
    if gen is not None:
        return gen(rng, t)
    ctx = {}
    if t.area == 'Yaqlized':
        ctx['str_pool'] = YQ_NAMES
    return [gen_value(rng, ty, ctx) for p, ty in t.params if p not in t.fix]


CUSTOM_GEN = {}


def custom_gen(name):
    def deco(f):
        CUSTOM_GEN[name] = f
        return f
    return deco


# ------------------------------------------------------------------ the differential

def _prepare(t):
    """cache per target: is it a generator / vararg function (from the source of the tree under test)"""
    if hasattr(t, 'is_generator'):
        return
    import ast
    import py2lean
    tree, _ = py2lean.load_module_ast(common.REPO, t.module)
    f = py2lean.find_function(tree, t.func)
    t.is_generator = bool(f is not None and py2lean.contains(py2lean.strip_doc(f.body), (ast.Yield, ast.YieldFrom)))
    t.vararg = bool(t.vararg or (f is not None and f.args.vararg))


def differential(env, res, pid, oracle=None, per_target=None, only=None):
    """source-level differential of the property's translated functions.  `oracle(target, pyargs, real)` ->
    None | (key, what, replay): the property's own oracle on the real code for a candidate input."""
    drv = env.get('driver')
    tier = env.get('tier', 'quick')
    n = per_target or (150 if tier == 'quick' else 1500)
    rng = common.make_rng(env['seed'], pid + '-src')
    hist = {}
    replay = None
    if env.get('replay'):
        import json
        try:
            rp = json.load(open(env['replay']))
            if isinstance(rp.get('case'), dict) and 'src_target' in rp['case']:
                replay = rp['case']
        except Exception:
            replay = None
    for t in targets(pid):
        if only and t.name not in only:
            continue
        if t.diff is False:
            continue
        if replay is not None and replay['src_target'] != t.qual:
            continue
        try:
            _prepare(t)
            real_callable(t.qual)
        except Exception as e:  # the function is gone from the tree under test
            res.fail('mismatch', 'src-missing:' + t.name,
                     'source function %s cannot be loaded from the tree under test: %r' % (t.qual, e),
                     dict(src_target=t.qual))
            continue
        cases = []
        if replay is not None:
            cases = [replay['args']]
        else:
            for _ in range(n):
                cases.append(gen_args(rng, t))
        free = [(p, ty) for p, ty in t.params if p not in t.fix]
        # python arguments in parameter order (fixed callables from the tree under test)
        reals = []
        for a in cases:
            it = iter(a)
            pyargs = []
            for p, ty in t.params:
                if p in t.fix:
                    pyargs.append(real_callable(t.fix[p][1]))
                else:
                    pyargs.append(to_python(ty, next(it)))
            if t.pre is not None and not t.pre(*pyargs):
                reals.append(None)
                continue
            if t.pyargs is not None:
                pyargs = list(t.pyargs(*pyargs))
            reals.append((pyargs, run_real(t, pyargs)))
        answers = None
        if drv is not None:
            req = [dict(f='%s.%s' % (t.area, t.name), a=[to_wire(ty, v) for (p, ty), v in zip(free, a)])
                   for a, r in zip(cases, reals) if r is not None]
            answers = iter(drv.ask(dict(p='Src', cases=req))['r']) if req else iter([])
        bad_src = bad_model = 0
        for a, r in zip(cases, reals):
            if r is None:
                continue
            pyargs, real = r
            real = canon(real)
            ans = next(answers) if answers is not None else None
            sig = (t.name, repr(a))
            res.case(sig, nontrivial=True, sample='%s%r -> %r' % (t.name, tuple(a), real) if len(res.samples) < 3 else None)
            outcome = 'err' if isinstance(real, dict) and 'err' in real else 'ok'
            hist[t.name + ':' + outcome] = hist.get(t.name + ':' + outcome, 0) + 1
            rp = dict(src_target=t.qual, args=_jsonable(a), real=real)
            if ans is None:
                continue
            res.traces += 1
            if ans.get('untranslated'):
                # nothing to compare with: the obligation is already reported as broken by generate()
                model_says = None
            elif 'err' in ans and 'src' not in ans:
                res.fail('mismatch', 'src-driver:' + t.name, 'driver error for %s: %r' % (t.name, ans), rp)
                continue
            else:
                model_says = canon(ans['model'])
                if canon(ans['src']) != real and bad_src < 3:
                    bad_src += 1
                    res.fail('mismatch', 'src-translation:' + t.name,
                             'the Lean definition translated from %s gives %r, the function itself %r on %r '
                             '(translator or prelude wrong about this function)' % (t.qual, ans['src'], real, a), rp)
            if model_says is not None and model_says != real and bad_model < 3:
                bad_model += 1
                verdict = None
                if oracle is not None:
                    verdict = oracle(t, pyargs, real)
                if verdict is not None:
                    key, what, replay_case = verdict
                    res.fail('oracle', key, what, replay_case)
                else:
                    res.fail('mismatch', 'src-model:' + t.name,
                             'source function %s returns %r on %r, the hand-written model (right-hand side of theorem '
                             'Yaql.Props.Src%s.%s) says %r' % (t.qual, real, a, t.area, t.theorem, model_says), rp)
    res.extra.setdefault('histogram', {})
    res.extra['src_differential'] = hist
    return hist


def canon(j):
    """wire values up to what python cannot tell apart: every NaN is one value"""
    if isinstance(j, dict):
        if set(j) == {'f'} and isinstance(j['f'], str) and len(j['f']) == 16:
            w = int(j['f'], 16)
            if (w >> 52) & 0x7ff == 0x7ff and w & ((1 << 52) - 1):
                return {'f': '7ff8000000000000'}
            return j
        return {k: canon(v) for k, v in j.items()}
    if isinstance(j, list):
        return [canon(x) for x in j]
    return j


def _jsonable(a):
    if isinstance(a, (list, tuple)):
        return [_jsonable(x) for x in a]
    return a
