"""Typing entries of the source translator (harness/py2lean.py): which yaql functions are translated
into Lean on every run, with which Lean types, against which hand-written model expression.

Per target:
  qual      'package.module:function' (or 'package.module:Class.method')
  area      -> lean/Yaql/Gen/Src<Area>.lean (definitions), lean/Yaql/Props/Src<Area>.lean (theorems)
  owners    the property checks that carry the obligation
  params    [(python parameter name, type)]      types: see py2lean.py
  ret       result type; raises=True -> the Lean result is `Except Yaql.Py.Err ret`
  model     Lean expression over the parameter names: the right-hand side of the equivalence theorem
            (`Gen.Src<Area>.f params = model`), also evaluated by the driver for the differential
  theorem   name of the equivalence theorem in Yaql.Props.Src<Area>
  ambient   [(lean name, lean type)] extra leading parameters (tables of the running interpreter)
  prims     python dotted name -> Prim: calls the translator maps to a named Lean primitive
  fix       parameter -> (Lean text, 'module:callable'): how a callable parameter is instantiated in
            the theorem and in the differential
"""
import py2lean
from py2lean import Target, Prim, T, INT, BOOL, STR, NONE  # noqa


class Area:
    def __init__(self, name, imports, drv_imports=(), ambient_values=None, opens=(), uses=()):
        self.name, self.imports, self.drv_imports = name, list(imports), list(drv_imports)
        self.uses = list(uses)          # areas whose translated functions this one calls (generated first)
        self.ambient_values = dict(ambient_values or {})
        self.opens = list(opens)


AREAS = {}
TARGETS = []


def area(name, **kw):
    AREAS[name] = Area(name, **kw)


def target(qual, **kw):
    fix = kw.pop('fix', None)
    t = Target(qual, **kw)
    t.fix = fix or {}
    TARGETS.append(t)
    return t


# closed universes of named Lean types: isinstance tables, operators, codecs
UNIVERSES = {
    'Yaql.Strings.Atom': dict(
        structural_eq=True,
        is_const={'none': '(Yaql.PyStr.atomIsNone {0})', 'true': '(Yaql.PyStr.atomIsTrue {0})',
                  'false': '(Yaql.PyStr.atomIsFalse {0})'},
        str='(Yaql.PyStr.pyStr {0})',
        codec=('Yaql.Drv.SrcCodec.decAtom', 'Yaql.Drv.SrcCodec.encAtom'),
    ),
    'Nat': dict(structural_eq=True, codec=('Yaql.Drv.SrcCodec.decNat', 'Yaql.Drv.SrcCodec.encNat')),
}

VALUE = '@Yaql.Value'
UNIVERSES['Yaql.Value'] = dict(
    # python `==` on values is the model's pyEq (1 == True == 1.0 ...)
    ops={'Eq': Prim('(Yaql.Value.pyEq {0} {1})', [VALUE, VALUE], BOOL),
         'NotEq': Prim('(!Yaql.Value.pyEq {0} {1})', [VALUE, VALUE], BOOL)},
    inject={'int': '(Yaql.Value.int {0})', 'bool': '(Yaql.Value.bool {0})', 'str': '(Yaql.Value.str {0})',
            '[@Yaql.Value]': '(Yaql.Value.list {0})', 'none': 'Yaql.Value.null'},
    # a dict with yaql values as keys: lookups by python equality / hash
    dict={'has': '(Yaql.Seq.dHas {0} {1})', 'get': '(Yaql.Seq.dGet {0} {1})'},
    codec=('Yaql.Drv.valOfJson', 'Yaql.Drv.valToJson'),
)

# calls of library functions that are primitives of the translation (dotted name as written in the source)
py2lean.GLOBAL_PRIMS.update({
    'itertools.takewhile': Prim('(List.takeWhile {0} {1})', [None, None], lambda r, a: a[1]),
    'itertools.dropwhile': Prim('(List.dropWhile {0} {1})', [None, None], lambda r, a: a[1]),
    # islice(xs, stop) / islice(xs, start, stop): the bounds are checked when the islice object is built
    'itertools.islice': Prim('(Yaql.Py.islice {0} {1} {2})', [None, 'int?', 'int?'], lambda r, a: a[0], opt=1,
                             optwrap=False, defaults=['Yaql.Py.isliceStopOnly'], partial=True),
    'itertools.chain': Prim('({0} ++ {1})', [None, None], lambda r, a: a[0]),
    'iter': Prim('{0}', [None], lambda r, a: a[0]),
})
py2lean.GLOBAL_CONSTS.update({
    'utils.NO_VALUE': ('none', NONE),          # the "no value" sentinel is the `none` of an Option
})

def _hashable(v):
    try:
        hash(v)
        return True
    except TypeError:
        return False


def _is_int(v):
    return isinstance(v, int) and not isinstance(v, bool)


# closed families of total callables for callable parameters (lean decoder in Drv/SrcCodec.lean, same order)
FN_FAMILIES = {
    T('fn(@Yaql.Value) -> bool'): ('Yaql.Drv.SrcCodec.decPredV', [
        lambda v: False, lambda v: True, _is_int, lambda v: _is_int(v) and v > 1, lambda v: v is None,
        lambda v: isinstance(v, str)]),
}

VL = '[@Yaql.Value]'
CFG = [('cfg', 'Yaql.Strings.Cfg')]

# ------------------------------------------------------------------------------------------------ C19 strings.py
area('Strings', imports=['Yaql.Model.PyPrelude', 'Yaql.Model.PyStr', 'Yaql.Model.Strings'],
     drv_imports=['Yaql.Drv.C19'], ambient_values={'cfg': 'Yaql.Drv.C19.cfg', 'tabs': 'Yaql.Drv.C19.tables'})

S = 'yaql.standard_library.strings:'
ATOM = '@Yaql.Strings.Atom'
STR_OF = ('Yaql.Strings.strOf', 'yaql.standard_library.strings:str_')

target(S + 'substring', area='Strings', owners=['C19'],
       params=[('string', 'str'), ('start', 'int'), ('length', 'int')], ret='str',
       model='Yaql.Strings.substring string start length', theorem='substring_src_eq')
target(S + 'index_of', area='Strings', owners=['C19'],
       params=[('string', 'str'), ('sub', 'str'), ('start', 'int')], ret='int',
       model='Yaql.Strings.indexOf string sub start', theorem='index_of_src_eq')
target(S + 'index_of_', area='Strings', owners=['C19'], name='index_of4',
       params=[('string', 'str'), ('sub', 'str'), ('start', 'int'), ('length', 'int')], ret='int',
       model='Yaql.Strings.indexOf4 string sub start length', theorem='index_of4_src_eq')
target(S + 'last_index_of', area='Strings', owners=['C19'],
       params=[('string', 'str'), ('sub', 'str'), ('start', 'int')], ret='int',
       model='Yaql.Strings.lastIndexOf string sub start', theorem='last_index_of_src_eq')
target(S + 'last_index_of_', area='Strings', owners=['C19'], name='last_index_of4',
       params=[('string', 'str'), ('sub', 'str'), ('start', 'int'), ('length', 'int')], ret='int',
       model='Yaql.Strings.lastIndexOf4 string sub start length', theorem='last_index_of4_src_eq')
target(S + 'trim', area='Strings', owners=['C19'], ambient=CFG,
       params=[('string', 'str'), ('chars', 'str?')], ret='str',
       model='Yaql.Strings.trim cfg string chars', theorem='trim_src_eq')
target(S + 'trim_left', area='Strings', owners=['C19'], ambient=CFG,
       params=[('string', 'str'), ('chars', 'str?')], ret='str',
       model='Yaql.Strings.trimLeft cfg string chars', theorem='trim_left_src_eq')
target(S + 'trim_right', area='Strings', owners=['C19'], ambient=CFG,
       params=[('string', 'str'), ('chars', 'str?')], ret='str',
       model='Yaql.Strings.trimRight cfg string chars', theorem='trim_right_src_eq')
target(S + 'norm', area='Strings', owners=['C19'], ambient=CFG,
       params=[('string', 'str?'), ('chars', 'str?')], ret='str?',
       model='Yaql.Strings.norm cfg string chars', theorem='norm_src_eq')
target(S + 'is_empty', area='Strings', owners=['C19'], ambient=CFG,
       params=[('string', 'str?'), ('trim_spaces', 'bool'), ('chars', 'str?')], ret='bool',
       model='Yaql.Strings.isEmpty cfg string trim_spaces chars', theorem='is_empty_src_eq')
# CPython converts `count` / `max_splits` to Py_ssize_t: outside that range the call raises OverflowError, which the
# hand-written model does not have (it is total there) - the theorems carry the guard explicitly
target(S + 'replace', area='Strings', owners=['C19'], raises=True,
       params=[('string', 'str'), ('old', 'str'), ('new', 'str'), ('count', 'int')], ret='str',
       model='if Yaql.Py.ssizeOk count then .ok (Yaql.Strings.replace string old new count) else .error .overflowError',
       theorem='replace_src_eq')
target(S + 'replace_with_dict', area='Strings', owners=['C19'],
       params=[('string', 'str'), ('str_func', 'fn(%s) -> str' % ATOM), ('replacements', '{%s: %s}' % (ATOM, ATOM)),
               ('count', 'int')], ret='str',
       fix={'str_func': STR_OF}, raises=True,
       model='if Yaql.Py.ssizeOk count || replacements.isEmpty then .ok (Yaql.Strings.replaceDict string replacements count) '
             'else .error .overflowError', theorem='replace_with_dict_src_eq')
target(S + 'join', area='Strings', owners=['C19'],
       params=[('sequence', '[%s]' % ATOM), ('separator', 'str'), ('str_delegate', 'fn(%s) -> str' % ATOM)], ret='str',
       fix={'str_delegate': STR_OF},
       model='Yaql.Strings.joinAtoms sequence separator', theorem='join_src_eq')
target(S + 'join_', area='Strings', owners=['C19'], name='join2',
       params=[('separator', 'str'), ('sequence', '[%s]' % ATOM), ('str_delegate', 'fn(%s) -> str' % ATOM)], ret='str',
       fix={'str_delegate': STR_OF},
       model='Yaql.Strings.joinAtoms sequence separator', theorem='join2_src_eq')
target(S + 'split', area='Strings', owners=['C19'], ambient=CFG, raises=True,
       params=[('string', 'str'), ('separator', 'str?'), ('max_splits', 'int')], ret='[str]',
       model='if Yaql.Py.ssizeOk max_splits then Yaql.PyStr.liftErr (Yaql.Strings.split cfg string separator max_splits) '
             'else .error .overflowError',
       theorem='split_src_eq')
target(S + 'right_split', area='Strings', owners=['C19'], ambient=CFG, raises=True,
       params=[('string', 'str'), ('separator', 'str?'), ('max_splits', 'int')], ret='[str]',
       model='if Yaql.Py.ssizeOk max_splits then Yaql.PyStr.liftErr (Yaql.Strings.rightSplit cfg string separator max_splits) '
             'else .error .overflowError',
       theorem='right_split_src_eq')
target(S + 'in_', area='Strings', owners=['C19'],
       params=[('left', 'str'), ('right', 'str')], ret='bool',
       model='Yaql.Strings.isIn left right', theorem='in_src_eq')
target(S + 'starts_with', area='Strings', owners=['C19'],
       params=[('string', 'str'), ('prefixes', '[str]')], ret='bool',
       model='Yaql.Strings.startsWith string prefixes', theorem='starts_with_src_eq')
target(S + 'ends_with', area='Strings', owners=['C19'],
       params=[('string', 'str'), ('suffixes', '[str]')], ret='bool',
       model='Yaql.Strings.endsWith string suffixes', theorem='ends_with_src_eq')
target(S + 'concat', area='Strings', owners=['C19'],
       params=[('args', '[str]')], ret='str',
       model='Yaql.Strings.concat args', theorem='concat_src_eq')
target(S + 'len_', area='Strings', owners=['C19'],
       params=[('string', 'str')], ret='int',
       model='Yaql.Strings.len string', theorem='len_src_eq')
target(S + 'to_char_array', area='Strings', owners=['C19'],
       params=[('string', 'str')], ret='[str]',
       model='Yaql.Strings.toCharArray string', theorem='to_char_array_src_eq')


# ------------------------------------------------------------------------------------------------ C08 utils.py limits
area('Limits', imports=['Yaql.Model.PyPrelude', 'Yaql.Model.Limits'])

U = 'yaql.language.utils:'
QUOTA_ERR = {'exceptions.MemoryQuotaExceededException': '(.other 1)',
             'exceptions.CollectionTooLargeException': '(.other 2)'}
py2lean.DEFAULT_ERRORS.update(QUOTA_ERR)
SIZES = [('sizes', 'Yaql.Limits.SizeCfg'), ('kind', 'Yaql.Limits.SeqK')]
SIZES_VALUES = {'sizes': 'Yaql.Gen.Sizes.cfg', 'kind': 'Yaql.Limits.SeqK.tuple'}
# an object whose size is taken with sys.getsizeof is represented by that size (a Nat); the objects the callers
# build are turned into their sizes by the size model of Yaql.Limits over the constants of the running CPython
UNIVERSES['Nat']['inject'] = {
    '[]': '(Yaql.Limits.SizeCfg.tupleHdr {sizes})',
    '[@Yaql.Value]': '(Yaql.Limits.SizeCfg.seqSize {sizes} {kind} {0}.length)',
    'str': '(Yaql.Limits.SizeCfg.strSize {sizes} (Yaql.Limits.strClassOf (Yaql.Py.maxCp {0})) {0}.length)',
}


class _Sized:
    def __init__(self, n):
        self.n = n

    def __sizeof__(self):
        return self.n


def _sized(n):
    """a python object with sys.getsizeof(obj, 0) == n (for n above the GC header)"""
    import sys
    over = sys.getsizeof(_Sized(1000), 0) - 1000
    return _Sized(n - over)


target(U + 'limit_memory_usage', area='Limits', owners=['C08'], raises=True, vararg=True, errors=QUOTA_ERR,
       callname='utils.limit_memory_usage',
       params=[('quota_or_engine', 'int'), ('args', '[(int, @Nat)]')], ret='unit',
       prims={'sys.getsizeof': Prim('(({0} : Nat) : Int)', ['@Nat', 'int'], INT)},
       pyargs=lambda q, args: (q, tuple((c, _sized(n)) for c, n in args)),
       pre=lambda q, args: all(n >= 32 for _c, n in args),
       model='if Yaql.Limits.limitMemory quota_or_engine args then .ok () else .error (.other 1)',
       theorem='limit_memory_usage_src_eq',
       note='quota given directly (the int branch of isinstance(quota_or_engine, int)); the differential uses sample '
            'objects of size >= 32 (a python object cannot be smaller than its header)')
target(U + 'limit_iterable', area='Limits', owners=['C08'], raises=True, errors=QUOTA_ERR, name='limit_iterable_sized',
       params=[('iterable', VL), ('limit_or_engine', 'int')], ret=VL,
       model='match Yaql.Limits.limitSized (Yaql.Py.limitOf limit_or_engine) iterable.length with '
             '| .ok _ => .ok iterable | .error _ => .error (.other 2)',
       theorem='limit_iterable_sized_src_eq')
target(U + 'limit_iterable', area='Limits', owners=['C08'], raises=True, errors=QUOTA_ERR, name='limit_iterable_iter',
       params=[('iterable', 'iter[@Yaql.Value]'), ('limit_or_engine', 'int')], ret=VL,
       model='match Yaql.Limits.limitSized (Yaql.Py.limitOf limit_or_engine) iterable.length with '
             '| .ok _ => .ok iterable | .error _ => .error (.other 2)',
       theorem='limit_iterable_iter_src_eq',
       note='the counting generator consumed to the end: it raises iff the sized check would')

# ------------------------------------------------------------------------------------------------ C13 collections / queries
area('Seq', imports=['Yaql.Model.PyPrelude', 'Yaql.Model.Seq'])
# the streaming operators that are plain itertools calls: shared by C13 (values) and C14 (consumption)
area('Stream', imports=['Yaql.Model.PyPrelude', 'Yaql.Model.Seq'])
# sequence repetition with its memory estimate: shared by C13 (value) and C08 (quota)
area('Repeat', imports=['Yaql.Model.PyPrelude', 'Yaql.Model.Seq', 'Yaql.Model.Limits', 'Yaql.Gen.SrcLimits'],
     uses=['Limits'], drv_imports=['Yaql.Gen.Sizes'], ambient_values=SIZES_VALUES)

Q = 'yaql.standard_library.queries:'
C = 'yaql.standard_library.collections:'
PRED = 'fn(@Yaql.Value) -> bool'
TOLIST = ('(fun (xs : List Yaql.Value) => xs)', 'builtins:list')
SEQ = 'Yaql.Seq.'

target(C + 'list_insert', area='Seq', owners=['C13'], raises=True,
       params=[('collection', VL), ('position', 'int'), ('value', VALUE)], ret=VL,
       model='if Yaql.Py.ssizeOk position then .ok (%slistInsert position value collection) else .error .overflowError' % SEQ,
       theorem='list_insert_src_eq')
target(C + 'iter_insert', area='Seq', owners=['C13'],
       params=[('collection', VL), ('position', 'int'), ('value', VALUE)], ret=VL,
       model=SEQ + 'iterInsert position value collection', theorem='iter_insert_src_eq')
target(C + 'insert_many', area='Seq', owners=['C13'],
       params=[('collection', VL), ('position', 'int'), ('values', VL)], ret=VL,
       model=SEQ + 'insertMany position values collection', theorem='insert_many_src_eq')
target(C + 'delete', area='Seq', owners=['C13'],
       params=[('collection', VL), ('position', 'int'), ('count', 'int')], ret=VL,
       model=SEQ + 'delete position count collection', theorem='delete_src_eq')
target(C + 'replace', area='Seq', owners=['C13'],
       params=[('collection', VL), ('position', 'int'), ('value', VALUE), ('count', 'int')], ret=VL,
       model=SEQ + 'replace position count value collection', theorem='replace_src_eq')
target(C + 'replace_many', area='Seq', owners=['C13'],
       params=[('collection', VL), ('position', 'int'), ('values', VL), ('count', 'int')], ret=VL,
       model=SEQ + 'replaceMany position count values collection', theorem='replace_many_src_eq')
KVD = '{@Yaql.Value: @Yaql.Value}'
target(C + 'contains_key', area='Seq', owners=['C13'],
       params=[('d', KVD), ('key', VALUE)], ret='bool', pre=lambda d, key: _hashable(key),
       model=SEQ + 'containsKey d key', theorem='contains_key_src_eq')
target(C + 'contains_value', area='Seq', owners=['C13'],
       params=[('d', KVD), ('value', VALUE)], ret='bool',
       model=SEQ + 'containsValue d value', theorem='contains_value_src_eq')
target(C + 'dict_indexer_with_default', area='Seq', owners=['C13'],
       params=[('d', KVD), ('key', VALUE), ('default', VALUE)], ret=VALUE, pre=lambda d, key, default: _hashable(key),
       model=SEQ + 'dictGet d key default_', theorem='dict_indexer_with_default_src_eq')
target(C + 'dict_get', area='Seq', owners=['C13'],
       params=[('d', KVD), ('key', VALUE), ('default', VALUE)], ret=VALUE, pre=lambda d, key, default: _hashable(key),
       model=SEQ + 'dictGet d key default_', theorem='dict_get_src_eq')
target(C + 'dict_indexer', area='Seq', owners=['C13'], raises=True,
       params=[('d', KVD), ('key', VALUE)], ret=VALUE, pre=lambda d, key: _hashable(key),
       model='Yaql.Py.ofOption (Yaql.Seq.dGet d key) .keyError', theorem='dict_indexer_src_eq')
target(C + 'dict_keys', area='Seq', owners=['C13'],
       params=[('d', KVD)], ret=VL, model=SEQ + 'dictKeys d', theorem='dict_keys_src_eq')
target(C + 'dict_values', area='Seq', owners=['C13'],
       params=[('d', KVD)], ret=VL, model=SEQ + 'dictValues d', theorem='dict_values_src_eq')
target(Q + 'index_of', area='Seq', owners=['C13'],
       params=[('collection', VL), ('item', VALUE)], ret='int',
       model=SEQ + 'indexOf item collection', theorem='index_of_src_eq')
target(Q + 'last_index_of', area='Seq', owners=['C13'],
       params=[('collection', VL), ('item', VALUE)], ret='int',
       model=SEQ + 'lastIndexOf item collection', theorem='last_index_of_src_eq')
target(Q + 'index_where', area='Seq', owners=['C13'],
       params=[('collection', VL), ('predicate', PRED)], ret='int',
       model=SEQ + 'indexWhere predicate collection', theorem='index_where_src_eq')
target(Q + 'last_index_where', area='Seq', owners=['C13'],
       params=[('collection', VL), ('predicate', PRED)], ret='int',
       model=SEQ + 'lastIndexWhere predicate collection', theorem='last_index_where_src_eq')
target(Q + 'enumerate_', area='Seq', owners=['C13'],
       params=[('collection', VL), ('start', 'int')], ret=VL,
       model=SEQ + 'enumerateFrom start collection', theorem='enumerate_src_eq')
target(Q + 'append', area='Seq', owners=['C13'],
       params=[('collection', VL), ('args', VL)], ret=VL,
       model=SEQ + 'append collection args', theorem='append_src_eq')
target(Q + 'take_while', area='Stream', owners=['C13', 'C14'],
       params=[('collection', VL), ('predicate', PRED)], ret=VL,
       model=SEQ + 'takeWhile predicate collection', theorem='take_while_src_eq')
target(Q + 'skip_while', area='Stream', owners=['C13', 'C14'],
       params=[('collection', VL), ('predicate', PRED)], ret=VL,
       model=SEQ + 'skipWhile predicate collection', theorem='skip_while_src_eq')
target(Q + 'skip', area='Stream', owners=['C13', 'C14'], raises=True,
       params=[('collection', VL), ('count', 'int')], ret=VL,
       model='if Yaql.Py.isliceOk count then .ok (%sskip count.toNat collection) else .error .valueError' % SEQ,
       theorem='skip_src_eq')
target(Q + 'limit', area='Stream', owners=['C13', 'C14'], raises=True,
       params=[('collection', VL), ('count', 'int')], ret=VL,
       model='if Yaql.Py.isliceOk count then .ok (%stake count.toNat collection) else .error .valueError' % SEQ,
       theorem='limit_src_eq')
target(Q + 'split_at', area='Seq', owners=['C13'],
       params=[('collection', VL), ('index', 'int'), ('to_list', 'fn(%s) -> %s' % (VL, VL))], ret='[%s]' % VL,
       fix={'to_list': TOLIST},
       model='[(%ssplitAt index collection).1, (%ssplitAt index collection).2]' % (SEQ, SEQ), theorem='split_at_src_eq')
target(Q + 'any_', area='Seq', owners=['C13'],
       params=[('collection', VL), ('predicate', '(%s)?' % PRED)], ret='bool', diff=False,
       model='match predicate with | none => !collection.isEmpty | some p => %sany_ p collection' % SEQ,
       theorem='any_src_eq')
target(Q + 'split_where', area='Seq', owners=['C13'], raises=True, fuel=True, fuel_expr='collection.length',
       params=[('collection', VL), ('predicate', PRED), ('to_list', 'fn(%s) -> %s' % (VL, VL))], ret='[%s]' % VL,
       fix={'to_list': TOLIST},
       model='.ok (%ssplitWhere predicate collection)' % SEQ, theorem='split_where_src_eq')
target(C + 'list_by_int', area='Repeat', owners=['C13', 'C08'], raises=True, ambient=SIZES,
       params=[('left', VL), ('right', 'int'), ('engine', 'int')], ret=VL,
       pre=lambda left, right, engine: abs(right) <= 3000,
       model='if Yaql.Limits.listByIntCheck sizes engine kind left.length right then .ok (%slistByInt left right) '
             'else .error (.other 1)' % SEQ, theorem='list_by_int_src_eq',
       note='engine = the memory quota; sequence repetition beyond 3000 copies is outside the differential '
            '(MemoryError / OverflowError of the allocator)')
target(C + 'int_by_list', area='Repeat', owners=['C13'], raises=True, ambient=SIZES,
       params=[('left', 'int'), ('right', VL), ('engine', 'int')], ret=VL,
       pre=lambda left, right, engine: abs(left) <= 3000,
       model='if Yaql.Limits.listByIntCheck sizes engine kind right.length left then .ok (%slistByInt right left) '
             'else .error (.other 1)' % SEQ, theorem='int_by_list_src_eq')


# ------------------------------------------------------------------------------------------------ C15 math / common / boolean
NUM = '@Yaql.Scalar.Num'
SVAL = '@Yaql.Scalar.SVal'
FOPS = [('F', 'Yaql.Scalar.FloatOps')]


def _numop(op):
    return Prim('(Yaql.PyNum.arith {F} .%s {0} {1})' % op, [NUM, NUM], T(SVAL), partial=True)


UNIVERSES['Yaql.Scalar.Num'] = dict(
    narrow={'int': ('Yaql.Scalar.Num.int', 'int')},
    isinstance={'int': '(Yaql.PyNum.isInt {0})'},
    inject={'int': '(Yaql.Scalar.Num.int {0})'},
    ops={'Add': _numop('add'), 'Sub': _numop('sub'), 'Mult': _numop('mul'), 'Mod': _numop('mod'),
         'Div': Prim('(Yaql.PyNum.truediv {F} {0} {1})', [NUM, NUM], T(SVAL), partial=True),
         'USub': Prim('(Yaql.PyNum.neg {0})', [NUM], T(SVAL)), 'UAdd': Prim('(Yaql.PyNum.pos {0})', [NUM], T(SVAL)),
         'Lt': Prim('(Yaql.PyNum.lt {0} {1})', [NUM, NUM], BOOL), 'LtE': Prim('(Yaql.PyNum.le {0} {1})', [NUM, NUM], BOOL),
         'Gt': Prim('(Yaql.PyNum.gt {0} {1})', [NUM, NUM], BOOL), 'GtE': Prim('(Yaql.PyNum.ge {0} {1})', [NUM, NUM], BOOL)},
    codec=('Yaql.Drv.SrcCodec.decNum', 'Yaql.Drv.SrcCodec.encNum'),
)
UNIVERSES['Yaql.Scalar.SVal'] = dict(
    inject={'int': '(Yaql.Scalar.SVal.int {0})', 'bool': '(Yaql.Scalar.SVal.bool {0})', 'str': '(Yaql.Scalar.SVal.str {0})'},
    isinstance={'int': '(Yaql.PyNum.svIsInt {0})', 'bool': '(Yaql.PyNum.svIsBool {0})',
                'float': '(Yaql.PyNum.svIsFloat {0})', 'str': '(Yaql.PyNum.svIsStr {0})'},
    truthy='(Yaql.Scalar.truthy {0})',
    ops={'Eq': Prim('(Yaql.Scalar.pyEq {0} {1})', [SVAL, SVAL], BOOL),
         'NotEq': Prim('(!Yaql.Scalar.pyEq {0} {1})', [SVAL, SVAL], BOOL)},
    codec=('Yaql.Drv.SrcCodec.decSVal', 'Yaql.Drv.SrcCodec.encSVal'),
)

area('Scalar', imports=['Yaql.Model.PyPrelude', 'Yaql.Model.PyNum', 'Yaql.Model.PyStr', 'Yaql.Model.Scalar'],
     drv_imports=['Yaql.Drv.C15'], ambient_values={'F': 'Yaql.Drv.C15.machineOps'})

M = 'yaql.standard_library.math:'
CM = 'yaql.standard_library.common:'
B = 'yaql.standard_library.boolean:'
RUN = 'Yaql.Scalar.run F 0 .%s [%s]'

for _py, _impl in [('binary_plus', 'mathPlus'), ('binary_minus', 'mathMinus'), ('multiplication', 'mathMul'),
                   ('division', 'mathDiv'), ('modulo', 'mathMod')]:
    target(M + _py, area='Scalar', owners=['C15'], raises=True, ambient=FOPS,
           params=[('left', NUM), ('right', NUM)], ret=SVAL,
           model='Yaql.PyNum.liftErr (%s)' % (RUN % (_impl, 'left.toSVal, right.toSVal')), theorem=_py + '_src_eq')
for _py, _impl in [('unary_minus', 'mathUMinus'), ('unary_plus', 'mathUPlus')]:
    target(M + _py, area='Scalar', owners=['C15'], ambient=FOPS,
           params=[('op', NUM)], ret=SVAL,
           model='Yaql.PyNum.valOf (%s)' % (RUN % (_impl, 'op.toSVal')), theorem=_py + '_src_eq')
for _py, _impl in [('gt', 'mathGt'), ('gte', 'mathGte'), ('lt', 'mathLt'), ('lte', 'mathLte')]:
    target(M + _py, area='Scalar', owners=['C15'], ambient=FOPS,
           params=[('left', NUM), ('right', NUM)], ret='bool',
           model='Yaql.PyNum.boolOf (%s)' % (RUN % (_impl, 'left.toSVal, right.toSVal')), theorem=_py + '_src_eq')
for _py, _impl in [('gt', 'strGt'), ('gte', 'strGte'), ('lt', 'strLt'), ('lte', 'strLte')]:
    target(S + _py, area='Scalar', owners=['C15'], ambient=FOPS, name='str_' + _py,
           params=[('left', 'str'), ('right', 'str')], ret='bool',
           model='Yaql.PyNum.boolOf (%s)' % (RUN % (_impl, '.str left, .str right')), theorem='str_%s_src_eq' % _py)
for _py, _impl in [('eq', 'eq'), ('neq', 'neq')]:
    target(CM + _py, area='Scalar', owners=['C15'], ambient=FOPS,
           params=[('left', SVAL), ('right', SVAL)], ret='bool',
           model='Yaql.PyNum.boolOf (%s)' % (RUN % (_impl, 'left, right')), theorem=_py + '_src_eq')
for _py, _impl in [('left_lt_null', 'leftLtNull'), ('left_lte_null', 'leftLteNull'), ('left_gt_null', 'leftGtNull'),
                   ('left_gte_null', 'leftGteNull'), ('null_lt_right', 'nullLtRight'), ('null_lte_right', 'nullLteRight'),
                   ('null_gt_right', 'nullGtRight'), ('null_gte_right', 'nullGteRight'), ('null_lt_null', 'nullLtNull'),
                   ('null_lte_null', 'nullLteNull'), ('null_gt_null', 'nullGtNull'), ('null_gte_null', 'nullGteNull')]:
    target(CM + _py, area='Scalar', owners=['C15'], ambient=FOPS,
           params=[('left', SVAL), ('right', SVAL)], ret='bool',
           model='Yaql.PyNum.boolOf (%s)' % (RUN % (_impl, 'left, right')), theorem=_py + '_src_eq')
for _py, _impl in [('and_', 'and'), ('or_', 'or')]:
    target(B + _py, area='Scalar', owners=['C15'], ambient=FOPS,
           params=[('left', 'fn() -> ' + SVAL), ('right', 'fn() -> ' + SVAL)], ret=SVAL,
           model='Yaql.PyNum.valOf (%s)' % (RUN % (_impl, 'left, right')), theorem=_py + 'src_eq',
           note='the lazy operands are total: a thunk is its value')
target(B + 'not_', area='Scalar', owners=['C15'], ambient=FOPS,
       params=[('arg', SVAL)], ret='bool',
       model='Yaql.PyNum.boolOf (%s)' % (RUN % ('not', 'arg')), theorem='not_src_eq')


# ------------------------------------------------------------------------------------------------ C07 yaqlized.py
ENTRY = '@Yaql.Yaqlized.Entry'
SETTINGS = '@Yaql.Yaqlized.Settings<@Yaql.Yaqlized.Entry>'
REMAP = '@Yaql.Yaqlized.RemapTarget'
PYERR = '@Yaql.Py.Err'
UNIVERSES['Yaql.Yaqlized.Entry'] = dict(
    ops={'Eq': Prim('(Yaql.PyYq.eqName {0} {1})', ['str', ENTRY], BOOL)},
    isinstance={'REGEX_TYPE': '(Yaql.PyYq.isRegex {0})'},
    methods={'search': Prim('(Yaql.PyYq.search {self} {0})', ['str'], T('unit?'))},
    callable='(Yaql.PyYq.isCallable {0})',
    call=Prim('(Yaql.PyYq.call {self} {0})', ['str'], BOOL),
    codec=('Yaql.Drv.SrcYq.decEntry', 'Yaql.Drv.SrcYq.decEntry'),
)
UNIVERSES['Yaql.Yaqlized.Settings'] = dict(
    items={'whitelist': ('{self}.whitelist', '[%s]' % ENTRY), 'blacklist': ('{self}.blacklist', '[%s]' % ENTRY),
           'attributeRemapping': ('{self}.remapping', '{str: %s}' % REMAP),
           'autoYaqlizeResult': ('{self}.autoYaqlizeResult', 'bool')},
    codec=('Yaql.Drv.SrcYq.decSettings', 'Yaql.Drv.SrcYq.decSettings'),
)
UNIVERSES['Yaql.Yaqlized.RemapTarget'] = dict(
    inject={'str': '(Yaql.Yaqlized.RemapTarget.name {0})'},
    codec=('Yaql.Drv.SrcYq.decRemap', 'Yaql.Drv.SrcYq.encRemap'),
)
UNIVERSES['Yaql.Py.Err'] = dict(structural_eq=True, codec=('Yaql.Drv.SrcYq.decErr', 'Yaql.Drv.SrcYq.decErr'))
py2lean.GLOBAL_CONSTS.update({
    'AttributeError': ('Yaql.Py.Err.attributeError', PYERR),
    'KeyError': ('Yaql.Py.Err.keyError', PYERR),
})

area('Yaqlized', imports=['Yaql.Model.PyPrelude', 'Yaql.Model.PyYq', 'Yaql.Model.Yaqlized'],
     drv_imports=['Yaql.Drv.SrcYq'])
Y = 'yaql.standard_library.yaqlized:'

target(Y + '_match_name_to_entry', area='Yaqlized', owners=['C07'], name='match_name_to_entry',
       params=[('name', 'str'), ('entry', ENTRY)], ret='bool',
       model='Yaql.Yaqlized.Entry.matchesName entry name', theorem='match_name_to_entry_src_eq')
target(Y + '_validate_name', area='Yaqlized', owners=['C07'], name='validate_name', raises=True,
       params=[('name', 'str'), ('settings', SETTINGS), ('exception_cls', PYERR)], ret='unit',
       model='match exception_cls with '
             '| .keyError => Yaql.PyYq.liftErr (Yaql.Yaqlized.validateName .keyError settings name) '
             '| .attributeError => Yaql.PyYq.liftErr (Yaql.Yaqlized.validateName .attributeError settings name) '
             '| e => (match Yaql.Yaqlized.validateName .keyError settings name with | .ok u => .ok u | .error _ => .error e)',
       theorem='validate_name_src_eq')
target(Y + '_remap_name', area='Yaqlized', owners=['C07'], name='remap_name',
       params=[('name', 'str'), ('settings', SETTINGS)], ret=REMAP,
       model='Yaql.Yaqlized.remapName settings name', theorem='remap_name_src_eq')


# ------------------------------------------------------------------------------------------------ C02 factory.py
REC = '@Yaql.OpTable.Rec'
OPTY = '@Yaql.OpTable.OpType'
UNIVERSES['Yaql.OpTable.OpType'] = dict(structural_eq=True, codec=('Yaql.Drv.SrcOp.decOpType', 'Yaql.Drv.SrcOp.decOpType'))
UNIVERSES['Yaql.OpTable.Rec'] = dict(
    structural_eq=True,
    len='(Yaql.PyOp.recLen {0})',
    index_const={0: ('(Yaql.PyOp.recSym? {0})', 'str', True), 1: ('(Yaql.PyOp.recType? {0})', OPTY, True),
                 2: ('(Yaql.PyOp.recAlias? {0})', 'str?', True)},
    inject={'[]': 'Yaql.OpTable.Rec.sep',
            '(str, %s, str?)' % OPTY: '(Yaql.OpTable.Rec.op {0}.1 {0}.2.1 {0}.2.2)'},
    codec=('Yaql.Drv.SrcOp.decRec', 'Yaql.Drv.SrcOp.encRec'),
)
py2lean.GLOBAL_CONSTS.update({
    'OperatorType.BINARY_LEFT_ASSOCIATIVE': ('Yaql.OpTable.OpType.binaryLeft', OPTY),
    'OperatorType.BINARY_RIGHT_ASSOCIATIVE': ('Yaql.OpTable.OpType.binaryRight', OPTY),
    'OperatorType.PREFIX_UNARY': ('Yaql.OpTable.OpType.prefixUnary', OPTY),
    'OperatorType.SUFFIX_UNARY': ('Yaql.OpTable.OpType.suffixUnary', OPTY),
    'OperatorType.NAME_VALUE_PAIR': ('Yaql.OpTable.OpType.nameValue', OPTY),
})
area('OpTable', imports=['Yaql.Model.PyPrelude', 'Yaql.Model.PyOp', 'Yaql.Model.OpTable'])
target('yaql.language.factory:YaqlFactory.insert_operator', area='OpTable', owners=['C02'], raises=True, fuel=True,
       fuel_expr='self_operators.length + 1',
       state=[('self.operators', '[%s]' % REC)],
       params=[('existing_operator', 'str?'), ('existing_operator_binary', 'bool'), ('new_operator', 'str'),
               ('new_operator_type', OPTY), ('create_group', 'bool'), ('new_operator_alias', 'str?')], ret='unit',
       model='Yaql.PyOp.liftErr (Yaql.OpTable.insertOperator self_operators existing_operator existing_operator_binary '
             'new_operator new_operator_type create_group new_operator_alias)',
       theorem='insert_operator_src_eq', diff=False,
       note='a method in state-passing style: `self.operators` is a parameter and the result')


# ------------------------------------------------------------------------------------------------ C05 / C06 runner.py
PARAM = '@Yaql.Resolve.Param'
PTY = '@Yaql.Types.PTy'
LAT = [('L', 'Yaql.Types.Lattice')]
UNIVERSES['Yaql.Resolve.Param'] = dict(fields={'value_type': ('{self}.ty', PTY)})
UNIVERSES['Yaql.Types.PTy'] = dict(
    methods={'is_specialization_of': Prim('(Yaql.Types.isSpecializationOf {L} {self} {0})', [PTY], BOOL)})
area('Resolve', imports=['Yaql.Model.PyPrelude', 'Yaql.Model.Resolve'])
MAPPING = '([%s], {str: %s})' % (PARAM, PARAM)
target('yaql.language.runner:_is_specialization_of', area='Resolve', owners=['C05', 'C06'], raises=True, ambient=LAT,
       name='is_specialization_of', diff=False,
       params=[('mapping1', MAPPING), ('mapping2', MAPPING)], ret='bool',
       model='.ok (Yaql.Resolve.isSpecM L ⟨mapping1.1, mapping1.2⟩ ⟨mapping2.1, mapping2.2⟩)',
       theorem='is_specialization_of_src_eq',
       note='holds when both mappings bind the same keyword names in the same order (both come from one call) and the '
            'names are distinct: hypotheses of the theorem')


target(S + 'str_', area='Strings', owners=['C19'],
       params=[('value', ATOM)], ret='str',
       model='Yaql.Strings.strOf value', theorem='str_src_eq')

# string repetition with its memory estimate: shared by C19 (value) and C08 (quota)
area('StrRepeat', imports=['Yaql.Model.PyPrelude', 'Yaql.Model.Strings', 'Yaql.Model.Limits', 'Yaql.Gen.SrcLimits'],
     uses=['Limits'], drv_imports=['Yaql.Gen.Sizes'], ambient_values=SIZES_VALUES)
target(S + 'string_by_int', area='StrRepeat', owners=['C19', 'C08'], raises=True, ambient=SIZES,
       params=[('left', 'str'), ('right', 'int'), ('engine', 'int')], ret='str',
       pre=lambda left, right, engine: abs(right) <= 3000,
       model='if Yaql.Limits.stringByIntCheck sizes engine (Yaql.Limits.strClassOf (Yaql.Py.maxCp left)) left.length right '
             'then .ok (Yaql.Strings.repeatStr left right) else .error (.other 1)', theorem='string_by_int_src_eq',
       note='engine = the memory quota; repetition beyond 3000 copies is outside the differential')
target(S + 'int_by_string', area='StrRepeat', owners=['C19', 'C08'], raises=True, ambient=SIZES,
       params=[('left', 'int'), ('right', 'str'), ('engine', 'int')], ret='str',
       pre=lambda left, right, engine: abs(left) <= 3000,
       model='if Yaql.Limits.stringByIntCheck sizes engine (Yaql.Limits.strClassOf (Yaql.Py.maxCp right)) right.length left '
             'then .ok (Yaql.Strings.repeatStr right left) else .error (.other 1)', theorem='int_by_string_src_eq')


# ------------------------------------------------------------------------------------------------ C20 date_time.py
DT = '@Yaql.DateTime.DT'
TS = '@Yaql.PyDt.TS'


def _dtcmp(op):
    return Prim('(Yaql.PyDt.cmp .%s {0} {1})' % op, [DT, DT], BOOL, partial=True)


def _tscmp(op):
    return Prim('(Yaql.PyDt.tsCmp .%s {0} {1})' % op, [TS, TS], BOOL)


UNIVERSES['Yaql.DateTime.DT'] = dict(ops={
    'Add': [Prim('(Yaql.PyDt.addTd {0} {1})', [DT, TS], T(DT), partial=True)],
    'Sub': [Prim('(Yaql.PyDt.subTd {0} {1})', [DT, TS], T(DT), partial=True),
            Prim('(Yaql.PyDt.subDt {0} {1})', [DT, DT], T(TS), partial=True)],
    'Eq': _dtcmp('eq'), 'NotEq': _dtcmp('ne'), 'Lt': _dtcmp('lt'), 'LtE': _dtcmp('le'), 'Gt': _dtcmp('gt'),
    'GtE': _dtcmp('ge')})
UNIVERSES['Yaql.PyDt.TS'] = dict(ops={
    'Add': [Prim('(Yaql.PyDt.addTd {1} {0})', [TS, DT], T(DT), partial=True),
            Prim('(Yaql.PyDt.tsAdd {0} {1})', [TS, TS], T(TS), partial=True)],
    'Sub': [Prim('(Yaql.PyDt.tsSub {0} {1})', [TS, TS], T(TS), partial=True)],
    'USub': Prim('(Yaql.PyDt.tsNeg {0})', [TS], T(TS), partial=True),
    'UAdd': Prim('(Yaql.PyDt.tsPos {0})', [TS], T(TS), partial=True),
    'Eq': _tscmp('eq'), 'NotEq': _tscmp('ne'), 'Lt': _tscmp('lt'), 'LtE': _tscmp('le'), 'Gt': _tscmp('gt'),
    'GtE': _tscmp('ge')})
area('DateTime', imports=['Yaql.Model.PyPrelude', 'Yaql.Model.PyDt', 'Yaql.Model.DateTime'])
D = 'yaql.standard_library.date_time:'
DTL = 'Yaql.PyDt.liftErr (Yaql.DateTime.%s)'
for _py, _ps, _ret, _model in [
        ('datetime_plus_timespan', [('left', DT), ('right', TS)], DT, DTL % 'pyAddTd left right'),
        ('timespan_plus_datetime', [('left', TS), ('right', DT)], DT, DTL % 'pyAddTd right left'),
        ('datetime_minus_timespan', [('dt', DT), ('ts', TS)], DT, DTL % 'pyAddTd dt (-ts)'),
        ('datetime_minus_datetime', [('dt1', DT), ('dt2', DT)], TS, DTL % 'pySubDt dt1 dt2'),
        ('timespan_plus_timespan', [('ts1', TS), ('ts2', TS)], TS, DTL % 'tsAdd ts1 ts2'),
        ('timespan_minus_timespan', [('ts1', TS), ('ts2', TS)], TS, DTL % 'tsSub ts1 ts2'),
        ('negative_timespan', [('ts', TS)], TS, DTL % 'tsNeg ts'),
        ('positive_timespan', [('ts', TS)], TS, DTL % 'tsPos ts')]:
    target(D + _py, area='DateTime', owners=['C20'], raises=True, diff=False, params=_ps, ret=_ret, model=_model,
           theorem=_py + '_src_eq')
for _py, _op in [('datetime_eq_datetime', 'eq'), ('datetime_neq_datetime', 'ne'), ('datetime_gt_datetime', 'gt'),
                 ('datetime_gte_datetime', 'ge'), ('datetime_lt_datetime', 'lt'), ('datetime_lte_datetime', 'le')]:
    target(D + _py, area='DateTime', owners=['C20'], raises=True, diff=False, params=[('dt1', DT), ('dt2', DT)],
           ret='bool', model=DTL % ('pyCmp .%s dt1 dt2' % _op), theorem=_py + '_src_eq')
for _py, _op in [('timespan_gt_timespan', 'gt'), ('timespan_gte_timespan', 'ge'), ('timespan_lt_timespan', 'lt'),
                 ('timespan_lte_timespan', 'le')]:
    target(D + _py, area='DateTime', owners=['C20'], diff=False, params=[('ts1', TS), ('ts2', TS)],
           ret='bool', model='Yaql.DateTime.tsCmp .%s ts1 ts2' % _op, theorem=_py + '_src_eq')


def by_area():
    out = {}
    for t in TARGETS:
        out.setdefault(t.area, []).append(t)
    return out


def by_owner(pid):
    return [t for t in TARGETS if pid in t.owners]
