"""Typing entries of the source translator (harness/py2lean.py): which yaql functions are translated
into Lean on every run, with which Lean types, against which hand-written model expression.

Per target:
  qual      'package.module:function' (or 'package.module:Class.method')
  area      -> lean/Yaql/Gen/Src<Area>.lean (definitions), lean/Yaql/Props/Src<Area>.lean (theorems)
  owners    the property checks that carry the obligation
  params    [(python parameter name, type)]      types: see py2lean.py
  ret       result type; raises=True -> the Lean result is `Except Yaql.Py.Err ret`
  model     Lean expression over the parameter names: the right-hand side of the equivalence theorem
            (`Gen.Src<Area>.f params = model`), also evaluated by the driver for the differential
  theorem   name of the equivalence theorem in Yaql.Props.Src<Area>
  ambient   [(lean name, lean type)] extra leading parameters (tables of the running interpreter)
  prims     python dotted name -> Prim: calls the translator maps to a named Lean primitive
  fix       parameter -> (Lean text, 'module:callable'): how a callable parameter is instantiated in
            the theorem and in the differential
"""
from py2lean import Target, Prim, T  # noqa


class Area:
    def __init__(self, name, imports, drv_imports=(), ambient_values=None, opens=()):
        self.name, self.imports, self.drv_imports = name, list(imports), list(drv_imports)
        self.ambient_values = dict(ambient_values or {})
        self.opens = list(opens)


AREAS = {}
TARGETS = []


def area(name, **kw):
    AREAS[name] = Area(name, **kw)


def target(qual, **kw):
    fix = kw.pop('fix', None)
    t = Target(qual, **kw)
    t.fix = fix or {}
    TARGETS.append(t)
    return t


# closed universes of named Lean types: isinstance tables, operators, codecs
UNIVERSES = {
    'Yaql.Strings.Atom': dict(
        structural_eq=True,
        codec=('Yaql.Drv.SrcCodec.decAtom', 'Yaql.Drv.SrcCodec.encAtom'),
    ),
    'Nat': dict(structural_eq=True, codec=('Yaql.Drv.SrcCodec.decNat', 'Yaql.Drv.SrcCodec.encNat')),
}

CFG = [('cfg', 'Yaql.Strings.Cfg')]

# ------------------------------------------------------------------------------------------------ C19 strings.py
area('Strings', imports=['Yaql.Model.PyPrelude', 'Yaql.Model.PyStr', 'Yaql.Model.Strings'],
     drv_imports=['Yaql.Drv.C19'], ambient_values={'cfg': 'Yaql.Drv.C19.cfg', 'tabs': 'Yaql.Drv.C19.tables'})

S = 'yaql.standard_library.strings:'
ATOM = '@Yaql.Strings.Atom'
STR_OF = ('Yaql.Strings.strOf', 'yaql.standard_library.strings:str_')

target(S + 'substring', area='Strings', owners=['C19'],
       params=[('string', 'str'), ('start', 'int'), ('length', 'int')], ret='str',
       model='Yaql.Strings.substring string start length', theorem='substring_src_eq')
target(S + 'index_of', area='Strings', owners=['C19'],
       params=[('string', 'str'), ('sub', 'str'), ('start', 'int')], ret='int',
       model='Yaql.Strings.indexOf string sub start', theorem='index_of_src_eq')
target(S + 'index_of_', area='Strings', owners=['C19'], name='index_of4',
       params=[('string', 'str'), ('sub', 'str'), ('start', 'int'), ('length', 'int')], ret='int',
       model='Yaql.Strings.indexOf4 string sub start length', theorem='index_of4_src_eq')
target(S + 'last_index_of', area='Strings', owners=['C19'],
       params=[('string', 'str'), ('sub', 'str'), ('start', 'int')], ret='int',
       model='Yaql.Strings.lastIndexOf string sub start', theorem='last_index_of_src_eq')
target(S + 'last_index_of_', area='Strings', owners=['C19'], name='last_index_of4',
       params=[('string', 'str'), ('sub', 'str'), ('start', 'int'), ('length', 'int')], ret='int',
       model='Yaql.Strings.lastIndexOf4 string sub start length', theorem='last_index_of4_src_eq')
target(S + 'trim', area='Strings', owners=['C19'], ambient=CFG,
       params=[('string', 'str'), ('chars', 'str?')], ret='str',
       model='Yaql.Strings.trim cfg string chars', theorem='trim_src_eq')
target(S + 'trim_left', area='Strings', owners=['C19'], ambient=CFG,
       params=[('string', 'str'), ('chars', 'str?')], ret='str',
       model='Yaql.Strings.trimLeft cfg string chars', theorem='trim_left_src_eq')
target(S + 'trim_right', area='Strings', owners=['C19'], ambient=CFG,
       params=[('string', 'str'), ('chars', 'str?')], ret='str',
       model='Yaql.Strings.trimRight cfg string chars', theorem='trim_right_src_eq')
target(S + 'norm', area='Strings', owners=['C19'], ambient=CFG,
       params=[('string', 'str?'), ('chars', 'str?')], ret='str?',
       model='Yaql.Strings.norm cfg string chars', theorem='norm_src_eq')
target(S + 'is_empty', area='Strings', owners=['C19'], ambient=CFG,
       params=[('string', 'str?'), ('trim_spaces', 'bool'), ('chars', 'str?')], ret='bool',
       model='Yaql.Strings.isEmpty cfg string trim_spaces chars', theorem='is_empty_src_eq')
# CPython converts `count` / `max_splits` to Py_ssize_t: outside that range the call raises OverflowError, which the
# hand-written model does not have (it is total there) - the theorems carry the guard explicitly
target(S + 'replace', area='Strings', owners=['C19'], raises=True,
       params=[('string', 'str'), ('old', 'str'), ('new', 'str'), ('count', 'int')], ret='str',
       model='if Yaql.Py.ssizeOk count then .ok (Yaql.Strings.replace string old new count) else .error .overflowError',
       theorem='replace_src_eq')
target(S + 'replace_with_dict', area='Strings', owners=['C19'],
       params=[('string', 'str'), ('str_func', 'fn(%s) -> str' % ATOM), ('replacements', '{%s: %s}' % (ATOM, ATOM)),
               ('count', 'int')], ret='str',
       fix={'str_func': STR_OF}, raises=True,
       model='if Yaql.Py.ssizeOk count || replacements.isEmpty then .ok (Yaql.Strings.replaceDict string replacements count) '
             'else .error .overflowError', theorem='replace_with_dict_src_eq')
target(S + 'join', area='Strings', owners=['C19'],
       params=[('sequence', '[%s]' % ATOM), ('separator', 'str'), ('str_delegate', 'fn(%s) -> str' % ATOM)], ret='str',
       fix={'str_delegate': STR_OF},
       model='Yaql.Strings.joinAtoms sequence separator', theorem='join_src_eq')
target(S + 'join_', area='Strings', owners=['C19'], name='join2',
       params=[('separator', 'str'), ('sequence', '[%s]' % ATOM), ('str_delegate', 'fn(%s) -> str' % ATOM)], ret='str',
       fix={'str_delegate': STR_OF},
       model='Yaql.Strings.joinAtoms sequence separator', theorem='join2_src_eq')
target(S + 'split', area='Strings', owners=['C19'], ambient=CFG, raises=True,
       params=[('string', 'str'), ('separator', 'str?'), ('max_splits', 'int')], ret='[str]',
       model='if Yaql.Py.ssizeOk max_splits then Yaql.PyStr.liftErr (Yaql.Strings.split cfg string separator max_splits) '
             'else .error .overflowError',
       theorem='split_src_eq')
target(S + 'right_split', area='Strings', owners=['C19'], ambient=CFG, raises=True,
       params=[('string', 'str'), ('separator', 'str?'), ('max_splits', 'int')], ret='[str]',
       model='if Yaql.Py.ssizeOk max_splits then Yaql.PyStr.liftErr (Yaql.Strings.rightSplit cfg string separator max_splits) '
             'else .error .overflowError',
       theorem='right_split_src_eq')
target(S + 'in_', area='Strings', owners=['C19'],
       params=[('left', 'str'), ('right', 'str')], ret='bool',
       model='Yaql.Strings.isIn left right', theorem='in_src_eq')
target(S + 'starts_with', area='Strings', owners=['C19'],
       params=[('string', 'str'), ('prefixes', '[str]')], ret='bool',
       model='Yaql.Strings.startsWith string prefixes', theorem='starts_with_src_eq')
target(S + 'ends_with', area='Strings', owners=['C19'],
       params=[('string', 'str'), ('suffixes', '[str]')], ret='bool',
       model='Yaql.Strings.endsWith string suffixes', theorem='ends_with_src_eq')
target(S + 'concat', area='Strings', owners=['C19'],
       params=[('args', '[str]')], ret='str',
       model='Yaql.Strings.concat args', theorem='concat_src_eq')
target(S + 'len_', area='Strings', owners=['C19'],
       params=[('string', 'str')], ret='int',
       model='Yaql.Strings.len string', theorem='len_src_eq')
target(S + 'to_char_array', area='Strings', owners=['C19'],
       params=[('string', 'str')], ret='[str]',
       model='Yaql.Strings.toCharArray string', theorem='to_char_array_src_eq')


def by_area():
    out = {}
    for t in TARGETS:
        out.setdefault(t.area, []).append(t)
    return out


def by_owner(pid):
    return [t for t in TARGETS if pid in t.owners]
