"""development: run the source-level differential of one property standalone.
usage: dev_srcdiff.py Cxx [n] [target...]"""
import sys
import common
import srcobl

pid = sys.argv[1]
n = int(sys.argv[2]) if len(sys.argv) > 2 else 200
only = sys.argv[3:] or None
print(srcobl.generate(pid))
ok, out = common.lake_build(['yaqlmodel'] + srcobl.modules(pid))
if not ok:
    print(out[-3000:])
    sys.exit(1)
res = common.Result()
drv = common.Driver()
hist = srcobl.differential(dict(driver=drv, seed=int(common.os.environ.get('VERIF_SEED', '0')), tier='quick'), res, pid,
                           per_target=n, only=only)
drv.close()
print(hist)
for f in res.failures[:20]:
    print(f.kind, f.key, f.what[:400])
print('failures', len(res.failures), 'cases', res.evaluations)
