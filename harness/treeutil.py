"""Canonical, comparable form of yaql parse results (trees and parsing errors)."""
from yaql.language import exceptions, expressions, utils


def canon_tree(e):
    if e is utils.NO_VALUE:
        return ['novalue']
    if isinstance(e, expressions.Statement):
        return canon_tree(e.expression)
    if isinstance(e, expressions.Wrap):
        return ['wrap', canon_tree(e.expr)]
    if isinstance(e, expressions.KeywordConstant):
        return ['kw', e.value]
    if isinstance(e, expressions.Constant):
        v = e.value
        return ['const', type(v).__name__, repr(v)]
    if isinstance(e, expressions.MappingRuleExpression):
        return ['maprule', canon_tree(e.source), canon_tree(e.destination)]
    if isinstance(e, expressions.BinaryOperator):
        return ['bin', e.operator, e.name] + [canon_tree(a) for a in e.args]
    if isinstance(e, expressions.UnaryOperator):
        return ['un', e.operator, e.name] + [canon_tree(a) for a in e.args]
    if isinstance(e, expressions.GetContextValue):
        return ['ctx', canon_tree(e.path)]
    if isinstance(e, expressions.Function):
        return ['fn', type(e).__name__, e.name] + [canon_tree(a) for a in e.args]
    return ['?', repr(e)]


def parse_outcome(engine, text):
    """('ok', tree) | ('err', class name, position, message) - everything a caller can observe"""
    try:
        return ['ok', canon_tree(engine(text))]
    except exceptions.YaqlParsingException as e:
        return ['err', type(e).__name__, e.position, str(e)]
    except Exception as e:  # foreign exception: still an observable outcome
        return ['exc', type(e).__name__, str(e)]
