"""Development aid (C04 dispatch = overload resolution on the live registry): applies each patch of
notes/mutants-evalres/*.diff in a scratch worktree of /repo, runs ./check C04 --tier quick against it and prints one line
per mutant (exit code, the VIOLATION line, what the replay says).  usage: dev_mutants_evalres.py [name-part ...]"""
import glob, json, os, subprocess, sys, time
ROOT = os.path.dirname(os.path.dirname(os.path.abspath(__file__)))
WT = '/tmp/wr-evalres-mut'
only = sys.argv[1:]
for patch in sorted(glob.glob(ROOT + '/notes/mutants-evalres/*.diff')):
    name = os.path.basename(patch)[:-5]
    if only and not any(o in name for o in only):
        continue
    subprocess.run(['git', '-C', '/repo', 'worktree', 'remove', '--force', WT], capture_output=True)
    subprocess.run(['git', '-C', '/repo', 'worktree', 'add', '--detach', WT, 'HEAD'], check=True, capture_output=True)
    try:
        subprocess.run(['git', 'apply', patch], cwd=WT, check=True)
        t0 = time.time()
        r = subprocess.run(['./check', 'C04', '--tier', 'quick'], cwd=ROOT, capture_output=True, text=True,
                           env=dict(os.environ, YAQL_REPO=WT))
        lines = [l for l in r.stdout.splitlines() if l.startswith(('VIOLATION', 'C04', 'HARNESS', 'KNOWN'))]
        what = ''
        for l in lines:
            if 'replay=' in l:
                rp = json.load(open(l.split('replay=')[1].split()[0]))
                what = str(rp.get('what') or rp.get('no_longer_checks'))[:700]
                break
        print(name, '| rc', r.returncode, '| %.0fs' % (time.time() - t0), lines[:1], '\n     ', what, flush=True)
    finally:
        subprocess.run(['git', '-C', '/repo', 'worktree', 'remove', '--force', WT], capture_output=True)
# leave the generated tables of the unchanged tree behind
subprocess.run(['/venv/bin/python', '-W', 'ignore', os.path.join(ROOT, 'harness', 'pyfacts.py'), 'RegistryTypes'],
               capture_output=True)
