"""Development aid for C09: applies each hand-written mutant to a scratch worktree of /repo, runs yaql's own
tests (they are expected to stay green) and `./check C09 --tier quick` against it.
usage: dev_mutants_c09.py [--static] [names...]     (--static: only the Gen.MutFacts scan, fast)"""
import json
import os
import re
import subprocess
import sys

ROOT = os.path.dirname(os.path.dirname(os.path.abspath(__file__)))
WT = '/tmp/wr-c09'
Q = 'yaql/standard_library/queries.py'
C = 'yaql/standard_library/collections.py'
U = 'yaql/language/utils.py'
X = 'yaql/language/expressions.py'
MUTANTS = {
    'M1-list_insert-inplace': (C, "    copy = list(collection)\n    copy.insert(position, value)",
                               "    copy = collection if isinstance(collection, list) else list(collection)\n"
                               "    copy.insert(position, value)"),
    'M2-dict_set-inplace': (C, "    utils.limit_memory_usage(engine, (1, d), (1, key), (1, value))\n",
                            "    utils.limit_memory_usage(engine, (1, d), (1, key), (1, value))\n"
                            "    if isinstance(d, dict):\n        d[key] = value\n        return d\n"),
    'M3-delete_keys-inplace': (C, "    copy = dict(d)\n    for t in keys:",
                               "    copy = d if isinstance(d, dict) else dict(d)\n    for t in keys:"),
    'M4-combine_dicts-update': (C, "    d = dict(left)\n    d.update(right)",
                                "    d = left if isinstance(left, dict) else dict(left)\n    d.update(right)"),
    'M5-merge_dicts-into-first': (Q, "    result = {}\n    for key, value1 in dict1.items():",
                                  "    result = dict1 if isinstance(dict1, dict) else {}\n"
                                  "    for key, value1 in list(dict1.items()):"),
    'M6-reverse-inplace': (Q, "    return reversed(to_list(collection))",
                           "    if isinstance(collection, list):\n        collection.reverse()\n"
                           "        return collection\n    return reversed(to_list(collection))"),
    'M7-orderBy-sort-inplace': (Q, "        outer_self.sorted = sorted(outer_self.collection, key=Comparator)",
                                "        if isinstance(outer_self.collection, list):\n"
                                "            outer_self.collection.sort(key=Comparator)\n"
                                "            outer_self.sorted = outer_self.collection\n"
                                "        else:\n"
                                "            outer_self.sorted = sorted(outer_self.collection, key=Comparator)"),
    'M8-convert_output-passthrough': (U, "    elif isinstance(obj, (tuple, list)):\n",
                                      "    elif isinstance(obj, list) and convert_tuples_to_lists(engine) and all(\n"
                                      "            t is None or isinstance(t, (str, int, float, bool)) for t in obj):\n"
                                      "        return obj\n"
                                      "    elif isinstance(obj, (tuple, list)):\n"),
    'M9a-evaluate-extra-name': (X, "            else:\n                context['$'] = data\n",
                                "            else:\n                context['$'] = data\n"
                                "            context['data'] = context['$']\n"),
    'M9b-finalize-on-host-context': (X, "            context = context.create_child_context()\n"
                                        "            context.register_function(lambda x: x, name='#finalize')",
                                     "            context.register_function(lambda x: x, name='#finalize')"),
    'M10a-len-global-cache': (Q, "class OrderingIterable(utils.IterableType):", "_count_cache = {}\n\n\nclass OrderingIterable(utils.IterableType):"),
    'M10b-context-value-cached-on-node': (X, "class GetContextValue(Function):\n    def __init__(self, path):\n"
                                             "        super().__init__('#get_context_data', path)\n",
                                          "class GetContextValue(Function):\n"
                                          "    def __call__(self, receiver, context, engine):\n"
                                          "        if not hasattr(self, '_value'):\n"
                                          "            self._value = super().__call__(receiver, context, engine)\n"
                                          "        return self._value\n\n"
                                          "    def __init__(self, path):\n"
                                          "        super().__init__('#get_context_data', path)\n"),
    'M11-set_many-update-arg': (C, "    utils.limit_memory_usage(engine, (1, d), (1, replacements))\n",
                                "    utils.limit_memory_usage(engine, (1, d), (1, replacements))\n"
                                "    if isinstance(replacements, dict):\n"
                                "        for k, v in d.items():\n"
                                "            replacements.setdefault(k, v)\n"
                                "        return utils.FrozenDict(replacements)\n"),
    'M12-flatten-nested-pop': (C, "    for t in collection:\n        if utils.is_iterable(t):\n",
                               "    for t in collection:\n        if isinstance(t, list) and len(t) == 1:\n"
                               "            yield t.pop()\n        elif utils.is_iterable(t):\n"),
    'M13-let-writes-parent': ('yaql/standard_library/system.py',
                              "    for key, value in kwargs.items():\n        __context__[key] = value\n",
                              "    for key, value in kwargs.items():\n"
                              "        (__context__.parent or __context__)[key] = value\n"),
    'M10c-statement-caches-converted-data': (X, "            if self.engine.options.get('yaql.convertInputData', True):\n"
                                                "                context['$'] = utils.convert_input_data(data)\n",
                                             "            if self.engine.options.get('yaql.convertInputData', True):\n"
                                             "                if getattr(self, '_last', (None,))[0] is not data:\n"
                                             "                    self._last = (data, utils.convert_input_data(data))\n"
                                             "                context['$'] = self._last[1]\n"),
    'M14-no-child-context-per-call': ('yaql/language/specs.py', "            new_context = context.create_child_context()\n",
                                      "            new_context = context\n"),
    'M15-yaql-eval-shares-default-context': ('yaql/__init__.py',
                                             "        data=data, context=_default_context.create_child_context())",
                                             "        data=data, context=_default_context)"),
    'M16-convert_output-dict-passthrough': (U, "    if isinstance(obj, collections.abc.Mapping):\n        result = {}\n",
                                            "    if isinstance(obj, dict) and all(\n"
                                            "            isinstance(v, (str, int, float, bool, type(None))) for v in obj.values()):\n"
                                            "        return obj\n"
                                            "    if isinstance(obj, collections.abc.Mapping):\n        result = {}\n"),
    'M17-def-registers-on-parent': ('yaql/standard_library/system.py', "    context.register_function(wrapper)\n    return context\n",
                                    "    (context.parent or context).register_function(wrapper)\n    return context\n"),
    'M18-distinct-sorts-argument': (Q, "    distinct_values = set()\n    for t in collection:",
                                    "    if isinstance(collection, list):\n"
                                    "        try:\n            collection.sort()\n        except TypeError:\n            pass\n"
                                    "    distinct_values = set()\n    for t in collection:"),
}
EXTRA = {
    'M10a-len-global-cache': (Q, "    count = 0\n    for t in collection:\n        count += 1\n    return count",
                              "    key = id(collection)\n    if key in _count_cache:\n        return _count_cache[key]\n"
                              "    count = 0\n    for t in collection:\n        count += 1\n"
                              "    _count_cache[key] = count\n    return count"),
}


def sh(cmd, **kw):
    return subprocess.run(cmd, shell=True, stdout=subprocess.PIPE, stderr=subprocess.STDOUT, text=True, **kw)


def apply(n):
    sh('git -C /repo worktree remove --force %s' % WT)
    r = sh('git -C /repo worktree add --detach %s HEAD' % WT)
    assert r.returncode == 0, r.stdout
    for f, old, new in [MUTANTS[n]] + ([EXTRA[n]] if n in EXTRA else []):
        p = os.path.join(WT, f)
        s = open(p).read()
        if s.count(old) != 1:
            print(n, 'PATTERN COUNT', s.count(old), repr(old[:40]))
            return False
        open(p, 'w').write(s.replace(old, new))
    return True


def main():
    args = sys.argv[1:]
    static = '--static' in args
    notests = '--notests' in args
    args = [a for a in args if not a.startswith('--')]
    names = args or list(MUTANTS)
    for n in names:
        if not apply(n):
            continue
        if static:
            c = sh("cd %s/harness && YAQL_REPO=%s /venv/bin/python -W ignore -c \"import pyfacts; from gens import mutfacts; "
                   "import json; rows = mutfacts.facts(); off = [r for r in mutfacts.offending(rows)]; "
                   "print(json.dumps([(r['fn'], r['param'], r['details'][:2]) for r in off "
                   "if not r['fn'].startswith(('#operator_.|yaqlized', '#indexer|yaqlized', 'thenBy', 'switch|'))]))\"" % (ROOT, WT))
            print('== %s static: %s' % (n, c.stdout.strip()[-600:]))
            continue
        t = 'skipped' if notests else sh('cd %s && /venv/bin/python -W ignore -m pytest -q -x -p no:cacheprovider yaql/tests 2>&1 | tail -1' % WT).stdout.strip()
        c = sh('cd %s && YAQL_REPO=%s ./check C09 --tier quick 2>&1 | tail -3' % (ROOT, WT))
        print('== %s | yaql tests: %s' % (n, t))
        print(c.stdout.strip())
        m = re.search(r'replay=(\S+)', c.stdout)
        if m:
            r = json.load(open(m.group(1)))
            print('   ', (r.get('what') or str(r.get('no_longer_checks'))[:400])[:400])
        sys.stdout.flush()
    sh('git -C /repo worktree remove --force %s' % WT)


if __name__ == '__main__':
    main()
