"""Development aid (round 5, branch grp-naming5): mutants in the dimensions added for C12-10 / C19-11 / C07-11.
Each is applied to a scratch worktree of /repo; yaql's tests and `./check <ID> --tier quick` are run.
usage: dev_mutants_naming5.py [--notests] [name ...]"""
import json
import os
import subprocess
import sys

WT = '/tmp/wr-naming5'
ROOT = os.path.dirname(os.path.dirname(os.path.abspath(__file__)))
sys.path.insert(0, os.path.dirname(os.path.abspath(__file__)))
import dev_mutants_c12 as m12  # noqa: E402

SP = 'yaql/language/specs.py'
CV = 'yaql/language/conventions.py'
ST = 'yaql/standard_library/strings.py'
FA = 'yaql/language/factory.py'
LX = 'yaql/language/lexer.py'
RU = 'yaql/language/runner.py'
YZ = 'yaql/standard_library/yaqlized.py'
YS = 'yaql/yaqlization.py'

MATCH = ("def _match_name_to_entry(name, entry):\n    if name == entry:\n        return True\n")

MUTANTS = {
    # ---- C12: the promised keyword name cannot be WRITTEN (or the written spelling is treated differently)
    'S1-alias-operator-word': ('C12', [
        (ST, "@specs.parameter('chars', yaqltypes.String(nullable=True))\n@specs.method\ndef trim(string, chars=None):",
             "@specs.parameter('chars', yaqltypes.String(nullable=True), alias='in')\n@specs.method\ndef trim(string, chars=None):")]),
    'S2-alias-constant-word': ('C12', [
        (ST, "@specs.parameter('count', int)\n@specs.method\ndef replace(string, old, new, count=-1):",
             "@specs.parameter('count', int, alias='null')\n@specs.method\ndef replace(string, old, new, count=-1):")]),
    'S3-new-operator-word-step': ('C12', [
        (FA, "            ('mod', OperatorType.BINARY_LEFT_ASSOCIATIVE),\n",
             "            ('mod', OperatorType.BINARY_LEFT_ASSOCIATIVE),\n            ('step', OperatorType.BINARY_LEFT_ASSOCIATIVE),\n")]),
    'S4-lexer-lowercases-keywords': ('C12', [
        (LX, "            t.type = self.keywords.get(t.value, 'KEYWORD_STRING')\n",
             "            t.value = t.value.lower()\n            t.type = self.keywords.get(t.value, 'KEYWORD_STRING')\n")]),
    'S5-written-keyword-must-be-lowercase': ('C12', [
        (RU, "            if isinstance(param_name, expressions.KeywordConstant):\n",
             "            if isinstance(param_name, expressions.KeywordConstant) and \\\n                    param_name.value.islower():\n")]),
    # ---- C19: keyword spellings under a non-default convention, several conventions in one process
    'N1-convention-shared-cache': ('C19', m12.MUTANTS['N1-convention-shared-cache']),
    'N2-alias-at-decoration-time': ('C19', m12.MUTANTS['N2-alias-at-decoration-time']),
    'N6-definition-memoised': ('C19', m12.MUTANTS['N6-definition-memoised']),
    'P1-python-convention-drops-underscores': ('C19', [
        (CV, "class PythonConvention(Convention):\n    def convert_function_name(self, name):\n        return name\n\n"
             "    def convert_parameter_name(self, name):\n        return name\n",
             "class PythonConvention(Convention):\n    def convert_function_name(self, name):\n        return name\n\n"
             "    def convert_parameter_name(self, name):\n        return name.replace('_', '')\n")]),
    'P2-python-convention-lowercases-functions': ('C19', [
        (CV, "class PythonConvention(Convention):\n    def convert_function_name(self, name):\n        return name\n",
             "class PythonConvention(Convention):\n    def convert_function_name(self, name):\n        return name.lower()\n")]),
    # ---- C07: plain-name entries are matched by something other than string equality
    'K1-entry-prefix': ('C07', [(YZ, MATCH, MATCH.replace("name == entry", "isinstance(entry, str) and name.startswith(entry)"))]),
    'K2-entry-substring': ('C07', [(YZ, MATCH, MATCH.replace("name == entry", "isinstance(entry, str) and entry in name"))]),
    'K3-entry-case-insensitive': ('C07', [(YZ, MATCH, MATCH.replace(
        "name == entry", "isinstance(entry, str) and name.lower() == entry.lower()"))]),
    'K4-whitelist-joined-string': ('C07', [
        (YS, "    whitelist = set(whitelist or [])\n",
             "    whitelist = set(whitelist or [])\n    plain = sorted(e for e in whitelist if isinstance(e, str))\n"
             "    if plain:\n        joined = ','.join(plain)\n"
             "        whitelist = set(e for e in whitelist if not isinstance(e, str))\n"
             "        whitelist.add(lambda name, joined=joined: name in joined)\n")]),
    'K5-blacklist-endswith': ('C07', [
        (YZ, MATCH, MATCH.replace("name == entry", "isinstance(entry, str) and name.endswith(entry)"))]),
    'K6-sorted-bisect-prefix': ('C07', [
        (YS, "    whitelist = set(whitelist or [])\n",
             "    whitelist = set(whitelist or [])\n    plain = sorted(e for e in whitelist if isinstance(e, str))\n"
             "    if len(plain) > 1:\n        import bisect\n"
             "        whitelist = set(e for e in whitelist if not isinstance(e, str))\n\n"
             "        def lookup(name, plain=plain):\n            i = bisect.bisect_left(plain, name)\n"
             "            return i < len(plain) and plain[i].startswith(name)\n        whitelist.add(lookup)\n")]),
}


def sh(cmd, **kw):
    return subprocess.run(cmd, shell=True, stdout=subprocess.PIPE, stderr=subprocess.STDOUT, text=True, **kw)


def main():
    args = sys.argv[1:]
    notests = '--notests' in args
    names = [a for a in args if not a.startswith('--')] or list(MUTANTS)
    for n in names:
        check, edits = MUTANTS[n]
        sh('git -C /repo worktree remove --force %s' % WT)
        r = sh('git -C /repo worktree add --detach %s HEAD' % WT)
        assert r.returncode == 0, r.stdout
        try:
            for path, old, new in edits:
                p = os.path.join(WT, path)
                s = open(p).read()
                assert s.count(old) == 1, (n, path, s.count(old))
                open(p, 'w').write(s.replace(old, new))
            tests = '-'
            if not notests:
                r = sh('/venv/bin/python -m pytest -q -p no:cacheprovider -x yaql/tests 2>&1 | tail -1', cwd=WT,
                       env=dict(os.environ, PYTHONPATH=WT))
                tests = r.stdout.strip()
            r = sh('./check %s --tier quick' % check, cwd=ROOT, env=dict(os.environ, YAQL_REPO=WT))
            lines = [ln for ln in r.stdout.splitlines() if ln.startswith(('VIOLATION', 'HARNESS-ERROR', check + ' '))]
            what = ''
            for ln in lines:
                if 'replay=' in ln:
                    rp = json.load(open(ln.split('replay=')[1].split()[0]))
                    what = str(rp.get('what') or rp.get('no_longer_checks'))[:330]
            print('%s | %s | tests: %s | rc=%d | %s | %s' % (n, check, tests, r.returncode, ' ; '.join(lines)[-170:], what),
                  flush=True)
        finally:
            sh('git -C /repo worktree remove --force %s' % WT)


if __name__ == '__main__':
    main()
