"""development: list the equivalence obligations of an area (theorem name, Gen definition, model expression).
usage: dev_srcobl_list.py [--skeleton] <Area>..."""
import sys
import py2lean
import srcgen_targets as ST

args = sys.argv[1:]
skel = '--skeleton' in args
table = '--table' in args
args = [a for a in args if a not in ('--skeleton', '--table')]
if table:
    # markdown table of every target; optional mutation results from json files given as further arguments
    import json
    muts = {}
    for f in [a for a in args if a.endswith('.json')]:
        for r in json.load(open(f)):
            muts.setdefault((r['area'], r['name']), []).append(r)
    print('| source function | Gen definition | model expression (right-hand side) | theorem | owners | mutants '
          '(refused / unproved / equivalent) |')
    print('|---|---|---|---|---|---|')
    for t in ST.TARGETS:
        ms = muts.get((t.area, t.name), [])
        cnt = lambda v: sum(1 for m in ms if m['verdict'] == v)  # noqa
        mcol = '%d / %d / %d' % (cnt('refused'), cnt('unproved'), cnt('equivalent')) if ms else '-'
        bad = [m for m in ms if m['verdict'] not in ('refused', 'unproved', 'equivalent')]
        if bad:
            mcol += ' **%s**' % ','.join(m['verdict'] for m in bad)
        model = t.model if len(t.model) < 90 else t.model[:87] + '...'
        print('| `%s` | `Src%s.%s` | `%s` | `%s` | %s | %s |' % (
            t.qual.replace('yaql.standard_library.', '').replace('yaql.language.', ''), t.area, t.name,
            model.replace('|', '\\|'), t.theorem, ' '.join(t.owners), mcol))
    sys.exit(0)
for a in args:
    for t in ST.by_area()[a]:
        fx = {p: v[0] for p, v in t.fix.items()}
        st = [d.replace('.', '_') for d, _ in t.state]
        call = '%s %s' % (t.lean_name, ' '.join(st + [x for x, _ in t.ambient] + (['fuel'] if t.fuel else []) +
                                                [fx.get(p, py2lean.lean_ident(p)) for p, _ in t.params]))
        if skel:
            binders = ['(%s : %s)' % (d.replace('.', '_'), py2lean.lean_type(ty)) for d, ty in t.state]
            binders += ['(%s : %s)' % (n, ty) for n, ty in t.ambient]
            if t.fuel:
                binders.append('(fuel : Nat)')
            binders += ['(%s : %s)' % (py2lean.lean_ident(p), py2lean.lean_type(ty)) for p, ty in t.params if p not in fx]
            hyp = ' (hfuel : %s ≤ fuel)' % t.fuel_expr if t.fuel else ''
            print('theorem %s %s%s :\n    %s\n      = %s := by\n  sorry\n' % (t.theorem, ' '.join(binders), hyp, call, t.model))
            continue
        print('theorem Yaql.Props.Src%s.%s :  %s = %s' % (a, t.theorem, call, t.model))
        if t.fuel:
            print('    (with a hypothesis that `fuel` suffices, e.g. `%s ≤ fuel`)' % (t.fuel_expr,))
        if t.note:
            print('    note: ' + t.note)
