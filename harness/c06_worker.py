"""C06 subprocess worker: builds the given families on plain (set-backed) Contexts, registering the
overloads in an order shuffled by the worker's seed after some allocation noise - for some cases on the
MultiContext / LinkedContext shapes of the case -, and prints the
outcome of every call.  stdin: {"seed": n, "cases": [{"layers":…, "calls":[…]}]}; stdout: JSON."""
import json
import os
import random
import sys

sys.path.insert(0, os.path.dirname(os.path.abspath(__file__)))
import resolvelib as rl  # noqa: E402


def main():
    req = json.load(sys.stdin)
    rng = random.Random(req['seed'])
    noise = [object() for _ in range(rng.randrange(1, 5000))]
    out = []
    for case in req['cases']:
        layers = json.loads(json.dumps(case['layers']))
        for layer in layers:
            rng.shuffle(layer['fns'])
            noise.append([object() for _ in range(rng.randrange(0, 50))])
        shapes = case.get('shapes') or []
        if shapes and rng.random() < 0.6:
            # the same family held by MultiContexts / LinkedContexts (the split over the members follows the
            # shuffled list: another split, the same union)
            layers = [dict(l, shape=sh) if sh else l for l, sh in zip(layers, rng.choice(shapes))]
        fam = rl.Family(layers)
        res = []
        for cspec in case['calls']:
            call = rl.BuiltCall(cspec)
            r = rl.run_real(fam, call)
            res.append(r)
        out.append(res)
    json.dump(out, sys.stdout)


if __name__ == '__main__':
    main()
