"""Development aid (round 6, C18 part H / C20 histories): applies each patch of notes/C18-mutants/H*.diff (check C18) and
notes/C20-mutants/R*.diff (check C20) in a scratch worktree of /repo, runs the repo tests and the check, prints one line per
mutant.  usage: dev_mutants_c1820r6.py [name-part ...]"""
import glob, json, os, subprocess, sys
ROOT = os.path.dirname(os.path.dirname(os.path.abspath(__file__)))
WT = '/tmp/wr-c1820r6-mut'
only = sys.argv[1:]
jobs = [(p, 'C18') for p in sorted(glob.glob(ROOT + '/notes/C18-mutants/H*.diff'))] + \
       [(p, 'C20') for p in sorted(glob.glob(ROOT + '/notes/C20-mutants/R*.diff'))]
for patch, cid in jobs:
    name = os.path.basename(patch)[:-5]
    if only and not any(o in name for o in only):
        continue
    subprocess.run(['git', '-C', '/repo', 'worktree', 'remove', '--force', WT], capture_output=True)
    subprocess.run(['git', '-C', '/repo', 'worktree', 'add', '--detach', WT, 'HEAD'], check=True, capture_output=True)
    try:
        subprocess.run(['git', 'apply', patch], cwd=WT, check=True)
        t = subprocess.run(['/venv/bin/python', '-m', 'pytest', '-q', '-x', '-p', 'no:cacheprovider', 'yaql/tests'], cwd=WT,
                           capture_output=True, text=True, env=dict(os.environ, PYTHONPATH=WT))
        tests = t.stdout.strip().splitlines()[-1] if t.stdout.strip() else t.stderr[-200:]
        r = subprocess.run(['./check', cid, '--tier', 'quick'], cwd=ROOT, capture_output=True, text=True,
                           env=dict(os.environ, YAQL_REPO=WT))
        lines = [l for l in r.stdout.splitlines() if l.startswith(('VIOLATION', cid, 'HARNESS', 'KNOWN'))]
        what = ''
        for l in lines:
            if 'replay=' in l:
                rp = json.load(open(l.split('replay=')[1].split()[0]))
                what = str(rp.get('what') or rp.get('no_longer_checks'))[:500]
                break
        print(name, '| tests:', tests, '| rc', r.returncode, lines[:1], '\n     ', what, flush=True)
    finally:
        subprocess.run(['git', '-C', '/repo', 'worktree', 'remove', '--force', WT], capture_output=True)
