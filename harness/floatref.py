"""Shared section of C15 / C16 / C20: the model's correctly rounded conversion `FloatRound.roundRat` (and `divBits`,
`floatOfInt`) against CPython on a boundary-rich corpus of rationals, bit for bit.

What is compared (driver handler `FloatRound`, `lean/Yaql/Drv/FloatRound.lean`):
* `roundRat num den`  vs  `num / den` (int true division, correctly rounded, OverflowError),
                      vs  `float(Fraction(num, den))` (the independent second derivation),
                      vs  `float('<digits>.<digits>')` for the decimal cases (what the yaql lexer calls);
* `floatOfInt i`      vs  `float(i)`;
* `divBits x y`       vs  `x / y` on two Python floats (one IEEE division), `mulBits x y` vs `x * y`;
* (a test of the test) the same quotients by the machine's doubles inside the Lean driver (`Float`).

A difference is `mismatch` (the MODEL is wrong - or the platform is not IEEE-754/CPython as assumed), never an oracle
failure: no yaql code runs here.  Python's own derivations disagreeing with each other would be reported the same way.
"""
import struct
from fractions import Fraction

import common  # noqa

U64 = 1 << 64


def bits(x):
    return struct.unpack('>Q', struct.pack('>d', x))[0]


def of_bits(b):
    return struct.unpack('>d', struct.pack('>Q', b))[0]


def py_true_div(n, d):
    """('ok', bits) | ('ov', neg) | ('zd',)"""
    if d == 0:
        return ('zd',)
    try:
        return ('ok', bits(n / d))
    except OverflowError:
        return ('ov', n < 0)


def py_fraction(n, d):
    if d == 0:
        return ('zd',)
    try:
        x = float(Fraction(n, d))
    except OverflowError:
        return ('ov', n < 0)
    b = bits(x)
    if n < 0 and x == 0.0:
        b = bits(-0.0)       # Fraction normalises -1/10**400 to a fraction whose float is -0.0 already; keep the sign rule explicit
    return ('ok', b)


def model_res(r):
    if 'ok' in r:
        return ('ok', int(r['ok']))
    if 'ov' in r:
        return ('ov', bool(r['ov']))
    return ('zd',)


def corpus(rng, n_random):
    """-> (rationals [(num, den, tag)], decimals [(a, b)], ints, divs [(xbits, ybits)])"""
    rat = []

    def add(n, d, tag):
        rat.append((n, d, tag))
        if n:
            rat.append((-n, d, tag + '-neg'))

    # powers of two +- 1, as numerators and denominators
    for k in (0, 1, 2, 10, 51, 52, 53, 54, 55, 63, 64, 65, 100, 511, 969, 970, 971, 1021, 1022, 1023):
        for dl in (-1, 0, 1):
            if 2 ** k + dl > 0:
                add(2 ** k + dl, 1, 'pow2')
                add(1, 2 ** k + dl, 'inv-pow2')
                add(2 ** k + dl, 3, 'pow2/3')
    # the overflow threshold 2^1024 - 2^970 (a tie that rounds up = overflow) and its neighbourhood, also as fractions
    T = 2 ** 1024 - 2 ** 970
    for dl in (-2, -1, 0, 1, 2):
        add(T + dl, 1, 'overflow-edge')
        add(7 * T + dl, 7, 'overflow-edge-frac')
    add(2 ** 1024, 1, 'overflow')
    add(2 ** 1024 - 2 ** 971, 1, 'max-finite')
    add(10 ** 400, 1, 'overflow')
    add(10 ** 400, 3, 'overflow')
    add(10 ** 4000, 10 ** 3692, 'huge/huge')
    # subnormal range: multiples and halves of 2^-1074, the smallest normal, underflow to zero
    for m in (1, 2, 3, 5, 2 ** 51, 2 ** 52 - 1, 2 ** 52, 2 ** 52 + 1, 2 ** 53 - 1):
        add(m, 2 ** 1074, 'subnormal-exact')
        add(2 * m + 1, 2 ** 1075, 'subnormal-half')
        add(4 * m + 1, 2 ** 1076, 'subnormal-quarter')
        add(4 * m + 3, 2 ** 1076, 'subnormal-3quarter')
    add(1, 2 ** 1075, 'underflow-tie')            # exactly half the smallest subnormal: ties to even = 0
    add(1, 2 ** 1075 - 1, 'underflow-above-half')
    add(1, 2 ** 1076, 'underflow')
    add(1, 10 ** 400, 'underflow')
    add(0, 1, 'zero')
    add(0, 10 ** 30, 'zero')
    # halfway cases at 53 bits in many binades (exactly between two doubles, a hair below, a hair above)
    for _ in range(n_random // 8):
        m = rng.randrange(2 ** 52, 2 ** 53)
        e = rng.randrange(0, 960)
        f = rng.choice([1, 1, 3, 7, 10 ** 20 + 1])
        shift = rng.choice([0, 0, 1, 40, 1074, 1100])
        add((2 * m + 1) * 2 ** e * f, 2 * f * 2 ** shift, 'half')
        add(((2 * m + 1) * 2 ** e * 2 ** 64 - 1) * f, 2 * f * 2 ** 64 * 2 ** shift, 'half-below')
        add(((2 * m + 1) * 2 ** e * 2 ** 64 + 1) * f, 2 * f * 2 ** 64 * 2 ** shift, 'half-above')
        add((2 * m + 1) * f, 2 * f * 2 ** rng.randrange(0, 1130), 'half-small')
    # exactly representable values written as unreduced fractions
    for _ in range(n_random // 8):
        x = of_bits(rng.getrandbits(63))
        if x != x or x in (float('inf'), float('-inf')):
            continue
        fr = Fraction(x)
        k = rng.choice([1, 3, 10 ** 7, 2 ** 80 + 1])
        add(fr.numerator * k, fr.denominator * k, 'exact')
    # random rationals: small, around 2^53, huge numerators / denominators
    for _ in range(n_random):
        nb = rng.choice([1, 8, 30, 53, 54, 64, 120, 600, 1100, 2200])
        db = rng.choice([1, 8, 30, 53, 54, 64, 120, 600, 1100, 2200])
        add(rng.getrandbits(rng.randrange(1, nb + 1)), rng.getrandbits(rng.randrange(1, db + 1)) + 1, 'random')
    rat.append((5, 0, 'zero-den'))
    rat.append((0, 0, 'zero-den'))
    # decimals `a.b` (what a yaql literal spells)
    dec = [('0', '1'), ('0', '3'), ('1', '5'), ('1', '50'), ('2', '5'), ('123456', '789'), ('9007199254740993', '0'),
           ('0', '0' * 323 + '49406564584124654'), ('0', '0' * 323 + '24703282292062327'),
           ('0', '0' * 323 + '24703282292062328'), ('0', '0' * 400 + '1'), ('1' * 400, '5'),
           ('179769313486231570814527423731704356798070567525844996598917476803157260780028538760589558632766878171540458953'
            '514382464234321326889464182768467546703537516986049910576551282076245490090389328944075868508455133942304583236'
            '90322294816580855933212334827479782620414472316873817718091929988125040402618412485836', '7'),
           ('179769313486231580793728971405303415079934132710037826936173778980444968292764750946649017977587207096330286416'
            '692887910946555547851940402630657488671505820681908902000708383676273854845817711531764475730270069855571366959'
            '622842914819860834936475292719074168444365510704342711559699508093042880177904174497791', '9999999999')]
    for _ in range(n_random // 4):
        la = rng.choice([1, 2, 5, 17, 20, 40, 308, 309, 310])
        lb = rng.choice([1, 2, 5, 17, 20, 40, 100, 323, 324, 325, 400])
        a = ''.join(rng.choice('0123456789') for _ in range(la))
        b = ''.join(rng.choice('0123456789') for _ in range(lb))
        if rng.random() < 0.3:
            a = '0'
        if rng.random() < 0.3:
            b = '0' * rng.randrange(0, lb) + b[:1]
        dec.append((a, b))
    # shortest reprs of random doubles, in fixed notation
    for _ in range(n_random // 4):
        x = abs(of_bits(rng.getrandbits(63)))
        if x != x or x == float('inf'):
            continue
        s = '%.*f' % (rng.choice([1, 20, 340, 1080]), x)
        a, b = s.split('.')
        dec.append((a, b))
    ints = [0, 1, -1, 2 ** 53 - 1, 2 ** 53, 2 ** 53 + 1, 2 ** 53 + 2, 2 ** 53 + 3, -(2 ** 53 + 1), 2 ** 54 + 2, 2 ** 54 + 6,
            2 ** 63, 2 ** 64 - 1, 10 ** 40, T - 1, T, T + 1, -T, -(T - 1), 2 ** 1024, 10 ** 400, -10 ** 400]
    for _ in range(n_random // 4):
        k = rng.randrange(1, 1100)
        ints.append(rng.choice([1, -1]) * rng.choice([rng.getrandbits(k), 2 ** k + rng.randrange(-2, 3),
                                                      (2 * rng.randrange(2 ** 52, 2 ** 53) + 1) * 2 ** rng.randrange(0, 900)]))
    special = [0, bits(-0.0), 1, bits(-5e-324), bits(1.0), bits(-1.0), bits(3.0), bits(0.1), bits(2.0 ** -1022),
               bits(2.0 ** -1022) - 1, bits(1.7976931348623157e308), bits(float('inf')), bits(float('-inf')),
               bits(float('nan')), bits(3600000000.0), bits(86400000000.0), bits(1e6), bits(1000.0)]
    divs = [(x, y) for x in special for y in special]
    for _ in range(n_random):
        x = rng.getrandbits(64)
        y = rng.getrandbits(64)
        if rng.random() < 0.5:      # comparable exponents: the quotient is a normal number
            y = (y & ~(0x7FF << 52)) | ((((x >> 52) & 0x7FF) + rng.randrange(-60, 60)) % 0x7FF) << 52
        if rng.random() < 0.2:      # quotients in the subnormal range / near overflow
            x = (x & ~(0x7FF << 52)) | (rng.choice([1, 2, 30, 2000, 2045, 2046]) << 52)
            y = (y & ~(0x7FF << 52)) | (rng.choice([1, 2, 1000, 1040, 2046]) << 52)
        divs.append((x, y))
    return rat, dec, ints, divs


def same_or_nan(a, b):
    fa, fb = of_bits(a), of_bits(b)
    return a == b or (fa != fa and fb != fb)


def run_section(env, res, prop_id, n_random):
    """runs the section; returns its histogram dict (the caller stores it in res.extra['histogram'])"""
    drv = env.get('driver')
    hist = dict(rationals=0, decimals=0, ints=0, divisions=0, hardware_checks=0, tags={}, outcomes={})
    if drv is None:
        hist['skipped'] = 'no driver'
        return hist
    rng = common.make_rng(env['seed'], prop_id + '-floatround')
    rat, dec, ints, divs = corpus(rng, n_random)
    dec_rat = [(int(a + b), 10 ** len(b)) for a, b in dec]
    allrat = [(n, d) for n, d, _ in rat] + dec_rat
    out = {'rat': [], 'hw': [], 'div': [], 'hwdiv': [], 'mul': [], 'hwmul': [], 'int': []}
    CH = 1500
    for i in range(0, len(allrat), CH):
        r = drv.ask(dict(p='FloatRound', rat=[[str(n), str(d)] for n, d in allrat[i:i + CH]]))
        out['rat'] += r['rat']
        out['hw'] += r['hw']
    for i in range(0, len(divs), CH):
        r = drv.ask(dict(p='FloatRound', div=[[str(x), str(y)] for x, y in divs[i:i + CH]]))
        out['div'] += r['div']
        out['hwdiv'] += r['hwdiv']
        out['mul'] += r['mul']
        out['hwmul'] += r['hwmul']
    r = drv.ask(dict(p='FloatRound', int=[str(i) for i in ints]))
    out['int'] = r['int']
    fails = 0

    def fail(key, what, replay):
        nonlocal fails
        fails += 1
        if fails <= 5:
            res.fail('mismatch', key, what, dict(section='floatround', **replay))

    for idx, (n, d) in enumerate(allrat):
        m = model_res(out['rat'][idx])
        tag = rat[idx][2] if idx < len(rat) else 'decimal'
        hist['tags'][tag] = hist['tags'].get(tag, 0) + 1
        hist['outcomes'][m[0]] = hist['outcomes'].get(m[0], 0) + 1
        res.case(('fr', n, d), nontrivial=d != 0 and n % max(d, 1) != 0)
        res.traces += 1
        p1 = py_true_div(n, d)
        p2 = py_fraction(n, d)
        if idx >= len(rat):
            hist['decimals'] += 1
            a, b = dec[idx - len(rat)]
            p3 = ('ok', bits(float(a + '.' + b)))       # float(str): never raises, overflow is inf
            m3 = m if m[0] == 'ok' else (('ok', bits(float('inf'))) if m == ('ov', False) else m)
            if m3 != p3:
                fail('floatround-decimal', 'literal %s.%s: model roundRat gives %r, float(str) gives %r' % (
                    a[:40], b[:40], m3, p3), dict(num=str(n), den=str(d)))
        else:
            hist['rationals'] += 1
        if p1 != p2 and not (p1[0] == 'ok' and p2[0] == 'ok' and of_bits(p1[1]) == 0.0 == of_bits(p2[1])):
            fail('floatround-platform', 'int/int and float(Fraction) disagree on %d/%d: %r vs %r' % (n, d, p1, p2),
                 dict(num=str(n), den=str(d)))
        if m != p1 and not (n == 0 and d != 0 and m == ('ok', 0)):
            fail('floatround-model', 'roundRat %s / %s: model %r, CPython int/int %r (tag %s)' % (
                str(n)[:60], str(d)[:60], m, p1, tag), dict(num=str(n), den=str(d)))
        hw = out['hw'][idx]
        if hw is not None:
            hist['hardware_checks'] += 1
            if m != ('ok', int(hw)):
                fail('floatround-hardware', 'roundRat %d / %d: model %r, Lean Float division %s' % (n, d, m, hw),
                     dict(num=str(n), den=str(d)))
    for i, m in zip(ints, out['int']):
        hist['ints'] += 1
        res.case(('fi', i), nontrivial=abs(i) > 2 ** 53)
        res.traces += 1
        try:
            p = ('ok', bits(float(i)))
        except OverflowError:
            p = ('ov', i < 0)
        if model_res(m) != p:
            fail('floatround-int', 'float(%s..): model %r, CPython %r' % (str(i)[:60], model_res(m), p), dict(int=str(i)))
    for (x, y), m, hw in zip(divs, out['div'], out['hwdiv']):
        hist['divisions'] += 1
        res.case(('fd', x, y), nontrivial=True)
        res.traces += 1
        m = int(m)
        if not same_or_nan(m, int(hw)):
            fail('floatround-hardware', 'divBits %016x / %016x: model %016x, Lean Float %016x' % (x, y, m, int(hw)),
                 dict(x=str(x), y=str(y)))
        fy = of_bits(y)
        if fy != 0.0:
            p = bits(of_bits(x) / fy)
            if not same_or_nan(m, p):
                fail('floatround-div', 'divBits %016x / %016x: model %016x, CPython %016x' % (x, y, m, p),
                     dict(x=str(x), y=str(y)))
    for (x, y), m, hw in zip(divs, out['mul'], out['hwmul']):
        hist['products'] = hist.get('products', 0) + 1
        res.case(('fm', x, y), nontrivial=True)
        res.traces += 1
        m = int(m)
        p = bits(of_bits(x) * of_bits(y))
        if not same_or_nan(m, int(hw)):
            fail('floatround-hardware', 'mulBits %016x * %016x: model %016x, Lean Float %016x' % (x, y, m, int(hw)),
                 dict(x=str(x), y=str(y), op='mul'))
        if not same_or_nan(m, p):
            fail('floatround-mul', 'mulBits %016x * %016x: model %016x, CPython %016x' % (x, y, m, p),
                 dict(x=str(x), y=str(y), op='mul'))
    hist['failures'] = fails
    return hist


def replay(env, res, rp):
    """re-run one replayed case of the section"""
    drv = env.get('driver')
    if drv is None:
        return
    if 'num' in rp:
        n, d = int(rp['num']), int(rp['den'])
        m = model_res(drv.ask(dict(p='FloatRound', rat=[[str(n), str(d)]]))['rat'][0])
        p = py_true_div(n, d)
        res.case(('fr', n, d), True)
        res.traces += 1
        if m != p and not (n == 0 and d != 0 and m == ('ok', 0)):
            res.fail('mismatch', 'floatround-model', 'roundRat %s / %s: model %r, CPython %r' % (
                str(n)[:60], str(d)[:60], m, p), dict(section='floatround', **rp))
    elif 'int' in rp:
        i = int(rp['int'])
        m = model_res(drv.ask(dict(p='FloatRound', int=[str(i)]))['int'][0])
        try:
            p = ('ok', bits(float(i)))
        except OverflowError:
            p = ('ov', i < 0)
        res.case(('fi', i), True)
        res.traces += 1
        if m != p:
            res.fail('mismatch', 'floatround-int', 'float(%s..): model %r, CPython %r' % (str(i)[:60], m, p),
                     dict(section='floatround', **rp))
    elif 'x' in rp and rp.get('op') == 'mul':
        x, y = int(rp['x']), int(rp['y'])
        m = int(drv.ask(dict(p='FloatRound', div=[[str(x), str(y)]]))['mul'][0])
        res.case(('fm', x, y), True)
        res.traces += 1
        if not same_or_nan(m, bits(of_bits(x) * of_bits(y))):
            res.fail('mismatch', 'floatround-mul', 'mulBits %016x * %016x: model %016x' % (x, y, m),
                     dict(section='floatround', **rp))
    elif 'x' in rp:
        x, y = int(rp['x']), int(rp['y'])
        m = int(drv.ask(dict(p='FloatRound', div=[[str(x), str(y)]]))['div'][0])
        res.case(('fd', x, y), True)
        res.traces += 1
        if of_bits(y) != 0.0 and not same_or_nan(m, bits(of_bits(x) / of_bits(y))):
            res.fail('mismatch', 'floatround-div', 'divBits %016x / %016x: model %016x' % (x, y, m),
                     dict(section='floatround', **rp))
