"""Generators for the collection checks (C13, C14): data, lambdas of the closed family,
operations with their arguments, pipelines.  Values are in yaql's run-time form (tuple,
seqref.FD, frozenset, Iter marker for a one-shot iterator)."""
from seqref import FD


class Iter:
    """marker: a one-shot iterator over these items"""
    def __init__(self, items):
        self.items = tuple(items)

    def __repr__(self):
        return 'Iter(%r)' % (self.items,)


INTS = [-2, -1, 0, 1, 2, 3, 5]
STRS = ['a', 'b', 'ab', '', 'c']
KEYS = ['a', 'b', 'c']
# values that are equal as dict keys / set elements (==, hash) but are different values
TWINS = [1, 1.0, True, 0, 0.0, False, 1, 1.0, True, 2, 2.0, 2.5, 0.5, 'a', 'a', None, -1, -1.0]
FLOATS = [0.0, 1.0, 2.0, 0.5, 2.5, -1.0, -0.5]
# nestdup: lists of small lists with REPEATED inner lists and empty ones among the non-empty;
# twins: 1 / 1.0 / true, 0 / 0.0 / false, ... side by side; nesttwins: inner lists of those
NEST_PROFILES = ['nestdup', 'nestdup', 'nesttwins', 'twins']
PROFILES = ['ints', 'ints', 'ints', 'strs', 'dicts', 'pairs', 'nested', 'mixed', 'intsnull', 'nestdup', 'nestdup',
            'nesttwins', 'twins']


def scalar(rng):
    r = rng.random()
    if r < 0.5:
        return rng.choice(INTS)
    if r < 0.75:
        return rng.choice(STRS)
    if r < 0.85:
        return None
    return rng.choice([True, False])


def elem(rng, profile, depth=0):
    if profile == 'ints':
        return rng.choice(INTS)
    if profile == 'intsnull':
        return rng.choice(INTS + [None, None, True])
    if profile == 'strs':
        return rng.choice(STRS)
    if profile == 'dicts':
        ks = [k for k in KEYS if rng.random() < (0.9 if k == 'a' else 0.5)]
        return FD((k, rng.choice(INTS) if rng.random() < 0.8 else scalar(rng)) for k in ks)
    if profile == 'pairs':
        return (rng.choice(STRS + INTS[:3]), rng.choice(INTS))
    if profile == 'twins':
        return rng.choice(TWINS)
    if profile == 'nestdup':
        return tuple(rng.choice(INTS) for _ in range(rng.choice([0, 1, 1, 2, 2, 3])))
    if profile == 'nesttwins':
        return tuple(rng.choice(TWINS) for _ in range(rng.choice([0, 1, 1, 1, 2, 3])))
    if profile == 'nested':
        if depth < 2 and rng.random() < 0.6:
            return tuple(elem(rng, 'nested', depth + 1) for _ in range(rng.randrange(0, 4)))
        return rng.choice(INTS)
    # mixed
    r = rng.random()
    if r < 0.55 or depth >= 2:
        return scalar(rng)
    if r < 0.75:
        return tuple(elem(rng, 'mixed', depth + 1) for _ in range(rng.randrange(0, 3)))
    return FD((rng.choice(KEYS), elem(rng, 'mixed', depth + 1)) for _ in range(rng.randrange(0, 3)))


def hashable(v):
    try:
        hash(v)
        return True
    except TypeError:
        return False


def twin_of(v):
    """an equal value of another type, where there is one (elementwise for a list)"""
    if isinstance(v, tuple):
        return tuple(twin_of(x) for x in v)
    for group in ((1, 1.0, True), (0, 0.0, False), (2, 2.0), (-1, -1.0)):
        for i, g in enumerate(group):
            if type(g) is type(v) and g == v:
                return group[(i + 1) % len(group)]
    return v


def elems(rng, profile, n):
    if profile in ('nestdup', 'nesttwins') and n >= 2:
        # few distinct inner lists, repeated; an empty one among them most of the time; sometimes a twin
        pool = [elem(rng, profile) for _ in range(rng.choice([1, 2, 2, 3]))]
        if rng.random() < 0.6:
            pool.append(())
        xs = [rng.choice(pool) for _ in range(n)]
        if rng.random() < 0.35:
            i = rng.randrange(n)
            xs[i] = twin_of(xs[rng.randrange(n)])
        if rng.random() < 0.3:
            xs[rng.randrange(n)] = elem(rng, profile)
        return xs
    xs = [elem(rng, profile) for _ in range(n)]
    if n >= 2 and rng.random() < 0.5:          # duplicates
        xs[rng.randrange(n)] = xs[rng.randrange(n)]
    if profile == 'twins' and n >= 2 and rng.random() < 0.5:
        xs[rng.randrange(n)] = twin_of(xs[rng.randrange(n)])
    return xs


def data(rng, kind=None, profile=None):
    """(kind, profile, value)"""
    profile = profile or rng.choice(PROFILES)
    if kind is None:
        r = rng.random()
        kind = 'list' if r < 0.55 else 'iter' if r < 0.78 else 'set' if r < 0.88 else 'dict' if r < 0.97 else 'scalar'
    n = rng.choice([0, 1, 2, 2, 3, 3, 4, 4, 5, 6])
    if kind == 'list':
        return kind, profile, tuple(elems(rng, profile, n))
    if kind == 'iter':
        return kind, profile, Iter(elems(rng, profile, n))
    if kind == 'set':
        if profile in ('dicts', 'mixed'):
            profile = 'ints'
        return kind, profile, frozenset(x for x in elems(rng, profile, n) if hashable(x))
    if kind == 'dict':
        ks = rng.sample(KEYS + [1, 0, 'd'], min(n, 5))
        return kind, profile, FD((k, elem(rng, profile)) for k in ks)
    return kind, profile, scalar(rng)


# ------------------------------------------------------------------ lambdas

ARG = ['arg']


def small(rng):
    return rng.choice([-1, 0, 1, 2, 3])


def inner_pred(rng):
    """a predicate on the members of an inner list"""
    return rng.choice([['gt', ARG, small(rng)], ['gt', ARG, 1], ['eq', ['mod', ARG, 2], rng.choice([0, 1])], ARG,
                       ['eq', ARG, rng.choice([1, 0, 2, True])], ['not', ['gt', ARG, 0]], ['const', True]])


def inner_sel(rng):
    return rng.choice([['mul', ARG, rng.choice([2, 10, -1])], ['add', ARG, 1], ['str', ARG], ['half', ARG], ARG,
                       ['pair', ARG, ARG], ['gt', ARG, 0], ['mod', ARG, rng.choice([2, 0])]])


def opt_const(rng, p=0.5):
    """the optional default of first() / last()"""
    return [rng.choice([0, None, 'd', 1.0])] if rng.random() < p else []


def nest_lam(rng, role, scalars=False):
    """lambdas for elements that are lists themselves (nestdup / nesttwins) - or, with scalars=True, for
    1 / 1.0 / true side by side.  Some return a LAZY sequence (where / select / take / range)."""
    if scalars:
        base = ARG
        if role == 'pred':
            return rng.choice([['gt', base, small(rng)], ['eq', base, rng.choice(TWINS)], base, ['not', base],
                               ['eq', ['str', base], rng.choice(['1', '1.0', 'true', 'a'])], ['gt', ['half', base], 0],
                               ['eq', ['mod', base, 2], rng.choice([0, 1])], ['range', base]])
        if role == 'key':
            return rng.choice([base, base, ['str', base], ['half', base], ['eq', base, rng.choice([1, 0])],
                               ['mod', base, 2], ['pair', base, ['str', base]], ['mul', base, rng.choice([1, 2, 0])],
                               ['add', base, rng.choice([0, 1])]])
        return rng.choice([['str', base], ['half', base], ['add', base, small(rng)], ['mul', base, small(rng)],
                           ['mod', base, rng.choice([2, 3, -2, 0])], ['range', base], base, ['pair', base, ['str', base]],
                           ['eq', base, rng.choice([1, 0, 2.5])], ['gt', base, small(rng)], ['not', base]])
    head = rng.choice([['index', ARG, 0], ['index', ARG, 0], ['first', ARG, []], ['first', ARG, opt_const(rng, 1)],
                       ['last', ARG, opt_const(rng)], ['single', ARG], ['index', ARG, rng.choice([-1, 1])]])
    count = rng.choice([['len', ARG], ['len', ARG], ['sum', ARG], ['len', ['where', ARG, inner_pred(rng)]],
                        ['sum', ['select', ARG, ['mul', ARG, 2]]], ['first', ['where', ARG, inner_pred(rng)], opt_const(rng)],
                        ['len', ['take', ARG, rng.choice([0, 1, 2])]]])
    lazy = rng.choice([['where', ARG, inner_pred(rng)], ['where', ARG, inner_pred(rng)], ['select', ARG, inner_sel(rng)],
                       ['select', ARG, inner_sel(rng)], ['take', ARG, rng.choice([0, 1, 1, 2, -1])], ['range', ['len', ARG]],
                       ['range', head], ['take', ['where', ARG, inner_pred(rng)], 1],
                       ['select', ['where', ARG, inner_pred(rng)], inner_sel(rng)]])
    r = rng.random()
    if role == 'pred':
        if r < 0.30:
            return ['gt', count, small(rng)]
        if r < 0.55:
            return ['gt', head, small(rng)]
        if r < 0.65:
            return ['eq', head, rng.choice(TWINS)]
        if r < 0.72:
            return ['eq', count, rng.choice([0, 1, 2])]
        if r < 0.80:
            return rng.choice([count, ['not', count], ARG, ['not', ARG]])
        if r < 0.88:
            return lazy                       # (a generator is true whatever it would yield)
        if r < 0.94:
            return ['eq', ['str', head], rng.choice(['1', 'true', '1.0', '0'])]
        return ['gt', ['half', head], 0]
    if role == 'key':
        if r < 0.25:
            return count
        if r < 0.45:
            return head
        if r < 0.55:
            return ['str', head]
        if r < 0.65:
            return ['half', head]
        if r < 0.75:
            return ARG
        if r < 0.83:
            return ['mod', count, 2]
        if r < 0.90:
            return ['pair', count, head]
        if r < 0.95:
            return ['gt', head, small(rng)]
        return lazy                           # (a generator as a key: hashed by identity)
    if r < 0.34:
        return lazy
    if r < 0.50:
        return head
    if r < 0.62:
        return count
    if r < 0.70:
        return ['str', head]
    if r < 0.78:
        return ['half', head]
    if r < 0.84:
        return ['pair', count, head]
    if r < 0.89:
        return ['pair', ARG, lazy]
    if r < 0.93:
        return ['add', head, small(rng)]
    if r < 0.96:
        return ARG
    return ['mul', ARG, rng.choice([0, 1, 2])]


def lam_for(rng, profile, role):
    """a lambda that mostly fits the element profile; role: pred | sel | key"""
    if rng.random() < 0.12:
        profile = rng.choice(PROFILES)
    if profile in ('nestdup', 'nesttwins'):
        return nest_lam(rng, role)
    if profile == 'twins':
        return nest_lam(rng, role, scalars=True)
    if profile in ('ints', 'intsnull') and rng.random() < 0.08:
        return rng.choice([['range', ARG], ['str', ARG], ['half', ARG], ['range', ['mod', ARG, 3]]])
    if profile in ('ints', 'intsnull'):
        base = ARG
    elif profile == 'dicts':
        base = ['member', ARG, rng.choice(['a', 'a', 'a', 'b', 'c'])]
    elif profile == 'pairs':
        base = ['index', ARG, rng.choice([0, 1, 1, 1, -1, 2])]
    elif profile == 'nested':
        base = rng.choice([ARG, ['index', ARG, rng.choice([0, 1, -1])]])
    elif profile == 'strs':
        r = rng.random()
        if role == 'pred':
            return rng.choice([['eq', ARG, rng.choice(STRS)], ARG, ['not', ARG], ['eq', ['mul', ARG, 2], 'aa'], ['const', True]])
        return rng.choice([ARG, ['mul', ARG, small(rng)], ['pair', ARG, ['const', 1]], ['eq', ARG, 'a'], ['const', rng.choice(STRS)],
                           ['add', ARG, 1]] if r < 0.9 else [['gt', ARG, 0]])
    else:
        base = rng.choice([ARG, ['member', ARG, 'a'], ['index', ARG, 0]])
    r = rng.random()
    if role == 'pred':
        if r < 0.35:
            return ['gt', base, small(rng)]
        if r < 0.55:
            return ['eq', ['mod', base, rng.choice([2, 2, 3, -2, 0])], rng.choice([0, 1])]
        if r < 0.70:
            return ['not', ['gt', base, small(rng)]]
        if r < 0.80:
            return ['eq', base, rng.choice(INTS + [None, True, 'a'])]
        if r < 0.88:
            return base
        if r < 0.94:
            return ['const', rng.choice([True, False, None, 1, 0])]
        return ['not', base]
    if role == 'key':
        if r < 0.35:
            return ['mod', base, rng.choice([2, 2, 3, -2])]
        if r < 0.60:
            return base
        if r < 0.75:
            return ['gt', base, small(rng)]
        if r < 0.85:
            return ['const', rng.choice([1, None, 'k'])]
        if r < 0.93:
            return ['pair', ['mod', base, 2], ['gt', base, 1]]
        return ['eq', base, rng.choice(INTS)]
    # selector
    if r < 0.25:
        return ['add', base, small(rng)]
    if r < 0.40:
        return ['mul', base, small(rng)]
    if r < 0.50:
        return ['mod', base, rng.choice([2, 3, -2, 0])]
    if r < 0.62:
        return base
    if r < 0.72:
        return ['pair', base, ['add', base, 1]]
    if r < 0.80:
        return ['pair', ['mod', base, 2], ARG]
    if r < 0.86:
        return ['const', rng.choice([0, None, 'x', (1, 2)])]
    if r < 0.92:
        return ['gt', base, small(rng)]
    if r < 0.96:
        return ['not', base]
    return ['eq', base, rng.choice(INTS)]


def lam2_for(rng, role, profile=None):
    r = rng.random()
    if profile in ('nestdup', 'nesttwins') and r < 0.6:
        # two-argument lambdas over elements that are lists
        if role == 'pred':
            return rng.choice([['on1', nest_lam(rng, 'pred')], ['on2', nest_lam(rng, 'pred')], ['eq'], ['const', True]])
        if role == 'fold':
            return rng.choice([['plusOn', ['len', ARG]], ['plusOn', ['first', ARG, []]], ['plusOn', ['first', ARG, [0]]],
                               ['plusOn', ['sum', ARG]], ['on2', nest_lam(rng, 'sel')], ['plus'], ['pair']])
        return rng.choice([['on1', nest_lam(rng, 'sel')], ['on2', nest_lam(rng, 'sel')], ['pair'], ['fst']])
    if profile == 'twins' and r < 0.5:
        if role == 'pred':
            return rng.choice([['eq'], ['eq'], ['gt'], ['on1', nest_lam(rng, 'pred', True)]])
        if role == 'fold':
            return rng.choice([['plus'], ['plus'], ['max'], ['plusOn', ['half', ARG]], ['on2', ['str', ARG]]])
        return rng.choice([['pair'], ['plus'], ['eq'], ['on1', ['str', ARG]], ['max']])
    r = rng.random()
    if role == 'pred':
        return rng.choice([['gt'], ['gt'], ['eq'], ['eq'], ['const', True], ['const', False], ['on1', ['gt', ARG, 0]],
                           ['on2', ['eq', ['mod', ARG, 2], 0]], ['fst']])
    if role == 'fold':
        return rng.choice([['plus'], ['plus'], ['plus'], ['max'], ['fst'], ['snd'], ['pair'], ['const', 0],
                           ['on2', ['add', ARG, 1]], ['on1', ['mul', ARG, 2]]])
    return rng.choice([['pair'], ['pair'], ['plus'], ['fst'], ['snd'], ['const', 1], ['max'], ['eq']])


# ------------------------------------------------------------------ operations

class Ctx:
    def __init__(self, kind, profile, value):
        self.kind, self.profile = kind, profile
        if isinstance(value, Iter):
            self.elems = list(value.items)
        elif isinstance(value, (tuple, frozenset)):
            self.elems = list(value)
        elif isinstance(value, dict):
            self.elems = list(value.values())
        else:
            self.elems = []
        self.keys = list(value.keys()) if isinstance(value, dict) else []
        self.n = len(self.elems)
        self.value = value


def pos(rng, c):
    return rng.randrange(-c.n - 2, c.n + 3)


def some_elem(rng, c, p=0.7):
    if c.elems and rng.random() < p:
        return rng.choice(c.elems)
    return elem(rng, rng.choice(['ints', 'strs', 'mixed']))


def hashable_elem(rng, c):
    for _ in range(5):
        v = some_elem(rng, c)
        if hashable(v):
            return v
    return 1


def some_key(rng, c):
    if c.keys and rng.random() < 0.7:
        return rng.choice(c.keys)
    return rng.choice(KEYS + [1, 0, True, 'zz', None, (1, 2)])


def few(rng, f, lo=0, hi=3):
    return tuple(f() for _ in range(rng.randrange(lo, hi + 1)))


def small_dict(rng, c):
    return FD((some_key(rng, c) if rng.random() < 0.8 else rng.choice(KEYS), elem(rng, c.profile))
              for _ in range(rng.randrange(0, 3)))


def maybe(rng, d, k, f, p=0.5):
    if rng.random() < p:
        d[k] = f()
    return d


def deep_dict(rng, depth=0):
    d = {}
    for k in rng.sample(KEYS, rng.randrange(0, 4)):
        r = rng.random()
        if r < 0.3 and depth < 2:
            d[k] = deep_dict(rng, depth + 1)
        elif r < 0.55:
            d[k] = tuple(rng.choice(INTS) for _ in range(rng.randrange(0, 3)))
        else:
            d[k] = rng.choice(INTS + ['x'])
    return FD(d)


def related_dict(rng, d, depth=0):
    out = {}
    for k, v in d.items():
        r = rng.random()
        if r < 0.12:
            continue
        if r < 0.5:
            out[k] = v
        elif r < 0.62:
            twins = {1: True, 0: False, True: 1, False: 0}
            out[k] = twins[v] if (isinstance(v, (int, bool)) and v in twins) else v
        elif r < 0.8 and isinstance(v, dict) and depth < 2:
            out[k] = related_dict(rng, v, depth + 1)
        elif r < 0.8 and isinstance(v, tuple):
            out[k] = v + tuple(rng.choice(v) for _ in range(rng.randrange(0, 2))) if v else v
        else:
            out[k] = rng.choice([rng.choice(INTS + ['x']), tuple(rng.choice(INTS) for _ in range(rng.randrange(0, 3)))])
    for k in rng.sample(KEYS, rng.randrange(0, 2)):
        out.setdefault(k, rng.choice(INTS + ['x']))
    return FD(out)


ALIASES = {'filter': 'where', 'map': 'select', 'reduce': 'aggregate', 'limit': 'take', 'intByList': 'timesInt'}


def gen_op(rng, name, c):
    if name in ALIASES:
        a = gen_op(rng, ALIASES[name], c)
        a['alias'] = name
        return a
    P, S, K = (lambda: lam_for(rng, c.profile, 'pred')), (lambda: lam_for(rng, c.profile, 'sel')), (lambda: lam_for(rng, c.profile, 'key'))
    a = {'op': name}
    if name in ('where', 'takeWhile', 'skipWhile', 'indexWhere', 'lastIndexWhere', 'splitWhere'):
        a['l'] = P()
    elif name == 'sliceWhere':
        a['l'] = rng.choice([P, K])()
    elif name in ('select',):
        a['l'] = S()
    elif name == 'selectMany':
        a['l'] = rng.choice([S(), ARG, ['pair', ARG, ARG], ['mul', ['pair', ARG, ['const', 0]], rng.choice([0, 1, 2])]])
        if c.profile in ('nestdup', 'nesttwins') and rng.random() < 0.6:
            a['l'] = rng.choice([S(), ['where', ARG, inner_pred(rng)], ['select', ARG, inner_sel(rng)], ARG,
                                 ['take', ARG, rng.choice([0, 1, 2])], ['range', ['len', ARG]]])
    elif name in ('orderBy', 'orderByDescending', 'thenBy', 'thenByDescending'):
        a['l'] = rng.choice([K, K, S])()
    elif name == 'attr':
        a['name'] = rng.choice(['a', 'a', 'b', 'c'])
    elif name in ('skip', 'take', 'slice', 'splitAt', 'cycleTake'):
        a['n'] = pos(rng, c) if name != 'slice' else rng.choice([1, 2, 2, 3, 0, c.n, c.n + 1, -1])
        if name in ('skip', 'take') and a['n'] < 0 and rng.random() < 0.8:
            a['n'] = -a['n'] - 1
        if name == 'cycleTake':
            a['n'] = rng.randrange(-1, 2 * c.n + 3)
    elif name == 'append':
        a['vs'] = few(rng, lambda: some_elem(rng, c))
    elif name == 'distinct':
        a['l'] = K() if rng.random() < 0.5 else None
    elif name == 'enumerate':
        a['n'] = rng.choice([None, None, 0, 1, -2, 5])
    elif name in ('any', 'all'):
        a['l'] = P() if rng.random() < 0.7 else None
    elif name in ('concat', 'zip', 'zipLongest'):
        a['vss'] = few(rng, lambda: tuple(elems(rng, c.profile, rng.randrange(0, 5))), 0 if name != 'concat' else 1, 2)
        if name == 'zipLongest':
            maybe(rng, a, 'v', lambda: rng.choice([None, 0, 'z']))
    elif name in ('sum', 'max', 'min'):
        maybe(rng, a, 'v', lambda: some_elem(rng, c), 0.35)
    elif name in ('first', 'last'):
        maybe(rng, a, 'v', lambda: rng.choice([None, 0, 'd']), 0.4)
    elif name == 'range1':
        a['n'] = rng.randrange(-2, 7)
    elif name == 'range3':
        a['n'], a['m'] = rng.randrange(-3, 6), rng.randrange(-3, 8)
        a['k'] = rng.choice([None, None, 1, 2, -1, -2, 3, 0])
    elif name == 'sequenceTake':
        a['m'] = rng.choice([None, 0, 3, -2])
        a['k'] = rng.choice([None, 1, 2, -1, 0]) if a['m'] is not None else None
        a['n'] = rng.randrange(-1, 7)
    elif name == 'groupBy':
        a['l'] = K()
        a['l2'] = S() if rng.random() < 0.4 else None
        a['l3'] = rng.choice([['pair', ['index', ARG, 0], ['sum', ['index', ARG, 1]]], ['pair', ['index', ARG, 0], ['len', ['index', ARG, 1]]],
                              ['pair', ['index', ARG, 0], ['index', ARG, 1]], ['pair', ['index', ARG, 0], ['first', ['index', ARG, 1], []]],
                              ARG, ['index', ARG, 0], ['index', ARG, 1], ['index', ARG, -1], ['const', 0], ['pair', ARG, ARG],
                              ['mul', ARG, 2], ['add', ARG, 1], ['not', ARG], ['eq', ARG, (1, 2)], ['len', ARG], ['sum', ARG],
                              ['first', ARG, []], ['where', ARG, ['gt', ARG, 0]], ['select', ARG, ['str', ARG]]]) \
            if rng.random() < 0.45 else None
    elif name == 'join':
        a['vs'] = tuple(elems(rng, c.profile, rng.randrange(0, 4)))
        a['f2'], a['g2'] = lam2_for(rng, 'pred', c.profile), lam2_for(rng, 'sel', c.profile)
    elif name == 'repeatTake':
        a['m'] = rng.choice([None, None, 0, 1, 2, 3, -1])
        a['n'] = rng.randrange(0, 5) if (a['m'] is None or a['m'] < 0 or rng.random() < 0.3) else None
    elif name in ('indexOf', 'lastIndexOf', 'contains', 'in', 'containsValue'):
        a['v'] = some_elem(rng, c) if name in ('indexOf', 'lastIndexOf', 'containsValue') else hashable_elem(rng, c)
    elif name in ('aggregate', 'accumulate'):
        a['f2'] = lam2_for(rng, 'fold', c.profile)
        maybe(rng, a, 'v', lambda: some_elem(rng, c), 0.4)
        if a['f2'][0] == 'plusOn' and rng.random() < 0.8:
            a['v'] = rng.choice([0, 0, 1, 0.5])
    elif name == 'mergeWith':
        # half of the time the other dict is a relative of the receiver: shared keys with the same value, with an equal
        # value of another type, with lists that repeat elements, with other values; keys left out and added
        a['kv'] = related_dict(rng, c.value) if isinstance(getattr(c, 'value', None), dict) and rng.random() < 0.6 \
            else deep_dict(rng)
        a['f2'] = rng.choice([None, None, ['plus'], ['fst'], ['snd']])
        a['g2'] = rng.choice([None, None, ['fst'], ['plus'], ['pair']])
        a['n'] = rng.choice([0, 0, 1, 2])
    elif name == 'defaultIfEmpty':
        a['vs'] = few(rng, lambda: some_elem(rng, c))
    elif name == 'generate':
        k = rng.choice([1, 2, 3])
        a['l'] = rng.choice([['not', ['gt', ARG, rng.choice([3, 6, 9])]], ['gt', ['const', 8], 0] if False else ['not', ['gt', ARG, 5]]])
        a['l2'] = rng.choice([['add', ARG, k], ['add', ARG, k], ['mul', ARG, 2], ['mod', ['add', ARG, 1], 4]])
        a['l3'] = rng.choice([None, None, ['mul', ARG, 10], ['pair', ARG, ARG]])
        a['b'] = rng.random() < 0.5
        a['n'] = 40
        if not a['b'] and a['l2'][0] in ('mul', 'mod'):
            a['b'] = True
    elif name == 'generateManyTake':
        a['l'] = rng.choice([['pair', ['add', ARG, 1], ['mul', ARG, 2]], ['pair', ['add', ARG, 1], ['add', ARG, 1]],
                             ['mul', ['pair', ['add', ARG, 1], ['const', 0]], rng.choice([0, 1, 2])], ['const', ()],
                             ['pair', ['mod', ['add', ARG, 1], 3], ['mod', ['add', ARG, 2], 4]], ['add', ARG, 1],
                             ['pair', ARG, ['const', None]]])
        a['l2'] = rng.choice([None, None, ['mul', ARG, 10], ['pair', ARG, ARG], ['gt', ARG, 2]])
        a['b'] = rng.random() < 0.5
        a['b2'] = rng.random() < 0.4
        a['n'] = rng.randrange(-1, 9)
    elif name == 'zipRoot':
        a['ns'] = [rng.choice([0, 1, 1, 1, 2, c.n] if rng.random() < 0.95 else [-1])] + (
            [rng.choice([0, 1, 2])] if rng.random() < 0.3 else [])
    elif name == 'joinRoot':
        a['f2'], a['g2'] = lam2_for(rng, 'pred', c.profile), lam2_for(rng, 'sel', c.profile)
    elif name == 'concatRoot':
        a['n'] = rng.choice([0, 1, 1, 2, c.n, c.n + 1] if rng.random() < 0.95 else [-1])
    elif name == 'partialThenFull':
        a['n'] = rng.randrange(0, c.n + 2) if rng.random() < 0.95 else -1
    elif name == 'listLit':
        a['vs'] = few(rng, lambda: some_elem(rng, c), 0, 2)
    elif name == 'toDict':
        a['l'] = K()
        a['l2'] = S() if rng.random() < 0.5 else None
    elif name in ('index', 'containsKey', 'get', 'indexDflt', 'dictSet'):
        a['v'] = some_key(rng, c) if c.kind == 'dict' or rng.random() < 0.3 else pos(rng, c)
        if name == 'index' and a['v'] is True:
            a['v'] = 1
        if name == 'get':
            maybe(rng, a, 'w', lambda: rng.choice([None, 0, 'dflt']))
        if name in ('indexDflt', 'dictSet'):
            a['w'] = some_elem(rng, c)
    elif name in ('dictSetMany', 'dictSetInline'):
        a['kv'] = small_dict(rng, c)
        if name == 'dictSetInline':
            a['kv'] = FD((k, v) for k, v in a['kv'].items() if not isinstance(k, (tuple, bool)) and k is not None)
    elif name in ('plusRight', 'plusLeft'):
        r = rng.random()
        if c.kind == 'dict' and r < 0.8:
            a['v'] = small_dict(rng, c)
        elif c.kind == 'set' and r < 0.6:
            a['v'] = frozenset(x for x in elems(rng, c.profile, rng.randrange(0, 4)) if hashable(x))
        elif r < 0.9:
            a['v'] = tuple(elems(rng, c.profile, rng.randrange(0, 4)))
        else:
            a['v'] = rng.choice([1, 'a', FD()])   # (a null constant is rejected before the receiver is evaluated: C05/C11 matter)
    elif name == 'timesInt':
        a['n'] = rng.choice([-1, 0, 1, 2, 3])
    elif name == 'delete':
        if c.kind == 'dict':
            a['vs'] = few(rng, lambda: some_key(rng, c))
        else:
            a['vs'] = (pos(rng, c),) if rng.random() < 0.5 else (pos(rng, c), rng.randrange(-2, c.n + 3))
    elif name == 'deleteAll':
        a['vs'] = few(rng, lambda: some_key(rng, c))
    elif name in ('replace', 'replaceMany'):
        a['n'] = pos(rng, c)
        a['m'] = rng.choice([None, None, 0, 1, 2, c.n, c.n + 2, -1])
        if name == 'replace':
            a['v'] = some_elem(rng, c, 0.3)
        else:
            a['vs'] = few(rng, lambda: some_elem(rng, c, 0.3))
    elif name in ('insert', 'insertMany'):
        a['n'] = pos(rng, c)
        if name == 'insert':
            a['v'] = some_elem(rng, c, 0.3)
        else:
            a['vs'] = few(rng, lambda: some_elem(rng, c, 0.3))
    elif name in ('union', 'intersect', 'difference', 'minus', 'symmetricDifference', 'setCmp'):
        a['vs'] = tuple(frozenset(hashable_elem(rng, c) for _ in range(rng.randrange(0, 4))))
        if name == 'setCmp':
            a['n'] = rng.randrange(4)
    elif name in ('add', 'remove'):
        a['vs'] = few(rng, lambda: hashable_elem(rng, c) if rng.random() < 0.95 else some_elem(rng, c))
    elif name == 'unpack':
        if rng.random() < 0.5:
            a['names'] = []
            a['n'] = rng.randrange(0, c.n + 2)
        else:
            a['names'] = ['a', 'b', 'c', 'd', 'e', 'f', 'g', 'h'][:max(0, min(8, c.n + rng.choice([0, 0, 0, 1, -1])))]
            a['n'] = 0
    elif name in ('len', 'count', 'memorize', 'single', 'reverse', 'isIterable', 'list', 'flatten', 'toList', 'dict',
                  'keys', 'values', 'items', 'isList', 'isDict', 'isSet', 'set', 'toSet'):
        pass
    else:
        raise ValueError(name)
    return a


ITER_OPS = ['where', 'select', 'attr', 'skip', 'take', 'append', 'distinct', 'enumerate', 'any', 'all', 'concat', 'len',
            'count', 'memorize', 'sum', 'max', 'min', 'first', 'single', 'last', 'selectMany', 'orderBy',
            'orderByDescending', 'groupBy', 'zip', 'zipLongest', 'join', 'cycleTake', 'takeWhile', 'skipWhile',
            'indexOf', 'lastIndexOf', 'indexWhere', 'lastIndexWhere', 'slice', 'splitWhere', 'sliceWhere', 'splitAt',
            'aggregate', 'accumulate', 'reverse', 'defaultIfEmpty', 'flatten', 'toList', 'dict', 'toDict', 'in',
            'contains', 'plusRight', 'plusLeft', 'delete', 'replace', 'replaceMany', 'insert', 'insertMany', 'toSet',
            'unpack', 'isIterable', 'list', 'set', 'listLit', 'isList', 'isSet', 'isDict', 'repeatTake']
SEQ_OPS = ['index', 'timesInt']
ORD_OPS = ['thenBy', 'thenByDescending']
DICT_OPS = ['attr', 'index', 'indexDflt', 'get', 'dictSet', 'dictSetMany', 'dictSetInline', 'keys', 'values', 'items',
            'containsKey', 'containsValue', 'plusRight', 'plusLeft', 'mergeWith', 'delete', 'deleteAll', 'len', 'isDict',
            'listLit', 'repeatTake']
SET_OPS = ['union', 'intersect', 'difference', 'minus', 'symmetricDifference', 'add', 'remove', 'setCmp', 'len',
           'contains', 'in', 'toSet', 'count', 'isSet', 'plusRight']
SOURCE_OPS = ['range1', 'range3', 'sequenceTake']
ROOT_OPS = ['zipRoot', 'joinRoot', 'concatRoot', 'partialThenFull']
SCALAR_OPS = ['generate', 'generateManyTake', 'repeatTake', 'listLit', 'list', 'set', 'isIterable']
ALL_OPS = sorted(set(ITER_OPS + SEQ_OPS + ORD_OPS + DICT_OPS + SET_OPS + SOURCE_OPS + SCALAR_OPS)) + sorted(ALIASES) + ROOT_OPS

RESULT_KIND = {}
for _n in ALL_OPS:
    RESULT_KIND[_n] = 'lazy'
for _n in ('any', 'all', 'len', 'count', 'sum', 'max', 'min', 'first', 'single', 'last', 'indexOf', 'lastIndexOf',
           'indexWhere', 'lastIndexWhere', 'aggregate', 'isIterable', 'in', 'contains', 'containsKey',
           'containsValue', 'isList', 'isDict', 'isSet', 'setCmp', 'get', 'indexDflt', 'index', 'attr'):
    RESULT_KIND[_n] = 'scalar'
for _n in ('splitAt', 'toList', 'list', 'listLit', 'unpack', 'timesInt'):
    RESULT_KIND[_n] = 'seq'
for _n in ('dict', 'toDict', 'dictSet', 'dictSetMany', 'dictSetInline', 'mergeWith', 'deleteAll'):
    RESULT_KIND[_n] = 'dict'
for _n in ('set', 'toSet', 'union', 'intersect', 'difference', 'minus', 'symmetricDifference', 'add', 'remove'):
    RESULT_KIND[_n] = 'dset'
for _n in ('orderBy', 'orderByDescending', 'thenBy', 'thenByDescending'):
    RESULT_KIND[_n] = 'ord'
for _n in ('keys', 'values', 'items'):
    RESULT_KIND[_n] = 'view'

RECEIVERS = {}      # op -> data kinds it is mostly tried on first
for _n in ITER_OPS:
    RECEIVERS[_n] = ['list', 'list', 'iter', 'set']
for _n in SEQ_OPS:
    RECEIVERS[_n] = ['list']
for _n in DICT_OPS:
    RECEIVERS.setdefault(_n, ['dict'])
for _n in ('attr', 'plusRight', 'plusLeft', 'delete', 'len', 'index', 'isDict', 'listLit', 'repeatTake'):
    RECEIVERS[_n] = ['list', 'iter', 'dict', 'dict']
for _n in SET_OPS:
    if _n not in ITER_OPS:
        RECEIVERS[_n] = ['set']
for _n in ('len', 'contains', 'in', 'toSet', 'count', 'isSet', 'plusRight'):
    RECEIVERS[_n] = RECEIVERS[_n] + ['set', 'set']
for _n in ORD_OPS:
    RECEIVERS[_n] = ['list', 'iter']
for _n in SOURCE_OPS:
    RECEIVERS[_n] = ['scalar']
RECEIVERS['generate'] = ['scalar']
for _n in ROOT_OPS:
    RECEIVERS[_n] = ['iter', 'iter', 'iter', 'list', 'set']
    RESULT_KIND[_n] = 'lazy'
RESULT_KIND['partialThenFull'] = 'seq'
RECEIVERS['generateManyTake'] = ['scalar']
for _a, _b in ALIASES.items():
    RECEIVERS[_a] = RECEIVERS[_b]
    RESULT_KIND[_a] = RESULT_KIND[_b]


PREF_PROFILE = {
    'orderBy': ['ints', 'strs', 'dicts', 'pairs', 'intsnull'], 'orderByDescending': ['ints', 'strs', 'dicts', 'pairs'],
    'thenBy': ['dicts', 'pairs', 'ints'], 'thenByDescending': ['dicts', 'pairs', 'ints'],
    'attr': ['dicts'], 'min': ['ints', 'strs', 'intsnull'], 'max': ['ints', 'strs', 'intsnull'], 'sum': ['ints', 'strs', 'nested'],
    'toDict': ['ints', 'strs', 'pairs', 'dicts'], 'groupBy': ['ints', 'strs', 'pairs', 'dicts'],
    'aggregate': ['ints', 'strs', 'nested'], 'accumulate': ['ints', 'strs', 'nested'],
    'toSet': ['ints', 'strs', 'pairs', 'intsnull'], 'distinct': ['ints', 'strs', 'pairs', 'intsnull', 'dicts'],
}


# functions that take a selector / predicate: tried on the nested profiles much more often
LAMBDA_OPS = ['where', 'select', 'selectMany', 'orderBy', 'orderByDescending', 'thenBy', 'thenByDescending', 'groupBy',
              'distinct', 'toDict', 'join', 'joinRoot', 'takeWhile', 'skipWhile', 'any', 'all', 'indexWhere',
              'lastIndexWhere', 'accumulate', 'aggregate', 'splitWhere', 'sliceWhere', 'zip', 'first', 'sum', 'max', 'min',
              'toSet', 'indexOf', 'contains', 'in']
# what partially consumes a lazy result (the produced prefix before a failing element must be right)
PARTIAL = ['take', 'take', 'first', 'skip', 'len', 'toList', 'any', 'indexWhere', 'takeWhile']


def next_ops(kind):
    if kind in ('lazy', 'list', 'iter', 'seq'):
        return ITER_OPS + (SEQ_OPS if kind in ('list', 'seq') else [])
    if kind == 'set':
        return ITER_OPS + SET_OPS + SET_OPS
    if kind == 'ord':
        return ITER_OPS + ORD_OPS * 12
    if kind == 'dict':
        return DICT_OPS
    if kind == 'dset':
        return SET_OPS
    if kind == 'view':
        return ['where', 'select', 'len', 'count', 'toList', 'contains', 'any', 'first', 'orderBy', 'toSet', 'isSet',
                'union', 'minus', 'setCmp', 'insert', 'memorize', 'defaultIfEmpty', 'distinct', 'sum']
    return None


def pipeline(rng, fname, max_ops=4, dict_bias=0.0, extras=True, kind_want=None):
    """a case exercising function `fname`: (kind, profile, data value, ops, binder).
    dict_bias: how often a function that takes a collection is tried on a dictionary instead (an engine with
    yaql.iterableDicts iterates its keys); extras=False: no stages after `fname`; kind_want: the kind of the document"""
    if fname.startswith('obs:'):
        raise ValueError('use observe()')
    pre = []
    binder = None
    if fname in ROOT_OPS:
        # the receiver is `$` itself or something lazily derived from it: two live consumers of `$`
        if fname != 'partialThenFull' and rng.random() < 0.45:
            pre = [rng.choice(['where', 'select', 'skip', 'take', 'enumerate', 'distinct', 'takeWhile'])]
    elif fname in ORD_OPS:
        pre = ['orderBy' if rng.random() < 0.6 else 'orderByDescending']
    elif fname in SOURCE_OPS or fname in ('generate', 'generateManyTake'):
        pre = []
    elif rng.random() < 0.25:
        # the function under test is not the first stage
        pre = [rng.choice(['where', 'select', 'skip', 'take', 'memorize', 'append', 'distinct', 'reverse', 'toList'])]
        if fname in DICT_OPS and fname not in ITER_OPS:
            pre = [rng.choice(['dictSetMany', 'deleteAll'])]
        elif fname in SET_OPS and fname not in ITER_OPS:
            pre = [rng.choice(['toSet', 'union', 'add'])]
        elif fname in SEQ_OPS:
            pre = ['toList']
    first = pre[0] if pre else fname
    want = RECEIVERS.get(first, ['list'])
    kind = rng.choice(want) if rng.random() < 0.93 else None
    if dict_bias and first in ITER_OPS and rng.random() < dict_bias:
        kind = 'dict'
    if kind_want:
        kind = kind_want
    prof = None
    if fname in ('generate', 'generateManyTake'):
        kind, prof = 'scalar', 'ints'
    if fname in ('dict',) and rng.random() < 0.8:
        prof = 'pairs'
    if fname == 'flatten' and rng.random() < 0.7:
        prof = 'nested'
    if fname in PREF_PROFILE and rng.random() < 0.75:
        prof = rng.choice(PREF_PROFILE[fname])
    if ALIASES.get(fname, fname) in LAMBDA_OPS and rng.random() < 0.4:
        prof = rng.choice(NEST_PROFILES)
    kind, prof, value = data(rng, kind, prof)
    if fname == 'single' and not pre and rng.random() < 0.5 and kind in ('list', 'iter'):
        one = elems(rng, prof, 1)
        value = tuple(one) if kind == 'list' else Iter(one)
    if fname in ('generate', 'generateManyTake'):
        value = rng.choice([0, 1, 2])
    if fname == 'mergeWith' and kind == 'dict' and not pre and rng.random() < 0.6:
        value = deep_dict(rng)              # nested dicts and lists (with repeated elements) to merge into
    c = Ctx(kind, prof, value)
    ops = [gen_op(rng, n, c) for n in pre + [fname]]
    cur = RESULT_KIND[fname]
    if fname in ALIASES and fname in ('reduce',):
        cur = 'scalar'
    if fname in ('memorize', 'defaultIfEmpty') and not pre:
        cur = kind if kind in ('list', 'set') else 'lazy'
    if fname == 'attr' and kind != 'dict':
        cur = 'lazy'
    extra = rng.choice([0, 0, 1, 1, 2, 3]) if extras else 0
    while len(ops) < max_ops and extra > 0:
        extra -= 1
        cand = next_ops(cur)
        if rng.random() < 0.06:
            cand = ALL_OPS
        elif cur == 'lazy' and prof in NEST_PROFILES and rng.random() < 0.4:
            cand = PARTIAL
        if not cand:
            break
        n = rng.choice(cand)
        if n in SOURCE_OPS or n in ('generate', 'generateManyTake', 'partialThenFull'):
            continue
        ops.append(gen_op(rng, n, c))
        cur = RESULT_KIND[n]
        if n in ('memorize', 'defaultIfEmpty'):
            cur = 'lazy'
    if kind in ('iter', 'list', 'set') and extras:
        r = rng.random()
        if fname in ROOT_OPS:
            binder = {'op': 'memorize'} if r < 0.75 else (
                {'op': 'defaultIfEmpty', 'vs': tuple(elems(rng, prof, rng.randrange(1, 3)))} if r < 0.92 else None)
        elif r < 0.06:
            binder = {'op': 'memorize'}
    if binder is not None and rng.random() < 0.35 and len(ops) < max_ops and fname not in ('generate', 'generateManyTake') \
            and fname not in SOURCE_OPS and cur in ('lazy', 'seq', 'list', 'iter'):
        ops.append(gen_op(rng, rng.choice(['zipRoot', 'joinRoot', 'concatRoot']), c))
    return kind, prof, value, ops, binder


# ------------------------------------------------------------------ programs that observe the operand of an update again

# "persistent" updates: they return a new collection, their operand is the same afterwards
LIST_UPDATERS = ['insert', 'insertMany', 'delete', 'replace', 'replaceMany', 'plusRight', 'plusLeft', 'timesInt', 'append']
DICT_UPDATERS = ['dictSet', 'dictSetMany', 'dictSetInline', 'delete', 'deleteAll', 'mergeWith', 'plusRight']
SET_UPDATERS = ['add', 'remove', 'union', 'intersect', 'difference', 'symmetricDifference', 'plusRight']
UPDATERS = sorted(set(LIST_UPDATERS + DICT_UPDATERS + SET_UPDATERS))
# what else may look at the operand (second position of letTwice / letChain)
OBSERVERS = {'list': ['len', 'toList', 'reverse', 'first', 'sum', 'index', 'count'],
             'dict': ['len', 'keys', 'values', 'items', 'get', 'containsKey', 'isDict'],
             'set': ['len', 'toSet', 'count', 'isSet', 'contains']}
OBS_SHAPES = ['letPair', 'letPair', 'letTwice', 'letChain', 'letChain', 'selPair', 'selPair', 'memPair']
# pipelines whose RESULT is a list / dict / set the update can be applied to (the last op decides; [] = the document)
LIST_PRODUCERS = [[], [], ['insert'], ['insert'], ['insert', 'insert'], ['splitAt'], ['toList'], ['listLit'], ['timesInt'],
                  ['plusRight'], ['unpack'], ['enumerate', 'toList'], ['where', 'toList'], ['select', 'toList'],
                  ['insertMany', 'toList'], ['delete', 'toList'], ['replace', 'toList'], ['reverse', 'toList'], ['slice', 'toList'],
                  ['zip', 'toList'], ['skip', 'memorize'], ['append', 'toList'], ['orderBy', 'toList'], ['distinct', 'toList']]
DICT_PRODUCERS = [[], [], ['dictSet'], ['dictSetMany'], ['deleteAll'], ['delete'], ['mergeWith'], ['plusRight'],
                  ['deleteAll', 'deleteAll'], ['dictSet', 'delete'], ['mergeWith', 'deleteAll']]
DICT_FROM_LIST = [['toDict'], ['toDict'], ['toDict', 'delete'], ['toDict', 'dictSet'], ['dict'], ['groupBy', 'dict']]
SET_PRODUCERS = [[], [], ['add'], ['union'], ['remove'], ['difference']]
SET_FROM_LIST = [['toSet'], ['toSet', 'add'], ['distinct', 'toSet']]
# pipelines whose ELEMENTS are lists (mutable ones among them) / dicts
ELEM_LIST_PRODUCERS = [[], [], ['enumerate'], ['enumerate'], ['splitAt'], ['slice'], ['zip'], ['groupBy'], ['where'], ['reverse'],
                       ['toList'], ['select'], ['insert'], ['splitWhere'], ['sliceWhere'], ['zipLongest'], ['memorize']]
ELEM_DICT_PRODUCERS = [[], [], ['where'], ['reverse'], ['toList'], ['take'], ['distinct'], ['insert'], ['memorize']]


def updater_target(rng, uname):
    kinds = [k for k, names in (('list', LIST_UPDATERS), ('dict', DICT_UPDATERS), ('set', SET_UPDATERS)) if uname in names]
    return rng.choice(kinds)


def build(rng, names, kind, prof=None):
    """the pipeline `names` over a generated document of the given kind"""
    kind, prof, value = data(rng, kind, prof)
    c = Ctx(kind, prof, value)
    return kind, prof, value, [gen_op(rng, n, c) for n in names], c


def observe(rng, uname):
    """an observing program for the updating function `uname`:
    (kind, profile, data value, ops of the pipeline P, binder, obs = {shape, u[, u2]})"""
    target = updater_target(rng, uname)
    shape = rng.choice(OBS_SHAPES)
    if target == 'set' and shape in ('selPair', 'memPair'):
        shape = rng.choice(['letPair', 'letTwice', 'letChain'])        # (sets do not occur as elements)
    if shape in ('selPair', 'memPair'):
        if target == 'list':
            prof = rng.choice(['nestdup', 'nestdup', 'nesttwins', 'pairs', 'nested', 'ints'])
            names = rng.choice(ELEM_LIST_PRODUCERS)
            if prof == 'ints' and not names:
                names = ['enumerate']
            kind = rng.choice(['list', 'list', 'iter', 'set']) if prof not in ('nested',) else rng.choice(['list', 'iter'])
            if names and names[0] == 'items':
                kind = 'dict'
        else:
            prof, names, kind = 'dicts', rng.choice(ELEM_DICT_PRODUCERS), rng.choice(['list', 'list', 'iter'])
    else:
        r = rng.random()
        if target == 'list':
            names, kind = rng.choice(LIST_PRODUCERS), rng.choice(['list', 'list', 'list', 'iter', 'set'])
            if not names:
                kind = 'list'
        elif target == 'dict':
            if r < 0.7:
                names, kind = rng.choice(DICT_PRODUCERS), 'dict'
            else:
                names, kind = rng.choice(DICT_FROM_LIST), rng.choice(['list', 'list', 'iter'])
        else:
            if r < 0.7:
                names, kind = rng.choice(SET_PRODUCERS), 'set'
            else:
                names, kind = rng.choice(SET_FROM_LIST), rng.choice(['list', 'iter'])
        prof = None
        if names and names[0] in ('toDict', 'groupBy'):
            prof = rng.choice(['ints', 'strs', 'pairs', 'dicts', 'intsnull'])
        if names and names[0] == 'dict':
            prof = 'pairs'
    kind, prof, value, ops, c = build(rng, list(names), kind, prof)
    if ops and ops[0]['op'] == 'select' and shape in ('selPair', 'memPair'):
        ops[0]['l'] = rng.choice([['pair', ARG, ARG], ['pair', ['len', ARG], ARG], ARG, ['pair', ARG, ['const', 0]]])
    if rng.random() < 0.15 and len(ops) < 3 and kind in ('list', 'iter'):
        ops.insert(0, gen_op(rng, rng.choice(['where', 'skip', 'take', 'reverse', 'append']), c))
    # the arguments of the update fit the operand: an element (selPair / memPair) or the pipeline's result
    if shape in ('selPair', 'memPair'):
        inner = [x for x in c.elems if isinstance(x, (tuple, dict))]
        ec = Ctx('dict' if target == 'dict' else 'list', 'ints', rng.choice(inner) if inner else ((1, 2) if target == 'list' else FD(a=1)))
    else:
        ec = Ctx(target if target != 'list' else 'list', prof, value if kind == target else
                 (tuple(c.elems) if target == 'list' else value))
        ec.kind = target
    obs = {'shape': shape, 'u': gen_op(rng, uname, ec)}
    if shape in ('letTwice', 'letChain'):
        second = rng.choice([u for u in UPDATERS if u in {'list': LIST_UPDATERS, 'dict': DICT_UPDATERS, 'set': SET_UPDATERS}[target]]
                            + OBSERVERS[target][:3])
        if shape == 'letChain' and rng.random() < 0.6:
            second = uname                                   # the same update applied to its own result
        obs['u2'] = gen_op(rng, second, ec)
    binder = {'op': 'memorize'} if kind in ('iter',) and rng.random() < 0.1 else None
    return kind, prof, value, ops, binder, obs
