"""JSON codec between Python values and the Lean `Yaql.Value` (see lean/Yaql/Drv/ValueJson.lean)."""
import collections.abc
import json
import struct

from yaql.language import utils as yutils


class Host:
    """an opaque host object"""
    def __init__(self, n):
        self.n = n

    def __eq__(self, o):
        return isinstance(o, Host) and o.n == self.n

    def __hash__(self):
        return hash(('Host', self.n))

    def __repr__(self):
        return 'Host(%d)' % self.n


class Iter:
    """marker for 'a one-shot iterator with this content' when building inputs"""
    def __init__(self, items):
        self.items = list(items)

    def make(self):
        return iter(list(self.items))

    def __repr__(self):
        return 'Iter(%r)' % (self.items,)


def fbits(f):
    return struct.pack('>d', f).hex()


def bits2f(h):
    return struct.unpack('>d', bytes.fromhex(h))[0]


def enc(v):
    """Python value -> JSON-able.  Iterators are consumed."""
    if v is None:
        return None
    if isinstance(v, bool):
        return v
    if isinstance(v, int):
        return {'i': str(v)}
    if isinstance(v, float):
        return {'f': fbits(v)}
    if isinstance(v, str):
        return {'s': [ord(c) for c in v]}
    if isinstance(v, Host):
        return {'h': v.n}
    if isinstance(v, Iter):
        return {'it': [enc(x) for x in v.items]}
    if isinstance(v, tuple):
        return {'tu': [enc(x) for x in v]}
    if isinstance(v, list):
        return {'li': [enc(x) for x in v]}
    if isinstance(v, collections.abc.Mapping):
        return {'d': [[enc(k), enc(x)] for k, x in v.items()]}
    if isinstance(v, collections.abc.Set):
        return {'se': [enc(x) for x in v]}
    if isinstance(v, collections.abc.Iterable):
        return {'it': [enc(x) for x in v]}
    raise TypeError('cannot encode %r' % (v,))


def dec(j, frozen=True):
    """JSON -> Python value (tuples / FrozenDict / frozenset when frozen, as yaql holds them)"""
    if j is None or isinstance(j, bool):
        return j
    (k, x), = j.items()
    if k == 'i':
        return int(x)
    if k == 'f':
        return bits2f(x)
    if k == 's':
        return ''.join(chr(c) for c in x)
    if k == 'h':
        return Host(x)
    if k == 'tu':
        return tuple(dec(t, frozen) for t in x)
    if k == 'li':
        return [dec(t, frozen) for t in x] if not frozen else tuple(dec(t, frozen) for t in x)
    if k == 'd':
        pairs = [(dec(a, frozen), dec(b, frozen)) for a, b in x]
        return yutils.FrozenDict(pairs) if frozen else dict(pairs)
    if k == 'se':
        return frozenset(dec(t, frozen) for t in x) if frozen else set(dec(t, frozen) for t in x)
    if k == 'it':
        return Iter(dec(t, frozen) for t in x)
    raise ValueError(j)


def canon(j):
    """canonical form of an encoded value: set elements sorted, dict pairs sorted (map equality)"""
    if isinstance(j, dict):
        (k, x), = j.items()
        if k in ('tu', 'li', 'it'):
            return {k: [canon(t) for t in x]}
        if k == 'se':
            return {k: sorted((canon(t) for t in x), key=lambda t: json.dumps(t, sort_keys=True))}
        if k == 'd':
            return {k: sorted(([canon(a), canon(b)] for a, b in x), key=lambda t: json.dumps(t, sort_keys=True))}
    return j


def same(a, b):
    return canon(a) == canon(b)
