"""Gen.LimitFacts: for every function registered by `yaql.create_context()` and every payload parameter:
its declared type class (a limiting `yaqltypes.Iterable/Iterator`, another type that ADMITS a lazy
sequence - decided by calling the live `value_type.check` with a generator object -, or a type that does
not) and AST-derived use facts of the payload: does it iterate / consume / lazily wrap the parameter
(`for`, comprehension, `yield from`, `x in P`, tuple list set sorted sum min max dict reduce join
deque.extend zip map filter itertools.* ...), or hand it to code the walker cannot see (`escapes`).
Plus, for every lambda / delegate parameter a payload calls: whether the result of the call is iterated
by the payload and whether it first goes through `utils.limit_iterable`.
Same-module (and `yaql.standard_library.*`) helper calls are followed two levels deep."""
import ast
import importlib
import inspect
import textwrap

import pyfacts

import yaql
from yaql.language import yaqltypes

CONSUMING = {'tuple', 'list', 'set', 'frozenset', 'sorted', 'sum', 'min', 'max', 'dict', 'any', 'all', 'next', 'iter',
             'enumerate', 'zip', 'map', 'filter', 'reversed', 'reduce', 'FrozenDict', 'QueueType', 'deque', 'join',
             'extend', 'update', 'union', 'intersection', 'difference', 'symmetric_difference', 'issubset',
             'issuperset', 'isdisjoint', 'fromkeys', 'chain', 'islice', 'cycle', 'takewhile', 'dropwhile',
             'zip_longest', 'accumulate', 'groupby', 'starmap', 'tee', 'from_iterable', 'product', 'count_'}
SAFE = {'isinstance', 'type', 'bool', 'str', 'repr', 'len', 'id', 'hash', 'callable', 'hasattr', 'getattr', 'int',
        'float', 'abs', 'round', 'divmod', 'pow', 'format', 'is_iterator', 'is_iterable', 'is_sequence', 'is_mutable',
        'limit_memory_usage', 'issubclass', 'get', 'index', 'count', 'add', 'append', 'remove', 'discard', 'insert',
        'setdefault', 'pop', 'startswith', 'endswith', 'find', 'replace', 'split', 'strip', 'compile', 'match',
        'search', 'sub', 'randint', 'uniform', 'repeat', 'unicode', 'ArgumentException', 'ValueError', 'TypeError',
        'rotate', 'popleft', 'memorize'}
LIMITER = {'limit_iterable'}
# positional arguments of a consuming callable that are iterated (default: all of them)
ARG_POS = {'reduce': {1}, 'filter': {1}, 'takewhile': {1}, 'dropwhile': {1}, 'islice': {0}, 'enumerate': {0},
           'sum': {0}, 'next': {0}, 'sorted': {0}, 'starmap': {1}, 'accumulate': {0}, 'groupby': {0}, 'join': {0}}


def registry():
    """[(key, fd)] of every FunctionDefinition reachable from the default context, in a stable order"""
    ctx = yaql.create_context()
    out, seen = [], set()
    c = ctx
    while c is not None:
        for name, lst in getattr(c, '_functions', {}).items():
            for fd in lst:
                if id(fd) not in seen:
                    seen.add(id(fd))
                    out.append(fd)
        c = c.parent
    keyed = {}
    for fd in out:
        p = fd.payload
        base = '%s|%s.%s' % (fd.name, p.__module__.replace('yaql.standard_library.', ''), p.__qualname__)
        k, i = base, 1
        while k in keyed:
            i += 1
            k = '%s#%d' % (base, i)
        keyed[k] = fd
    return sorted(keyed.items()), ctx


_ast_cache = {}


def func_ast(fn):
    """(FunctionDef node, module name) of a python function"""
    key = (fn.__module__, fn.__qualname__)
    if key not in _ast_cache:
        src = textwrap.dedent(inspect.getsource(fn))
        tree = ast.parse(src)
        node = next(n for n in ast.walk(tree) if isinstance(n, (ast.FunctionDef, ast.AsyncFunctionDef)))
        _ast_cache[key] = node
    return _ast_cache[key]


def callee_name(call):
    f = call.func
    if isinstance(f, ast.Name):
        return f.id, None
    if isinstance(f, ast.Attribute):
        return f.attr, f.value
    return None, None


class Walker:
    def __init__(self, fn, callable_params):
        self.fn = fn
        self.node = func_ast(fn)
        self.module = importlib.import_module(fn.__module__)
        self.callable_params = set(callable_params)
        self.parent = {}
        for n in ast.walk(self.node):
            for ch in ast.iter_child_nodes(n):
                self.parent[ch] = n

    def resolve_helper(self, call):
        """python function object a call goes to, if it is a plain module-level function we can read"""
        name, recv = callee_name(call)
        if name is None:
            return None
        obj = None
        if recv is None:
            obj = getattr(self.module, name, None)
            # a nested def of the payload itself
            for n in ast.walk(self.node):
                if isinstance(n, ast.FunctionDef) and n.name == name and n is not self.node:
                    return ('nested', n)
        else:
            try:
                src = ast.unparse(recv)
                if src.startswith('yaql.standard_library.'):
                    obj = getattr(importlib.import_module(src), name, None)
            except Exception:
                obj = None
        if inspect.isfunction(obj) and obj.__module__.startswith('yaql.'):
            return ('func', obj)
        return None

    def uses_of(self, var, depth=0, element=False, scope=None, seen=None):
        """set of use tags of local name `var` inside the payload (or inside `scope`, a nested def)"""
        seen = seen if seen is not None else set()
        root = scope or self.node
        if (id(root), var, element) in seen:
            return set()
        seen.add((id(root), var, element))
        out = set()
        for n in ast.walk(root):
            if isinstance(n, ast.Name) and n.id == var and isinstance(n.ctx, ast.Load):
                out |= self.classify(n, var, depth, element, seen)
        return out

    def classify(self, node, var, depth, element, seen):
        """climb from an occurrence of the value to the construct that uses it"""
        p = self.parent.get(node)
        if p is None:
            return {'escapes'}
        if (isinstance(p, (ast.For, ast.AsyncFor)) or isinstance(p, ast.comprehension)) and p.iter is node:
            tu = self.target_uses(p.target, depth, seen)
            if element:          # the parameter is the vararg tuple: look at what happens to its elements
                return tu
            # `nested`: the elements of the iterated parameter are themselves iterated by the payload
            return {'iterates'} | ({'nested'} if ('iterates' in tu or 'escapes' in tu) else set())
        if isinstance(p, ast.YieldFrom):
            return {'stores'} if element else {'iterates', 'lazy'}
        if isinstance(p, (ast.Return, ast.Yield, ast.Expr)):
            return {'returns'}
        if isinstance(p, ast.Starred):
            gp = self.parent.get(p)
            if isinstance(gp, ast.Call):
                return self.call_use(gp, p, depth, seen, starred=True, element=element)
            return {'escapes'}
        if isinstance(p, ast.keyword):
            gp = self.parent.get(p)
            if isinstance(gp, ast.Call):
                return self.call_use(gp, p, depth, seen, element=element)
            return {'escapes'}
        if isinstance(p, ast.Call):
            if p.func is node:
                return {'calls'}
            return self.call_use(p, node, depth, seen, element=element)
        if isinstance(p, ast.Attribute):
            gp = self.parent.get(p)
            if isinstance(gp, ast.Call) and gp.func is p and p.attr in ('__iter__', '__next__'):
                return {'iterates'}
            return {'getattr'}
        if isinstance(p, ast.Compare):
            if node is not p.left and any(isinstance(op, (ast.In, ast.NotIn)) for op in p.ops):
                return {'stores'} if element else {'iterates'}
            return {'inspects'}
        if isinstance(p, (ast.Tuple, ast.List, ast.Set, ast.Dict)):
            return {'stores'}
        if isinstance(p, ast.Subscript):
            return {'inspects'}
        if isinstance(p, (ast.BinOp, ast.UnaryOp, ast.If, ast.While, ast.Assert, ast.JoinedStr, ast.FormattedValue)):
            return {'inspects'}
        if isinstance(p, ast.IfExp):
            if p.test is node:
                return {'inspects'}
            return self.classify(p, var, depth, element, seen)
        if isinstance(p, ast.BoolOp):
            return {'inspects'} | self.classify(p, var, depth, element, seen)
        if isinstance(p, ast.Assign) and p.value is node and len(p.targets) == 1 and isinstance(p.targets[0], ast.Name):
            return self.uses_of(p.targets[0].id, depth, element, None, seen) | {'aliased'}
        if isinstance(p, (ast.Assign, ast.AugAssign)) and p.value is node:
            return {'stores'}            # d[k] = P, obj.attr = P, a, b = P ...: kept, not consumed here
        if isinstance(p, ast.Lambda):
            return {'returns'}
        return {'escapes'}

    def target_uses(self, target, depth, seen):
        out = set()
        for n in ast.walk(target):
            if isinstance(n, ast.Name):
                out |= self.uses_of(n.id, depth, False, None, seen)
        return out or {'inspects'}

    def call_use(self, call, argnode, depth, seen, starred=False, element=False):
        name, recv = callee_name(call)
        if name in LIMITER:
            return {'limited'}
        if recv is None and name in self.callable_params:
            return {'passes'}            # handed to another yaql function: its own parameter types apply
        helper = self.resolve_helper(call)
        if helper is not None and depth < 2 and not starred:
            kind, obj = helper
            idx = None
            kwname = None
            if isinstance(argnode, ast.keyword):
                kwname = argnode.arg
            else:
                idx = call.args.index(argnode)
            if kind == 'nested':
                params = [a.arg for a in obj.args.args]
                pname = kwname if kwname else (params[idx] if idx < len(params) else None)
                if pname:
                    return self.uses_of(pname, depth + 1, element, obj, seen) | {'helper'}
            else:
                w = Walker(obj, [])
                params = [a.arg for a in w.node.args.args]
                pname = kwname if kwname else (params[idx] if idx < len(params) else None)
                if pname:
                    return w.uses_of(pname, depth + 1, element) | {'helper'}
            return {'escapes'}
        if name in CONSUMING:
            if element and not starred:
                return {'stores'}        # tuple(args), frozenset(args)...: the finite vararg tuple itself
            if not starred and not isinstance(argnode, ast.keyword):
                idx = call.args.index(argnode)
                if name in ARG_POS and idx not in ARG_POS[name]:
                    return {'inspects'}
                if name == 'map' and idx == 0:
                    return {'inspects'}
                if name in ('min', 'max') and len(call.args) > 1:
                    return {'inspects'}      # min(a, b): compares, does not iterate
            elif isinstance(argnode, ast.keyword):
                return {'inspects'}          # key=, default=, fillvalue=, start=
            return {'iterates'}
        if name in SAFE:
            return {'inspects'}
        return {'escapes'}


def type_class(vt, ctx, engine):
    if isinstance(vt, yaqltypes.Iterable):
        return 'limiting'
    if isinstance(vt, (yaqltypes.HiddenParameterType, yaqltypes.LazyParameterType)):
        return 'noLazy'
    try:
        ok = vt.check((x for x in ()), ctx, engine)
    except Exception:
        ok = True
    return 'admitsLazy' if ok else 'noLazy'


def facts():
    reg, ctx = registry()
    engine = yaql.YaqlFactory().create()
    prows, lrows = [], []
    for key, fd in reg:
        sig = inspect.signature(fd.payload)
        var_pos = next((n for n, p in sig.parameters.items() if p.kind == p.VAR_POSITIONAL), None)
        var_kw = next((n for n, p in sig.parameters.items() if p.kind == p.VAR_KEYWORD), None)
        callables = [n for n, p in fd.parameters.items()
                     if isinstance(p.value_type, (yaqltypes.Lambda, yaqltypes.Delegate, yaqltypes.Super,
                                                  yaqltypes.Context))]
        try:
            w = Walker(fd.payload, callables)
        except (OSError, TypeError, StopIteration, SyntaxError):
            w = None
        for pname, p in fd.parameters.items():
            vt = p.value_type
            cls = type_class(vt, ctx, engine)
            pyname = var_pos if pname == '*' else var_kw if pname == '**' else pname
            if w is None:
                uses = {'escapes'}
            else:
                uses = w.uses_of(pyname, element=(pname in ('*', '**')))
            if isinstance(vt, yaqltypes.HiddenParameterType) or isinstance(vt, yaqltypes.LazyParameterType):
                pass
            prows.append(dict(fn=key, param=pname, ty=cls, tyname=type(vt).__name__,
                              iterates='iterates' in uses, escapes='escapes' in uses, nested='nested' in uses,
                              uses=sorted(uses)))
            if isinstance(vt, yaqltypes.Lambda) and w is not None:
                # results of calling the lambda
                res = set()
                for n in ast.walk(w.node):
                    if isinstance(n, ast.Call) and isinstance(n.func, ast.Name) and n.func.id == pname:
                        res |= w.classify(n, pname, 0, False, set())
                lrows.append(dict(fn=key, lam=pname, consumed='iterates' in res or 'escapes' in res,
                                  limited='limited' in res, uses=sorted(res)))
    return prows, lrows


def lb(b):
    return 'true' if b else 'false'


@pyfacts.generator('LimitFacts')
def gen():
    prows, lrows = facts()
    out = ['/-! registry x payload use facts for C08 (see harness/gens/limitfacts.py) -/',
           'namespace Yaql.Gen.LimitFacts', '',
           'inductive TyClass where', '  | limiting | admitsLazy | noLazy', 'deriving DecidableEq, Repr', '',
           'structure ParamRow where', '  fn : String', '  param : String', '  ty : TyClass',
           '  iterates : Bool', '  escapes : Bool', '  nested : Bool', '',
           'structure ProducerRow where', '  fn : String', '  lam : String', '  consumed : Bool', '  limited : Bool', '',
           'def params : List ParamRow := [']
    lines = []
    for r in prows:
        lines.append('  ⟨%s, %s, .%s, %s, %s, %s⟩  -- %s: %s' % (
            pyfacts.lean_str(r['fn']), pyfacts.lean_str(r['param']), r['ty'], lb(r['iterates']), lb(r['escapes']),
            lb(r['nested']), r['tyname'], ' '.join(r['uses'])))
    out.append('')
    body = []
    for i, x in enumerate(lines):
        code, comment = x.split('  -- ', 1)
        body.append(code + (',' if i < len(lines) - 1 else '') + '  -- ' + comment)
    out[-1:] = body
    out.append(']')
    out.append('')
    out.append('def producers : List ProducerRow := [')
    lines = ['  ⟨%s, %s, %s, %s⟩' % (pyfacts.lean_str(r['fn']), pyfacts.lean_str(r['lam']), lb(r['consumed']), lb(r['limited']))
             for r in lrows]
    for i, (x, r) in enumerate(zip(lines, lrows)):
        out.append(x + (',' if i < len(lines) - 1 else '') + '  -- ' + ' '.join(r['uses']))
    out.append(']')
    out.append('')
    out.append('end Yaql.Gen.LimitFacts')
    out.append('')
    pyfacts.emit('LimitFacts', '\n'.join(out))
    return dict(functions=len({r['fn'] for r in prows}), params=len(prows),
                limiting=sum(r['ty'] == 'limiting' for r in prows),
                admits_lazy=sum(r['ty'] == 'admitsLazy' for r in prows),
                admits_lazy_iterated=[r['fn'] + ':' + r['param'] for r in prows
                                      if r['ty'] == 'admitsLazy' and (r['iterates'] or r['escapes'])],
                nested=[r['fn'] + ':' + r['param'] for r in prows if r['nested']],
                producers=len(lrows),
                producers_consumed=[r['fn'] + ':' + r['lam'] for r in lrows if r['consumed']])
