"""HostFacts: for EVERY FunctionDefinition registered in `yaql.create_context()` and every
parameter of it: the declared type class (does the type check admit an arbitrary opaque
host object?) and AST-derived use facts of the payload on that parameter; the same for the
`value` argument of every check/convert method, checker and validator of the smart-type
objects that occur in the registry (that code sees the argument before the payload does).

Emits lean/Yaql/Gen/HostFacts.lean (rows, typeRows : List Yaql.Yaqlized.FactRow,
keywordRegex : List Char).

Use kinds:
  getattr   p.x / getattr(p, ..) / hasattr(p, ..) / setattr / delattr    (host member access by name)
  subscript p[..]
  call      p(..)
  fmtarg    p is formatted by a template that is not a literal of the payload
            (tmpl % p / tmpl.format(p) with non-literal tmpl)
  template  p itself is used as a format template (p % x, p.format(..), p.format_map(..))
  escape    p is passed to a callee the scan cannot see into
  strconv   str(p) / repr(p) / '{}'.format(p) / '%s' % p / f'{p}' with a LITERAL template
            (not a host member access; recorded, never counted as host touching)
  probe     p is passed to yaqlization.get_yaqlization_settings / is_yaqlized: the `__yaqlization__` settings
            probe every object undergoes (recorded, not host touching - the property statement excludes it)
  reenter   p is handed back to yaql (a sibling Lambda/Delegate/Context parameter is called with it):
            it becomes `$`/an argument of another registered function and is type-checked again there
            (recorded, not host touching)

What the scan does (its soundness is TRUSTED - see notes/C07.md):
  * aliases `x = p`, `x = p or y`, `x = a if c else p`; parameters of nested functions called with p;
    for `*args`/`**kwargs` the host values are the ELEMENTS (`args[i]`, `for x in args`,
    `for k, v in kwargs.items()`, `kwargs.pop(..)`), not the tuple/dict itself;
  * uses under a guard that an opaque host object cannot pass (`isinstance(p, T)` with T a class an
    opaque object is not an instance of, `utils.is_*`(p)) are not uses on a host object;
  * descends into nested functions/lambdas, `super().m(..)`, and Python functions reachable by
    name from the payload's globals (visited set);
  * `self.check/_call/convert/checker/converter/validators` inside the type classes are covered by
    the rows of those methods / objects themselves.
"""
import ast
import inspect
import textwrap
import types

import common  # noqa
import pyfacts

USE_BITS = ['getattr', 'subscript', 'call', 'fmtarg', 'template', 'escape', 'strconv', 'reenter', 'probe']
TOUCH = ('getattr', 'subscript', 'call', 'fmtarg', 'template', 'escape')

# callables that never look up a *named* member on their arguments (they may run implicit
# special methods: __iter__/__len__/__bool__/__eq__/__hash__/__index__)
SAFE_CALLEES = {
    'len', 'iter', 'next', 'isinstance', 'issubclass', 'type', 'id', 'bool', 'int', 'float',
    'list', 'tuple', 'set', 'dict', 'frozenset', 'sorted', 'reversed', 'enumerate', 'zip', 'map',
    'filter', 'sum', 'min', 'max', 'any', 'all', 'abs', 'round', 'hash', 'callable', 'range',
    'divmod', 'pow', 'print',
}
SAFE_MODULES = ('builtins', 'sys', 'itertools', 'collections', 'functools', 'operator', 'math', 'random',
                'datetime', '_operator', '_functools', '_collections', '_random', 'time', 're')
STRCONV = {'str', 'repr'}
ATTR_FUNCS = {'getattr', 'hasattr', 'setattr', 'delattr'}
# methods of python containers: the value is stored / compared, not inspected by name
SAFE_METHODS = {
    'append', 'add', 'extend', 'appendleft', 'insert', 'get', 'setdefault', 'update', 'index', 'count',
    'remove', 'discard', 'pop', 'union', 'intersection', 'difference', 'symmetric_difference',
    'issubset', 'issuperset', 'join', 'items', 'keys', 'values', 'copy', 'append_field',
}
COVERED_SELF = {'check', 'convert', '_call', 'checker', 'converter', '_check_match', '_publish_params'}


class _Opaque(object):
    """an arbitrary host object: no container/number/string protocol, not yaqlized"""


class _OpaqueCallable(object):
    def __call__(self, *a, **k):
        return None


class Scan(ast.NodeVisitor):
    """uses of the names in `self.alias` inside one function body"""

    def __init__(self, func, pnames, visited, owner=None, wrappers=(), varparams=()):
        self.func = func
        self.alias = set(pnames) - set(varparams)
        self.var = set(pnames) & set(varparams)     # *args / **kwargs: the ELEMENTS are the host values
        self.uses = {}            # kind -> [detail]
        self.visited = visited
        self.owner = owner        # class defining the method (for super())
        self.wrappers = set(wrappers)   # sibling parameters holding yaql-made callables
        self.local_defs = {}

    def note(self, kind, detail):
        self.uses.setdefault(kind, [])
        if detail not in self.uses[kind]:
            self.uses[kind].append(detail)

    def is_p(self, node):
        if isinstance(node, ast.Name):
            return node.id in self.alias
        if isinstance(node, ast.Subscript) and isinstance(node.value, ast.Name) and node.value.id in self.var:
            return True           # args[i] / kwargs[k]
        if isinstance(node, ast.Call) and isinstance(node.func, ast.Attribute) and isinstance(
                node.func.value, ast.Name) and node.func.value.id in self.var and node.func.attr in ('pop', 'get'):
            return True           # kwargs.pop(k, d)
        return False

    def is_var(self, node):
        """the *args tuple / **kwargs dict itself, or a plain view of it"""
        if isinstance(node, ast.Name):
            return node.id in self.var
        if isinstance(node, ast.Call):
            f = node.func
            if isinstance(f, ast.Attribute) and f.attr in ('items', 'values') and self.is_var(f.value):
                return True
            if isinstance(f, ast.Name) and f.id in ('enumerate', 'reversed', 'list', 'tuple', 'iter') \
                    and node.args and self.is_var(node.args[0]):
                return True
        return False

    def mentions(self, node, boxed=False):
        """p appears directly or as *p / **p (boxed: also as an element of a literal tuple/list/dict,
        which is how the arguments of `%` are written; a literal container passed to a callee is a
        store, not a use)"""
        if self.is_p(node):
            return True
        if isinstance(node, ast.Starred):
            return self.mentions(node.value, True) or self.is_var(node.value)
        if boxed and isinstance(node, (ast.Tuple, ast.List)):
            return any(self.mentions(e, True) for e in node.elts)
        if boxed and isinstance(node, ast.Dict):
            return any(self.mentions(e, True) for e in node.values)
        return False

    # aliases -------------------------------------------------------------
    def collect_aliases(self, tree):
        for n in ast.walk(tree):
            if isinstance(n, ast.FunctionDef) and n is not tree:
                self.local_defs[n.name] = n
        changed = True
        while changed:
            changed = False
            for n in ast.walk(tree):
                if isinstance(n, (ast.For, ast.comprehension)) and self.is_var(n.iter):
                    for t in ast.walk(n.target):
                        if isinstance(t, ast.Name) and t.id not in self.alias:
                            self.alias.add(t.id)
                            changed = True
                if isinstance(n, ast.Call) and isinstance(n.func, ast.Name) and n.func.id in self.local_defs:
                    d = self.local_defs[n.func.id]
                    names = [x.arg for x in d.args.posonlyargs + d.args.args]
                    for i, a in enumerate(n.args):
                        if i < len(names):
                            if self.is_var(a) and names[i] not in self.var:
                                self.var.add(names[i])
                                changed = True
                            elif self.mentions(a) and names[i] not in self.alias:
                                self.alias.add(names[i])
                                changed = True
                if isinstance(n, ast.Assign) and len(n.targets) == 1 and isinstance(n.targets[0], ast.Name):
                    v = n.value
                    srcs = [v]
                    if isinstance(v, ast.BoolOp):
                        srcs = v.values
                    elif isinstance(v, ast.IfExp):
                        srcs = [v.body, v.orelse]
                    t = n.targets[0].id
                    if any(self.is_p(s) for s in srcs) and t not in self.alias:
                        self.alias.add(t)
                        changed = True
                    if any(self.is_var(s) for s in srcs) and t not in self.var:
                        self.var.add(t)
                        changed = True

    # guards --------------------------------------------------------------
    def _eval(self, node):
        try:
            return eval(compile(ast.Expression(node), '<guard>', 'eval'), dict(getattr(self.func, '__globals__', {})))
        except Exception:
            return None

    def guard_names(self, test, positive=True):
        """names an opaque host object cannot be bound to when `test` is true (positive) / false"""
        out = set()
        if isinstance(test, ast.UnaryOp) and isinstance(test.op, ast.Not):
            return self.guard_names(test.operand, not positive)
        if isinstance(test, ast.BoolOp):
            sets = [self.guard_names(v, positive) for v in test.values]
            if isinstance(test.op, ast.And) and positive or isinstance(test.op, ast.Or) and not positive:
                for x in sets:
                    out |= x
            else:
                out = set.intersection(*sets) if sets else set()
            return out
        if isinstance(test, ast.Compare) and len(test.ops) == 1 and isinstance(test.left, ast.Name) \
                and isinstance(test.comparators[0], ast.Constant) and test.comparators[0].value is None:
            # `p is None` true / `p is not None` false: p is not a host object there
            if isinstance(test.ops[0], ast.Is) and positive or isinstance(test.ops[0], ast.IsNot) and not positive:
                out.add(test.left.id)
            return out
        if not positive:
            return out
        if isinstance(test, ast.Call) and test.args and isinstance(test.args[0], ast.Name):
            target, _, owner = self.resolve(test.func)
            if isinstance(target, types.FunctionType) and self.returns_guard(target, owner, 1 if owner else 0):
                out.add(test.args[0].id)
                return out
        if isinstance(test, ast.Call) and test.args and isinstance(test.args[0], ast.Name):
            f = test.func
            name = test.args[0].id
            if isinstance(f, ast.Name) and f.id == 'isinstance' and len(test.args) == 2:
                t = self._eval(test.args[1])
                try:
                    if t is not None and not isinstance(_Opaque(), t) and not isinstance(_OpaqueCallable(), t):
                        out.add(name)
                except TypeError:
                    pass
            else:
                label = ast.unparse(f)
                if label.split('.')[-1].startswith('is_') and label.split('.')[-1] not in ('is_not',):
                    obj = self._eval(f)
                    if isinstance(obj, types.FunctionType) and obj.__module__.startswith('yaql.'):
                        try:
                            if not obj(_Opaque()) and not obj(_OpaqueCallable()):
                                out.add(name)
                        except Exception:
                            pass
        return out

    def returns_guard(self, func, owner, pos, depth=0):
        """func returns a truthy value only if its parameter number `pos` is not an opaque host object:
        its body is a single `return e` and e being true guards that parameter"""
        fn = _source_tree(func)
        if fn is None or depth > 4 or isinstance(fn, ast.Lambda):
            return False
        body = [st for st in fn.body if not (isinstance(st, ast.Expr) and isinstance(st.value, ast.Constant))]
        if len(body) != 1 or not isinstance(body[0], ast.Return) or body[0].value is None:
            return False
        names = [x.arg for x in fn.args.posonlyargs + fn.args.args]
        if pos >= len(names):
            return False
        sub = Scan(func, [names[pos]], set(), owner=owner)
        return names[pos] in sub.guard_names(body[0].value, True)

    def guarded(self, names, nodes):
        names = (names & self.alias)
        self.alias -= names
        try:
            for n in nodes:
                self.visit(n)
        finally:
            self.alias |= names

    def visit_If(self, node):
        self.visit(node.test)
        self.guarded(self.guard_names(node.test, True), node.body)
        self.guarded(self.guard_names(node.test, False), node.orelse)

    def visit_IfExp(self, node):
        self.visit(node.test)
        self.guarded(self.guard_names(node.test, True), [node.body])
        self.guarded(self.guard_names(node.test, False), [node.orelse])

    def visit_BoolOp(self, node):
        acc = set()
        for v in node.values:
            self.guarded(acc, [v])
            acc = acc | self.guard_names(v, isinstance(node.op, ast.And))

    # visitors ------------------------------------------------------------
    def visit_Attribute(self, node):
        if self.is_p(node.value):
            if node.attr in ('format', 'format_map'):
                self.note('template', '.' + node.attr)
            else:
                self.note('getattr', '.' + node.attr)
        self.generic_visit(node)

    def visit_Subscript(self, node):
        if self.is_p(node.value):
            self.note('subscript', '[]')
        self.generic_visit(node)

    def visit_BinOp(self, node):
        if isinstance(node.op, ast.Mod):
            lit = isinstance(node.left, ast.Constant) and isinstance(node.left.value, str)
            if self.is_p(node.left):
                self.note('template', '%')
            if self.mentions(node.right, True):
                if lit:
                    self.note('strconv', '%-literal')
                elif not isinstance(node.left, ast.Name):
                    # `a % b` on two plain names is arithmetic in these payloads; the decisive fact is
                    # `template` on the left name
                    self.note('fmtarg', '%')
        self.generic_visit(node)

    def visit_JoinedStr(self, node):
        for v in node.values:
            if isinstance(v, ast.FormattedValue) and self.mentions(v.value):
                self.note('strconv', 'f-string')
        self.generic_visit(node)

    def visit_Call(self, node):
        f = node.func
        if isinstance(f, ast.Name) and f.id == 'map' and len(node.args) == 2 \
                and ast.unparse(node.args[1]) == 'self.validators':
            return            # every validator function object has its own <validator> row
        args = list(node.args) + [k.value for k in node.keywords]
        hit = [i for i, a in enumerate(args) if self.mentions(a)]
        if self.is_p(f):
            self.note('call', '()')
        if hit:
            if isinstance(f, ast.Name) and f.id in ATTR_FUNCS and hit[0] == 0:
                self.note('getattr', f.id)
            elif isinstance(f, ast.Name) and f.id in STRCONV:
                self.note('strconv', f.id)
            elif isinstance(f, ast.Name) and f.id in SAFE_CALLEES and f.id not in self.local_defs:
                pass
            elif isinstance(f, ast.Name) and f.id in self.local_defs:
                pass          # bound as alias of the nested function's parameter
            elif isinstance(f, ast.Name) and f.id in self.wrappers:
                self.note('reenter', f.id)
            elif isinstance(f, ast.Call) and isinstance(f.func, ast.Name) and f.func.id in self.wrappers:
                self.note('reenter', f.func.id)      # context(name, engine, receiver)(*args)
            elif isinstance(f, ast.Attribute) and f.attr in ('format', 'format_map') and not self.is_p(f.value):
                if isinstance(f.value, ast.Constant) and isinstance(f.value.value, str):
                    self.note('strconv', 'literal.format')
                else:
                    self.note('fmtarg', '.format')
            elif self.is_p(f) or (isinstance(f, ast.Attribute) and self.is_p(f.value)):
                pass          # p(..p..) / p.m(..p..): already recorded on p
            else:
                self.follow(f, node, hit)
        self.generic_visit(node)

    def follow(self, f, call, hit):
        target, label, owner = self.resolve(f)
        if target == 'safe':
            return
        if isinstance(target, types.FunctionType) and target.__module__ == 'yaql.yaqlization' \
                and target.__name__ in ('get_yaqlization_settings', 'is_yaqlized'):
            self.note('probe', label)
            return
        if target is None:
            if isinstance(f, ast.Attribute) and f.attr in SAFE_METHODS:
                return
            self.note('escape', label)
            return
        skip_self = 1 if owner is not None else 0
        key = (target, tuple(hit))
        if key in self.visited:
            return
        self.visited.add(key)
        sub = scan_function(target, positions=[h + skip_self for h in hit],
                            keywords=[k.arg for k in call.keywords],
                            nargs=len(call.args) + skip_self, visited=self.visited, owner=owner)
        if sub is None:
            self.note('escape', label)
            return
        for kind, details in sub.items():
            for d in details:
                self.note(kind, label + '>' + d)

    def resolve(self, f):
        """-> (python function | 'safe' | None, label, owner class for methods)"""
        g = getattr(self.func, '__globals__', {})
        label = ast.unparse(f)
        obj = None
        if isinstance(f, ast.Attribute) and isinstance(f.value, ast.Call) and isinstance(
                f.value.func, ast.Name) and f.value.func.id == 'super' and self.owner is not None:
            mro = self.owner.__mro__
            for k in mro[mro.index(self.owner) + 1:]:
                m = k.__dict__.get(f.attr)
                if m is not None:
                    m = m.__func__ if isinstance(m, (staticmethod, classmethod)) else m
                    if isinstance(m, types.FunctionType):
                        return m, label, k
                    return 'safe', label, None           # object.__init__ and friends
            return None, label, None
        if isinstance(f, ast.Attribute) and isinstance(f.value, ast.Name) and f.value.id == 'self' \
                and self.owner is not None and f.attr in COVERED_SELF:
            return 'safe', label, None                    # has its own rows
        if isinstance(f, ast.Name):
            obj = g.get(f.id, None)
        elif isinstance(f, ast.Attribute):
            base = self._eval(f.value) if isinstance(f.value, (ast.Name, ast.Attribute)) and not any(
                isinstance(n, ast.Name) and n.id not in g for n in ast.walk(f.value)) else None
            if isinstance(base, types.ModuleType) or isinstance(base, type):
                obj = getattr(base, f.attr, None)
        if obj is None:
            return None, label, None
        if isinstance(obj, types.FunctionType):
            if obj.__module__.startswith('yaql'):
                return obj, label, None
            if obj.__module__.split('.')[0] in SAFE_MODULES:
                return 'safe', label, None
            return None, label, None
        name = getattr(obj, '__name__', '')
        mod = getattr(obj, '__module__', None) or ''
        if isinstance(obj, types.MethodType):            # e.g. random.randint (bound to the module's Random())
            mod = type(obj.__self__).__module__
        if name in SAFE_CALLEES or name in STRCONV:
            return 'safe', label, None
        if mod.split('.')[0] in SAFE_MODULES:
            return 'safe', label, None
        if isinstance(obj, type) and mod.startswith('yaql'):
            init = obj.__dict__.get('__init__')
            if isinstance(init, types.FunctionType):
                return init, label, obj
            return 'safe', label, None
        return None, label, None


_MODULE_TREES = {}


def _source_tree(func):
    """the FunctionDef / Lambda node of `func`, looked up in the AST of its source file by first line
    and argument names"""
    try:
        path = inspect.getsourcefile(func)
        if path not in _MODULE_TREES:
            _MODULE_TREES[path] = ast.parse(open(path).read())
        tree = _MODULE_TREES[path]
    except (OSError, TypeError, SyntaxError):
        return None
    code = func.__code__
    first = code.co_firstlineno
    nargs = code.co_argcount + code.co_kwonlyargcount
    want = list(code.co_varnames[:nargs])
    for n in ast.walk(tree):
        if isinstance(n, ast.FunctionDef) and n.name == func.__name__:
            start = min([n.lineno] + [d.lineno for d in n.decorator_list])
            have = [a.arg for a in n.args.posonlyargs + n.args.args + n.args.kwonlyargs]
            if start == first and have == want:
                return n
        elif isinstance(n, ast.Lambda) and func.__name__ == '<lambda>' and n.lineno == first:
            if [a.arg for a in n.args.posonlyargs + n.args.args + n.args.kwonlyargs] == want:
                return n
    return None


def scan_function(func, pname=None, positions=None, keywords=None, nargs=0, visited=None, owner=None,
                  wrappers=(), varparams=None):
    """uses of parameter `pname` (or of the parameters at call `positions`) in func's source"""
    fn = _source_tree(func)
    if fn is None:
        return None
    a = fn.args
    allp = [x.arg for x in a.posonlyargs + a.args]
    vp = set()
    if a.vararg:
        vp.add(a.vararg.arg)
    if a.kwarg:
        vp.add(a.kwarg.arg)
    if pname is not None:
        names = [pname]
    else:
        names = []
        for i in positions or []:
            if i < nargs:
                if i < len(allp):
                    names.append(allp[i])
                elif a.vararg:
                    names.append(a.vararg.arg)
            else:
                kws = keywords or []
                kw = kws[i - nargs] if i - nargs < len(kws) else None
                if kw is not None and kw in allp + [x.arg for x in a.kwonlyargs]:
                    names.append(kw)
                elif a.kwarg:
                    names.append(a.kwarg.arg)
        if not names:
            return {}
    sc = Scan(func, names, visited if visited is not None else set(), owner=owner, wrappers=wrappers,
              varparams=vp if varparams is None else varparams)
    sc.collect_aliases(fn)
    body = fn.body if isinstance(fn.body, list) else [fn.body]
    for st in body:
        sc.visit(st)
    return sc.uses


# ---------------------------------------------------------------------------

def registry():
    import yaql
    ctx = yaql.create_context()
    out = []
    c, depth = ctx, 0
    while c is not None:
        for name in sorted(c._functions):
            fds = sorted(c._functions[name], key=lambda fd: (
                getattr(fd.payload, '__module__', ''), getattr(fd.payload, '__qualname__', ''),
                len(fd.parameters), sorted(str(k) for k in fd.parameters)))
            for fd in fds:
                out.append((depth, name, fd))
        c = c.parent
        depth += 1
    return ctx, out


def yaqlized_flags(vt):
    cell = {n: c.cell_contents for n, c in zip(vt.checker.__code__.co_freevars, vt.checker.__closure__)}
    return (bool(cell['can_access_attributes']), bool(cell['can_call_methods']), bool(cell['can_index']))


def admits_opaque(vt, ctx, engine):
    for probe in (_Opaque(), _OpaqueCallable()):
        try:
            if vt.check(probe, ctx, engine):
                return True
        except Exception:
            return True          # a check that blows up on a host object is not a refusal
    return False


def admits_str(vt, ctx, engine):
    try:
        return bool(vt.check('x', ctx, engine))
    except Exception:
        return True


def type_class(vt, ctx, engine):
    """(type name, 'open'|'closed'|'hidden'|'converted', yaqlized flags or None)"""
    from yaql.language import yaqltypes
    from yaql.standard_library import yaqlized as yz
    name = type(vt).__name__
    if type(vt) is yaqltypes.PythonType:
        pt = vt.python_type
        name = 'PythonType(%s)' % (pt.__name__ if isinstance(pt, type) else
                                    ','.join(getattr(t, '__name__', '?') for t in pt))
    if isinstance(vt, yaqltypes.HiddenParameterType):
        return name, 'hidden', None
    if isinstance(vt, yz.Yaqlized):
        return name, 'yaqlized', yaqlized_flags(vt)
    if not admits_opaque(vt, ctx, engine):
        return name, 'closed', None
    if isinstance(vt, yaqltypes.Lambda):
        # the payload receives the closure made by Lambda.convert, never the raw value: what happens
        # to a host value is in the rows of Lambda.convert / Lambda._call
        return name, 'converted', None
    return name, 'open', None


WRAPPER_TYPES = ('Lambda', 'Delegate', 'Super', 'Context', 'YaqlInterface')


def facts():
    return [r for g in fact_groups() for r in g['rows']]


def fact_groups():
    import yaql
    ctx, fds = registry()
    engine = yaql.YaqlFactory().create()
    groups = []
    for depth, name, fd in fds:
        rows = []
        payload = fd.payload
        qual = '%s.%s' % (getattr(payload, '__module__', '?'), getattr(payload, '__qualname__', '?'))
        params = sorted(fd.parameters.values(), key=lambda p: (p.position is None, p.position or 0, str(p.name)))
        wrappers = [p.name for p in params if type(p.value_type).__name__ in WRAPPER_TYPES]
        for p in params:
            tname, cls, flags = type_class(p.value_type, ctx, engine)
            uses = scan_function(payload, pname=p.name, visited=set(), wrappers=wrappers)
            if uses is None:
                uses = {'escape': ['<no source>']}
            rows.append(dict(fn=name, payload=qual, param=str(p.name), ty=tname, cls=cls, flags=flags, uses=uses,
                             admits_str=(cls != 'hidden' and admits_str(p.value_type, ctx, engine))))
        groups.append(dict(fn=name, payload=qual, rows=rows))
    return groups


def conversion_facts():
    """the smart-type objects see the argument before the payload: rows for the `value` argument of
    every method of every yaqltypes class in the MRO of a registry parameter type, and for the first
    argument of every checker / converter / validator function object found on those instances"""
    from yaql.language import yaqltypes
    ctx, fds = registry()
    import yaql
    engine = yaql.YaqlFactory().create()
    classes, open_classes, funcs = [], set(), {}
    for _, _, fd in fds:
        for p in fd.parameters.values():
            vt = p.value_type
            hidden = isinstance(vt, yaqltypes.HiddenParameterType)
            is_open = (not hidden) and admits_opaque(vt, ctx, engine)
            stack = [vt]
            while stack:
                t = stack.pop()
                for k in type(t).__mro__:
                    if k.__module__.startswith('yaql') and k not in classes:
                        classes.append(k)
                    if is_open:
                        open_classes.add(k)
                for attr, role in (('checker', 'checker'), ('converter', 'converter')):
                    f = getattr(t, attr, None)
                    if isinstance(f, types.FunctionType):
                        funcs.setdefault((role, f.__code__), (f, type(t), False))
                        if is_open:
                            funcs[(role, f.__code__)] = (f, type(t), True)
                pt = getattr(t, 'python_type', None)
                for f in getattr(t, 'validators', None) or []:
                    # validators run only after isinstance(value, python_type) held
                    try:
                        vopen = isinstance(_Opaque(), pt) or isinstance(_OpaqueCallable(), pt)
                    except TypeError:
                        vopen = True
                    if isinstance(f, types.FunctionType):
                        prev = funcs.get(('validator', f.__code__))
                        funcs[('validator', f.__code__)] = (f, type(t), vopen or bool(prev and prev[2]))
                stack.extend(getattr(t, 'types', None) or [])
                st = getattr(t, 'smart_type', None)
                if st is not None:
                    stack.append(st)
    rows = []
    for k in sorted(classes, key=lambda k: (k.__module__, k.__name__)):
        hidden = issubclass(k, yaqltypes.HiddenParameterType)
        for mname, m in sorted(k.__dict__.items()):
            f = m.__func__ if isinstance(m, (staticmethod, classmethod)) else m
            if not isinstance(f, types.FunctionType) or mname == '__init__':
                continue
            argnames = f.__code__.co_varnames[:f.__code__.co_argcount]
            if 'value' not in argnames:
                continue
            uses = scan_function(f, pname='value', visited=set(), owner=k)
            if uses is None:
                uses = {'escape': ['<no source>']}
            # `check` is what decides: it sees every value.  Everything else runs after a successful check.
            if hidden:
                cls = 'hidden'
            elif mname == 'check' or k in open_classes:
                cls = 'open'
            else:
                cls = 'closed'
            rows.append(dict(fn='<type>', payload='%s.%s.%s' % (k.__module__, k.__name__, mname), param='value',
                             ty=k.__name__, cls=cls, flags=None, uses=uses, admits_str=True))
    for (role, code), (f, tcls, is_open) in sorted(funcs.items(), key=lambda kv: (
            kv[0][0], kv[1][0].__module__, kv[1][0].__qualname__, kv[1][0].__code__.co_firstlineno)):
        argnames = f.__code__.co_varnames[:f.__code__.co_argcount]
        if not argnames:
            continue
        uses = scan_function(f, pname=argnames[0], visited=set())
        if uses is None:
            uses = {'escape': ['<no source>']}
        rows.append(dict(fn='<%s>' % role, payload='%s.%s' % (f.__module__, f.__qualname__),
                         param=argnames[0], ty=tcls.__name__, line=code.co_firstlineno,
                         cls='open' if (role == 'checker' or is_open) else 'closed', flags=None, uses=uses,
                         admits_str=True))
    return rows


def keyword_regex_source():
    from yaql.language import lexer
    return lexer.Lexer.t_KEYWORD_STRING.__doc__.strip()


def lean_row(r):
    bits = ', '.join('.' + k for k in USE_BITS if k in r['uses'])
    cls = '.' + r['cls']
    if r['cls'] == 'yaqlized':
        cls = '.yaqlized %s %s %s' % tuple('true' if b else 'false' for b in r['flags'])
    return '{ fn := %s.toList, payload := %s.toList, param := %s.toList, ty := %s, admitsStr := %s, uses := [%s] }' % (
        pyfacts.lean_str(r['fn']), pyfacts.lean_str(r['payload']), pyfacts.lean_str(r['param']), cls,
        'true' if r.get('admits_str') else 'false', bits)


def touching(rows):
    return [r for r in rows if r['cls'] == 'open' and any(k in r['uses'] for k in TOUCH)]


@pyfacts.generator('HostFacts')
def gen():
    groups = fact_groups()
    rows = [r for g in groups for r in g['rows']]
    trows = conversion_facts()
    kw = keyword_regex_source()
    body = ['import Yaql.Model.Yaqlized', 'namespace Yaql.Gen.HostFacts', 'open Yaql.Yaqlized', '',
            '/-- every FunctionDefinition registered in yaql.create_context() (all layers), with every',
            '    parameter (explicit and hidden) in positional order -/',
            'def registry : List FnDef := [']
    body.append(',\n'.join(
        '  { name := %s.toList, payload := %s.toList, params := [\n    %s] }' % (
            pyfacts.lean_str(g['fn']), pyfacts.lean_str(g['payload']),
            ',\n    '.join(lean_row(r) for r in g['rows'])) for g in groups))
    body += [']', '', '/-- one row per (FunctionDefinition, parameter) -/',
             'def rows : List FactRow := registry.flatMap (fun f => f.params)', '', '/-- the argument as seen by the smart-type objects: methods, checkers, converters, validators -/',
             'def typeRows : List FactRow := [']
    body.append(',\n'.join('  ' + lean_row(r) for r in trows))
    body += [']', '', '/-- source of the KEYWORD_STRING token rule (docstring of Lexer.t_KEYWORD_STRING) -/',
             'def keywordRegex : List Char := %s' % pyfacts.lean_chars(kw), '',
             'def functionDefinitions : Nat := %d' % len(groups), '',
             'end Yaql.Gen.HostFacts', '']
    changed = pyfacts.emit('HostFacts', '\n'.join(body))
    return dict(rows=len(rows), type_rows=len(trows), keyword_regex=kw, changed=changed,
                function_definitions=len(groups),
                open_rows=len([r for r in rows if r['cls'] == 'open']),
                yaqlized_rows=[(r['payload'], r['param'], list(r['flags']), sorted(r['uses'])) for r in rows
                               if r['cls'] == 'yaqlized'],
                open_touching=[(r['payload'], r['param'], {k: v for k, v in r['uses'].items() if k in TOUCH})
                               for r in touching(rows + trows)])


if __name__ == '__main__':
    import json
    import sys
    rs = facts() + conversion_facts()
    for r in rs:
        if r['cls'] in ('open', 'yaqlized') and set(r['uses']) - {'strconv'}:
            print(r['fn'], r['payload'], r['param'], r['ty'], r['cls'], r['flags'], json.dumps(r['uses']))
    print(len(rs), file=sys.stderr)
