"""Generator of lean/Yaql/Gen/LazySpell.lean: every LAZILY evaluated parameter (Lambda / MappingRule / YaqlExpression
typed) of every definition of `yaql.create_context()` as found in contexts of every naming convention (fresh
interpreters, two creation orders): the keyword name it is passed by there (`p.alias or p.name`), the alias the
source text of the decorator declares, and the keyword names of the other parameters of the same definition.
`Props/C11Gen.lean` proves on it that the keyword spelling of every lazy parameter exists and is unambiguous."""
import pyfacts
from gens import registry as greg

SCENARIOS = (('camel', 'python', 'none'), ('python', 'none', 'camel'))


def rows():
    out, seen = [], set()
    for sc, ctxs in greg.dump_scenarios(SCENARIOS):
        for c in ctxs:
            for d in c['defs']:
                named = [p for p in d['params'] if not p['hidden'] and p['key'] not in ('*', '**')]
                for p in d['params']:
                    if not p.get('lazy') or p['hidden']:
                        continue
                    r = (c['conv'], d['reg'], p['name'], p['decl'], p['alias'] or p['name'],
                         tuple((q['alias'] or q['name']) for q in named if q is not p), p['key'] in ('*', '**'))
                    if r not in seen:
                        seen.add(r)
                        out.append(r)
    return sorted(out, key=repr)


@pyfacts.generator('LazySpell')
def gen_lazy_spell():
    rs = rows()
    body = ('import Yaql.Model.Naming\n'
            '/-! the lazily evaluated parameters of the library under every naming convention (%d rows) -/\n'
            'namespace Yaql.Gen.LazySpell\nopen Yaql.Types Yaql.Naming\n\n'
            'structure LazyRow where\n'
            '  conv : Option Conv           -- convention of the context the definition was found in\n'
            '  regName : Name               -- the name it is registered under there\n'
            '  param : Name                 -- python name of the lazily evaluated parameter\n'
            '  declAlias : Option Name      -- alias written in the source text of the decorator\n'
            '  keyword : Name               -- the name the argument is passed by there (`p.alias or p.name`)\n'
            '  others : List Name           -- the names the other parameters of the definition are passed by\n'
            '  star : Bool                  -- `*args`: arguments reach it positionally only\n'
            'deriving Repr, DecidableEq, Inhabited\n\n'
            'def lazyRows : List LazyRow := [\n%s\n]\n\nend Yaql.Gen.LazySpell\n') % (len(rs), ',\n'.join(
                '  { conv := %s, regName := %s, param := %s, declAlias := %s, keyword := %s,\n    others := [%s], star := %s }' % (
                    'none' if c == 'none' else 'some .' + c, greg.lchars(reg), greg.lchars(name), greg._opt(decl),
                    greg.lchars(kw), ', '.join(greg.lchars(o) for o in others), 'true' if star else 'false')
                for c, reg, name, decl, kw, others, star in rs))
    changed = pyfacts.emit('LazySpell', body)
    return dict(rows=len(rs), by_convention={c: len([r for r in rs if r[0] == c]) for c in greg.CONVS},
                keyword_spellings=len([r for r in rs if not r[6]]), rewritten=changed)
