"""Generator of lean/Yaql/Gen/RegistryTypes.lean: EVERY FunctionDefinition of `yaql.create_context()` (all layers) with
the EXACT smart type of every parameter as a term of `Yaql.Types.PTy` over a CLOSED class universe, in the form the
overload-resolution model `Yaql.Resolve.resolve` takes:

* the class universe = every Python class a parameter type of the registry mentions (`PythonType.python_type`, singly
  or as a tuple) + `object` + the classes of the probe values of every evaluator KIND + the classes of parameter
  defaults, the `NO_VALUE` marker and `utils.MappingRule`; `sub` = `issubclass` on the live classes (ABCs with their
  registered virtual subclasses included);
* validators are identified by BEHAVIOUR: every validator callable of every `PythonType` (and the checker of every
  other `GenericType`, e.g. `Yaqlized`) is run on the probe corpus; two validators with the same verdict vector are one
  validator id (so the lambdas are exercised, not read);
* expression classes (`Constant`, `KeywordConstant`, `Function`, `BinaryOperator` ...) are identified by the verdicts
  of every `YaqlExpression` type of the registry on a blank instance: classes no registered type tells apart share an id;
* the evaluator KINDS (`Yaql.EvalDispatch.Kind`): for each kind a list of probe values; all probes of a kind must have
  the same verdicts of `isinstance` against every class the registry mentions and of every validator (`uniform`);
  the kind's class is the class of its first probe;
* layer structure (index 0 = the context `create_context()` returns, then its parents) and `_exclusive_funcs`.

A `GenericType` that is no `PythonType` (`Yaqlized`) neither specializes nor is specialized: it is emitted as
`py (.many [object]) false [checker]` (a tuple-typed `PythonType` is never ordered either, `Types.isSpecializationOf`).
`Iterable.check` is PythonType's under the default engine options (`yaql.iterableDicts` off)."""
import collections.abc
import datetime
import itertools

import common  # noqa: F401
import pyfacts
import yaql
from yaql.language import contexts, expressions, specs, utils, yaqltypes
from yaql.standard_library import queries

from gens import registry, scalarops

lchars = registry.lchars


class Unsupported(Exception):
    pass


class Host(object):
    """an opaque host object: related to no class the registry mentions except `object`"""


def _gen():
    yield 1


# the evaluator kinds, in the order of the constructors of Yaql.EvalDispatch.Kind
def kind_probes():
    oi = queries.OrderingIterable((2, 1), lambda a, b: a < b, lambda a, b: a > b)
    oi.append_field(lambda x: x, True)
    its = lambda: [iter(()), iter([1]), _gen(), map(abs, (1,)), filter(None, (1,)), itertools.islice((1, 2), 1),  # noqa: E731
                   itertools.chain((1,), (2,)), itertools.takewhile(bool, (1,)), itertools.dropwhile(bool, (1,)),
                   iter(utils.FrozenDict({'a': 1})), iter({'a': 1}.items()), enumerate((1,)), zip((1,), (2,))]
    return [
        ('null', [None]),
        ('bool', [True, False]),
        ('int', [0, 1, -1, 2 ** 70, -2 ** 63]),
        ('float', [0.0, -0.0, 1.5, float('inf'), float('nan')]),
        ('str', ['', 'a', 'abé', '0']),
        ('tuple', [(), (1, 2), ('a',)]),
        ('list', [[], [1, 2]]),
        ('dict', [utils.FrozenDict({}), utils.FrozenDict({'a': 1})]),      # what convert_input_data / dict() / {..} make
        ('set', [frozenset(), frozenset([1]), set(), {1}]),
        ('iter', its()),
        ('lazy', its()),
        ('ordered', [oi]),
        ('ctx', [contexts.Context(), yaql.create_context(), contexts.Context().create_child_context()]),
        ('host', [Host(), object()]),
    ]


EXTRA_PROBES = [utils.NO_VALUE, utils.MappingRule(None, None), datetime.datetime(2020, 1, 1), datetime.timedelta(1)]


def expression_classes():
    """the expression classes of yaql.language.expressions, in a fixed order, each with a blank-ish instance"""
    c = expressions.Constant(1)
    mk = [
        ('constant', expressions.Constant, lambda: expressions.Constant(1)),
        ('keywordConstant', expressions.KeywordConstant, lambda: expressions.KeywordConstant('k')),
        ('getContextValue', expressions.GetContextValue, lambda: expressions.GetContextValue(expressions.Constant('$'))),
        ('function', expressions.Function, lambda: expressions.Function('f')),
        ('binaryOperator', expressions.BinaryOperator, lambda: expressions.BinaryOperator('+', c, c, None)),
        ('unaryOperator', expressions.UnaryOperator, lambda: expressions.UnaryOperator('-', c, None)),
        ('indexExpression', expressions.IndexExpression, lambda: expressions.IndexExpression(c, c)),
        ('listExpression', expressions.ListExpression, lambda: expressions.ListExpression(c)),
        ('mapExpression', expressions.MapExpression, lambda: expressions.MapExpression()),
        ('mappingRule', expressions.MappingRuleExpression, lambda: expressions.MappingRuleExpression(c, c)),
        ('wrap', expressions.Wrap, lambda: expressions.Wrap(c)),
    ]
    return [(n, cls, f()) for n, cls, f in mk]


class Universe:
    def __init__(self, defs):
        self.defs = defs
        self.kinds = kind_probes()
        self.probes = [v for _, vs in self.kinds for v in vs] + list(EXTRA_PROBES)
        self.classes = []
        self.mentioned = []          # classes a parameter type mentions
        self.cls(object)
        self.note(object)
        self.vvecs = []              # verdict vectors, index = validator id
        self.vnames = []
        self.raises = []
        self.exprs = expression_classes()
        ye = []
        for _, _, fd in defs:
            for p in fd.parameters.values():
                t = p.value_type
                if isinstance(t, yaqltypes.PythonType):
                    for c in (t.python_type if isinstance(t.python_type, tuple) else (t.python_type,)):
                        self.note(c)
                elif isinstance(t, yaqltypes.YaqlExpression):
                    ye.append(t)
                if p.default is not specs.NO_DEFAULT and p.default is not None and p.default is not utils.NO_VALUE:
                    self.probes.append(p.default)
        for v in self.probes:
            self.cls(type(v))
        # expression classes no YaqlExpression type of the registry tells apart share an id
        sig = {}
        self.ek_id = {}
        for n, cls, inst in self.exprs:
            verdicts = tuple(bool(t.check(inst, None, None)) for t in ye)
            self.ek_id[n] = sig.setdefault(verdicts, len(sig))
        self.ek_by_cls = {cls: self.ek_id[n] for n, cls, _ in self.exprs}

    def cls(self, c):
        for i, x in enumerate(self.classes):
            if x is c:
                return i
        self.classes.append(c)
        return len(self.classes) - 1

    def note(self, c):
        i = self.cls(c)
        if i not in self.mentioned:
            self.mentioned.append(i)
        return i

    def validator(self, f, label):
        vec = []
        for v in self.probes:
            try:
                vec.append(bool(f(v)))
            except Exception:       # noqa - the real check would raise out of the resolution
                vec.append(None)
        vec = tuple(vec)
        if vec not in self.vvecs:
            self.vvecs.append(vec)
            self.vnames.append(label)
            if None in vec:
                self.raises.append(label)
        return self.vvecs.index(vec)

    def passes(self, v):
        i = next(i for i, x in enumerate(self.probes) if x is v)
        return [k for k, vec in enumerate(self.vvecs) if vec[i] is True]

    def val(self, v, tag=0):
        if v is None:
            return '.none'
        return '.obj %d [%s] %d' % (self.cls(type(v)), ', '.join(map(str, self.passes(v))), tag)

    def profile(self, v):
        """what the parameter types of the registry can see of a value"""
        if v is None:
            return ('none',)
        return (tuple(isinstance(v, self.classes[i]) for i in self.mentioned), tuple(self.passes(v)))

    # ---- smart types -> PTy

    def pty(self, t, where):
        if isinstance(t, yaqltypes.HiddenParameterType):
            h = {yaqltypes.Context: 'context', yaqltypes.Engine: 'engine', yaqltypes.Receiver: 'receiver',
                 yaqltypes.Super: 'super', yaqltypes.Delegate: 'delegate', yaqltypes.FunctionDefinition: 'fdef',
                 yaqltypes.YaqlInterface: 'yaqlInterface'}.get(type(t))
            if h is None:
                raise Unsupported('%s: hidden type %s' % (where, type(t).__name__))
            return '.hidden .%s' % h
        if isinstance(t, yaqltypes.Lambda):
            return '.lambda %s' % ('true' if t.method else 'false')
        if isinstance(t, yaqltypes.MappingRule):
            return '.mappingRule'
        if isinstance(t, yaqltypes.YaqlExpression):
            ks = sorted({self.ek_id[n] for n, _, inst in self.exprs if t.check(inst, None, None)})
            if len(ks) == len(set(self.ek_id.values())):
                ks = []
            elif not ks:
                raise Unsupported('%s: YaqlExpression that accepts no parser expression' % where)
            return '.yaqlExpr [%s]' % ', '.join(map(str, ks))
        if type(t) is yaqltypes.Keyword:
            return '.keyword'
        if isinstance(t, yaqltypes.Constant):
            kind = {yaqltypes.StringConstant: 'string', yaqltypes.BooleanConstant: 'boolean',
                    yaqltypes.NumericConstant: 'numeric', yaqltypes.Constant: 'any'}.get(type(t))
            if kind is None:
                raise Unsupported('%s: constant type %s' % (where, type(t).__name__))
            return '.constant %s .%s' % ('true' if t.nullable else 'false', kind)
        if isinstance(t, yaqltypes.PythonType):
            if type(t).check not in (yaqltypes.GenericType.check, yaqltypes.Iterable.check):
                raise Unsupported('%s: %s overrides check' % (where, type(t).__name__))
            if type(t).is_specialization_of is not yaqltypes.PythonType.is_specialization_of:
                raise Unsupported('%s: %s overrides is_specialization_of' % (where, type(t).__name__))
            vs = [self.validator(f, '%s#%d' % (where, i)) for i, f in enumerate(t.validators)]
            if isinstance(t.python_type, tuple):
                pc = '.many [%s]' % ', '.join(str(self.cls(c)) for c in t.python_type)
            else:
                pc = '.one %d' % self.cls(t.python_type)
            return '.py (%s) %s [%s]' % (pc, 'true' if t.nullable else 'false', ', '.join(map(str, vs)))
        if isinstance(t, yaqltypes.GenericType):
            if type(t).check is not yaqltypes.GenericType.check or \
                    type(t).is_specialization_of is not yaqltypes.SmartType.is_specialization_of:
                raise Unsupported('%s: %s overrides check / is_specialization_of' % (where, type(t).__name__))
            vs = [] if t.checker is None else [self.validator(lambda v, t=t: t.checker(v, None), where + '#checker')]
            return '.py (.many [%d]) %s [%s]' % (self.cls(object), 'true' if t.nullable else 'false',
                                                ', '.join(map(str, vs)))
        raise Unsupported('%s: smart type %s' % (where, type(t).__name__))

    def default(self, d):
        if d is specs.NO_DEFAULT:
            return 'none'
        if d is utils.NO_VALUE:
            return 'some .noValue'
        if isinstance(d, expressions.Expression):
            raise Unsupported('expression as a default')
        return 'some (.value (%s))' % self.val(d, 1)


def codes(s):
    return '[' + ', '.join(str(ord(c)) for c in s) + ']'


# the callees of Yaql.EvalDispatch.Callee with a fixed name (constructor term -> registered name); mirrors
# `Callee.name` (theorem C04DispatchGen.callee_groups checks the names)
BIN = [('add', '#operator_+'), ('sub', '#operator_-'), ('mul', '#operator_*'), ('eq', '*equal'), ('ne', '*not_equal'),
       ('lt', '#operator_<'), ('le', '#operator_<='), ('gt', '#operator_>'), ('ge', '#operator_>='),
       ('and', '#operator_and'), ('or', '#operator_or')]
FNS = [('let_', 'let'), ('with_', 'with'), ('def_', 'def'), ('list', 'list'), ('dict', 'dict'), ('unpack', 'unpack'),
       ('select', 'select'), ('where_', 'where'), ('selectMany', 'selectMany'), ('orderBy', 'orderBy'),
       ('orderByDescending', 'orderByDescending'), ('takeWhile', 'takeWhile'), ('skipWhile', 'skipWhile'),
       ('indexWhere', 'indexWhere'), ('toDict', 'toDict'), ('aggregate', 'aggregate'), ('sum', 'sum'),
       ('first', 'first'), ('toList', 'toList'), ('take', 'take'), ('skip', 'skip'), ('get', 'get'), ('len', 'len'),
       ('any', 'any'), ('all', 'all')]
CALLEES = ([('.getContextData', '#get_context_data'), ('.list', '#list'), ('.map', '#map'), ('.indexer', '#indexer'),
            ('.dot', '#operator_.'), ('.arrow', '#operator_->'), ('.un .not', '#unary_operator_not'),
            ('.un .neg', '#unary_operator_-')] +
           [('.bin .%s' % c, n) for c, n in BIN] + [('.fn .%s' % c, n) for c, n in FNS])


def payload_name(fd):
    return fd.payload.__module__.split('.')[-1] + '.' + fd.payload.__name__


def build():
    ctx = yaql.create_context()
    defs = registry.all_definitions(ctx)
    U = Universe(defs)
    for li, name, fd in defs:        # first pass: every validator gets its id before any value is described
        for p in fd.parameters.values():
            U.pty(p.value_type, '%s|%s.%s' % (name, payload_name(fd), p.name))
    rows = []
    for i, (li, name, fd) in enumerate(defs):
        ps = []
        for key, p in fd.parameters.items():
            where = '%s|%s.%s' % (name, payload_name(fd), p.name)
            k = '.star' if key == '*' else '.starstar' if key == '**' else '.name %s' % lchars(key)
            ps.append('{ key := %s, name := %s, alias := %s, position := %s, default := %s,\n        ty := %s }' % (
                k, lchars(p.name), 'none' if not p.alias else 'some ' + lchars(p.alias),
                'none' if p.position is None else 'some %d' % p.position, U.default(p.default),
                U.pty(p.value_type, where)))
        rows.append(dict(layer=li, name=name, payload=payload_name(fd), fd=fd, text=(
            '/-- %s | %s -/\ndef d%d : GDef :=\n  { layer := %d, payload := %s,\n    fd := { id := %d, isFunction := %s, isMethod := %s, '
            'noKwargs := %s, params := [\n      %s] } }' % (
                name, payload_name(fd), i, li, codes(payload_name(fd)), i, 'true' if fd.is_function else 'false',
                'true' if fd.is_method else 'false', 'true' if fd.no_kwargs else 'false', ',\n      '.join(ps)))))
    # the validators are all known now: kinds
    kinds, nonuniform = [], []
    for kname, vs in U.kinds:
        profs = {U.profile(v) for v in vs}
        if len(profs) != 1:
            nonuniform.append(kname)
        kinds.append((kname, vs[0]))
    excl, c, li = [], ctx, 0
    while c is not None:
        for n in sorted(getattr(c, '_exclusive_funcs', ())):
            excl.append((li, n))
        c = c.parent
        li += 1
    return dict(U=U, rows=rows, kinds=kinds, nonuniform=nonuniform, exclusive=excl, layers=li, ctx=ctx)


LITS = [('null', None), ('bool', True), ('int', 1), ('float', 1.5), ('str', 'a')]


def reps_rows(b):
    """per call site: which argument shapes the live parameter types of the group cannot tell apart"""
    from yaql.language import factory
    eng = factory.YaqlFactory().create()
    ctx = b['ctx']
    kinds = b['kinds']
    fn_node = expressions.Function('f')
    other_node = expressions.GetContextValue(expressions.Constant('$'))
    out, pre = [], []
    for term, nm in CALLEES:
        types = [p.value_type for r in b['rows'] if r['name'] == nm for p in r['fd'].parameters.values()]

        def verdicts(x):
            res = []
            for t in types:
                try:
                    res.append(bool(t.check(x, ctx, eng)))
                except Exception:       # noqa
                    res.append(None)
            return tuple(res)
        fn_matters = verdicts(fn_node) != verdicts(other_node)
        kvec = {k: verdicts(v) for k, v in kinds}
        kind_rep = {}
        for k, _ in kinds:
            kind_rep[k] = next(k2 for k2, _ in kinds if kvec[k2] == kvec[k])
        lit_shapes = [('.lit .%s' % n, (verdicts(expressions.Constant(v)), verdicts(v))) for n, v in LITS]
        kw_shape = ('.kw %s' % lchars('a'), (verdicts(expressions.KeywordConstant('a')), verdicts('a')))
        order = lit_shapes + [kw_shape]
        rep = lambda sig: next(t for t, s2 in order if s2 == sig)        # noqa: E731
        i = len(out)
        pre.append('def repLit%d : LitK → AShape\n%s\ndef repKind%d : Kind → Kind\n%s' % (
            i, '\n'.join('  | .%s => %s' % (n, rep(sig)) for (n, _), (_, sig) in zip(LITS, lit_shapes)),
            i, '\n'.join('  | .%s => .%s' % (k, kind_rep[k]) for k, _ in kinds)))
        out.append('  | %s => { lit := repLit%d, kw := %s, kind := repKind%d, fnMatters := %s }' % (
            term, i, rep(kw_shape[1]), i, 'true' if fn_matters else 'false'))
    return pre, out


def class_name(c):
    return c.__name__ if c.__module__ == 'builtins' else c.__module__.split('.')[-1] + '.' + c.__qualname__


@pyfacts.generator('RegistryTypes')
def gen_registry_types():
    b = build()
    U = b['U']
    reps = reps_rows(b)
    n = len(U.classes)
    sub = []
    for a in U.classes:
        row = []
        for j, c in enumerate(U.classes):
            try:
                if issubclass(a, c):
                    row.append(j)
            except TypeError:
                pass
        sub.append(row)
    kind_rows = ['  | .%s => %s' % (k, U.val(v)) for k, v in b['kinds']]
    ek_rows = ['  | .%s => (%d, %s)' % (nm, U.ek_id[nm], 'true' if inst.uses_receiver else 'false')
               for nm, _, inst in U.exprs]
    names = []
    for r in b['rows']:
        if r['name'] not in names:
            names.append(r['name'])
    excl = set(b['exclusive'])

    def group_text(gi, nm):
        mem = [(i, r) for i, r in enumerate(b['rows']) if r['name'] == nm]
        layers = ['{ fns := [%s], exclusive := %s }' % (
            ', '.join('d%d.fd' % i for i, r in mem if r['layer'] == li), 'true' if (li, nm) in excl else 'false')
            for li in range(b['layers'])]
        return 'def g%d : Group :=\n  { name := %s,\n    members := [%s],\n    layers := [%s] }' % (
            gi, lchars(nm), ', '.join('d%d' % i for i, _ in mem), ',\n               '.join(layers))
    group_rows = [group_text(gi, nm) for gi, nm in enumerate(names)]
    callee_rows = []
    for term, nm in CALLEES:
        if nm in names:
            callee_rows.append('  | %s => g%d' % (term, names.index(nm)))
        else:       # nothing is registered under the name any more
            callee_rows.append('  | %s => { name := %s, members := [], layers := [] }' % (term, lchars(nm)))
    body = (
        'import Yaql.Model.EvalDispatch\n'
        '/-! every FunctionDefinition of `yaql.create_context()` with the exact smart type of every parameter over the closed\n'
        'class universe of the registry (%d definitions, %d classes of which %d are mentioned by a parameter type,\n'
        '%d validators identified by behaviour on %d probe values, %d layers) -/\n'
        'namespace Yaql.Gen.RegistryTypes\nopen Yaql.Types Yaql.Resolve Yaql.EvalDispatch\n\n'
        '/-- class id -> name (documentation; ids are what the tables use) -/\n'
        'def classNames : List (List Char) := [\n%s\n]\n\n'
        '/-- row i: the classes j with `issubclass(class i, class j)` on the live classes -/\n'
        'def subTable : List (List Nat) := [\n%s\n]\n\n'
        '/-- the classes some parameter type of the registry mentions -/\n'
        'def mentioned : List Nat := [%s]\n\n'
        '/-- validator id -> the first parameter it was met at -/\n'
        'def validatorNames : List (List Char) := [\n%s\n]\n\n'
        '/-- validators whose check RAISED on some probe value (the model counts that as a refusal) -/\n'
        'def validatorsRaising : List (List Char) := [%s]\n\n'
        '/-- `utils.NO_VALUE` and an evaluated `utils.MappingRule` -/\n'
        'def markerVal : Val := %s\n'
        'def mapRuleVal : Val := %s\n'
        '/-- a `datetime.datetime` and a `datetime.timedelta` (no evaluator kind; used by examples) -/\n'
        'def datetimeVal : Val := %s\n'
        'def timespanVal : Val := %s\n\n'
        '/-- evaluator kind -> a value of that kind as the parameter types see it; every probe value of a kind has the\n'
        '    same `isinstance` verdicts against the mentioned classes and passes the same validators unless listed in\n'
        '    `nonUniformKinds` -/\n'
        'def kindVal : Kind → Val\n%s\n'
        'def nonUniformKinds : List (List Char) := [%s]\n\n'
        '/-- parser expression class -> (id shared by the classes no `YaqlExpression` type of the registry tells apart,\n'
        '    `uses_receiver` of a fresh instance) -/\n'
        'def ekInfo : EK → Nat × Bool\n%s\n'
        'def ekFn : Nat := %d\n'
        'def ekOther : Nat := %d\n\n'
        '/-- the operator table of the default engine: (symbol, unary, name of the function the operator calls) -/\n'
        'def operatorTable : List (List Char × Bool × List Char) := [\n%s\n]\n\n'
        'def nLayers : Nat := %d\n'
        '/-- (layer, name) pairs in `_exclusive_funcs` -/\n'
        'def exclusive : List (Nat × List Char) := [%s]\n\n'
        '%s\n\n'
        '/-- every definition, in the order of their ids -/\n'
        'def defs : List GDef := [%s]\n\n'
        '/-! the definitions by the name they are registered under, layer by layer: what\n'
        '`context.collect_functions(name, ..)` walks -/\n%s\n\n'
        'def groups : List Group := [%s]\n\n'
        '/-- the group of the name each call site of the evaluator hands to the context -/\n'
        'def groupOfCallee : Callee → Group\n%s\n'
        '  | .property n => { name := N.propertyPrefix ++ n, members := [], layers := [] }\n\n'
        'def sub (a b : Cls) : Bool := (subTable.getD a []).contains b\n'
        'def lattice : Lattice := { sub := sub, marker := markerVal }\n'
        'def univ : Universe :=\n'
        '  { L := lattice, kindVal := kindVal, mapRuleVal := mapRuleVal, ekFn := ekFn, ekOther := ekOther }\n\n'
        '/-- representatives PROPOSED for the argument shapes of each call site (classes of equal verdicts of the live\n'
        '    parameter types of the group); `C04DispatchGen` checks them against the model -/\n'
        '%s\n'
        'def repsOfCallee : Callee → Reps\n%s\n'
        '  | .property _ => { lit := AShape.lit, kw := .kw [], kind := id, fnMatters := true }\n\n'
        'end Yaql.Gen.RegistryTypes\n') % (
        len(b['rows']), n, len(U.mentioned), len(U.vvecs), len(U.probes), b['layers'],
        ',\n'.join('  %s' % lchars(class_name(c)) for c in U.classes),
        ',\n'.join('  [%s]' % ', '.join(map(str, r)) for r in sub),
        ', '.join(map(str, U.mentioned)),
        ',\n'.join('  %s' % lchars(x) for x in U.vnames),
        ', '.join(lchars(x) for x in U.raises),
        U.val(utils.NO_VALUE), U.val(EXTRA_PROBES[1]), U.val(EXTRA_PROBES[2]), U.val(EXTRA_PROBES[3]),
        '\n'.join(kind_rows), ', '.join(lchars(k) for k in b['nonuniform']),
        '\n'.join(ek_rows), U.ek_id['function'], U.ek_id['getContextValue'],
        ',\n'.join('  (%s, %s, %s)' % (lchars(sym), 'true' if un else 'false', lchars(fn))
                   for sym, un, fn in scalarops.operators()), b['layers'],
        ', '.join('(%d, %s)' % (li, lchars(nm)) for li, nm in b['exclusive']),
        '\n'.join(r['text'] for r in b['rows']),
        ', '.join('d%d' % i for i in range(len(b['rows']))), '\n'.join(group_rows),
        ', '.join('g%d' % i for i in range(len(names))), '\n'.join(callee_rows), '\n'.join(reps[0]), '\n'.join(reps[1]))
    changed = pyfacts.emit('RegistryTypes', body)
    return dict(definitions=len(b['rows']), classes=n, mentioned_classes=[class_name(U.classes[i]) for i in U.mentioned],
                validators=len(U.vvecs), probes=len(U.probes), layers=b['layers'], non_uniform_kinds=b['nonuniform'],
                expression_ids=U.ek_id, rewritten=changed)
